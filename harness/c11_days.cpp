// C11, part 1: the complete day range and the ok() cube.
//
//  days/<k>   every sys_days value of the years [-32767, 32767] (23 936 167 days, 16 jobs by year
//             range): civil-from-days, days-from-civil, weekday, ok(), local_days twins,
//             last-day-of-month, is_leap, year_month_weekday::ok() of the (weekday, index) of every
//             day and of the first index that does not exist in the month; oracles = std::chrono
//             AND a day-by-day walker (month table + 4/100/400 rule, anchored at 1970-01-01 = Thu).
//  ok/<k>     every (year, month 0..13, day 0..32): ok() of year_month_day, year_month_day_last,
//             year_month_weekday (weekday 0..7, index 0..7), sys_days of not-ok dates with valid
//             year/month (specified: sys_days{y/m/1} + (d - 1)), all 65 536 years.
//  ok/yearless month_day, month_day_last, month_weekday(_last), weekday_indexed/_last, day, month,
//             weekday constructors and ok() over their full 8-bit argument ranges.
#include "c11_common.hpp"

using namespace c11;

namespace {

constexpr int kYearMin = -32767;
constexpr int kYearMax = 32767;

std::string era_tag(int y, long long n)
{
    if (y < 0) { return "year_neg"; }
    if (n < 0) { return "pre_epoch"; }
    return "post_epoch";
}

std::string day_cls(Walker const& w)
{
    std::string c = era_tag(w.y, w.n);
    if (w.m == 2 && w.d == 29) {
        c += "+leap_day";
    } else if (w.d == Walker::mlen(w.y, w.m)) {
        c += "+month_end";
    } else if (w.d == 1) {
        c += "+month_start";
    }
    return c;
}

std::string day_case(Walker const& w)
{
    static char const* const wn[7] = {"Sun", "Mon", "Tue", "Wed", "Thu", "Fri", "Sat"};
    return cat("sys_days{", w.n, "} = ", w.y, "-", w.m, "-", w.d, " ", wn[w.wd]);
}

void sweep_years(mc::Reporter& r, int y0, int y1 /*exclusive*/)
{
    Ctx c(r);
    Walker w = Walker::jan1(y0);
    std::uint64_t evals = 0, nontrivial = 0, days_done = 0;
    std::uint64_t san = mc::san_hits();
    char const* subject = "";
    r.sample(cat("first: ", day_case(w)));
    {
        // anchor of the walker against the reference (an oracle disagreement would be a harness bug)
        auto const s = sc::sys_days{sc::year{y0} / sc::month{1} / sc::day{1}}.time_since_epoch().count();
        if (s != w.n) { r.violation("C11", "oracle", "walker-vs-std", day_case(w), cat("std day number ", s)); }
    }

    auto bad = [&](char const* subj, std::string const& got, std::string const& want) {
        r.violation("C11", subj, day_cls(w), day_case(w), cat("tetl=", got, " expected=", want));
    };

    for (int year = y0; year < y1; ++year) {
        mc::Trap t = mc::guarded([&] {
            bool const lp  = Walker::leap(year);
            int const ndays = lp ? 366 : 365;
            {
                subject = "year::is_leap()";
                bool const e = ec::year{year}.is_leap();
                bool const s = sc::year{year}.is_leap();
                ++evals;
                if (e != lp || s != lp) { bad(subject, cat(e), cat(lp, " (std ", s, ")")); }
            }
            for (int i = 0; i < ndays; ++i) {
                auto const n32 = static_cast<int>(w.n);
                // --- reference agreement (walker vs std): never expected to fail
                sc::year_month_day const s{sc::sys_days{sc::days{w.n}}};
                if (int(s.year()) != w.y || unsigned(s.month()) != w.m || unsigned(s.day()) != w.d
                    || sc::weekday{sc::sys_days{sc::days{w.n}}}.c_encoding() != w.wd) {
                    r.violation("C11", "oracle", "walker-vs-std", day_case(w),
                        cat("std=", int(s.year()), "-", unsigned(s.month()), "-", unsigned(s.day())));
                }

                // --- civil from days
                subject = "year_month_day(sys_days)";
                ec::sys_days const esd{ec::days{n32}};
                ec::year_month_day const e{esd};
                int const ey      = int(e.year());
                unsigned const em = unsigned(e.month());
                unsigned const ed = unsigned(e.day());
                ++evals;
                if (ey != w.y || em != w.m || ed != w.d) { bad(subject, cat(ey, "-", em, "-", ed), cat(w.y, "-", w.m, "-", w.d)); }
                subject = "year_month_day::ok()";
                ++evals;
                if (!e.ok()) { bad(subject, "false", "true"); }

                subject = "year_month_day(local_days)";
                ec::year_month_day const el{ec::local_days{ec::days{n32}}};
                ++evals;
                if (int(el.year()) != w.y || unsigned(el.month()) != w.m || unsigned(el.day()) != w.d) {
                    bad(subject, cat(int(el.year()), "-", unsigned(el.month()), "-", unsigned(el.day())), cat(w.y, "-", w.m, "-", w.d));
                }

                // --- days from civil, from the walker's fields (independent of the conversion above)
                subject = "year_month_day::operator sys_days";
                ec::year_month_day const f{ec::year{w.y}, ec::month{w.m}, ec::day{w.d}};
                long long const back = ec::sys_days{f}.time_since_epoch().count();
                ++evals;
                if (back != w.n) { bad(subject, cat(back), cat(w.n)); }
                subject = "year_month_day::operator local_days";
                long long const backl = ec::local_days(f).time_since_epoch().count();
                ++evals;
                if (backl != w.n) { bad(subject, cat(backl), cat(w.n)); }
                // round trip of the converted value itself
                subject = "sys_days(year_month_day(sys_days))";
                long long const rt = ec::sys_days{e}.time_since_epoch().count();
                ++evals;
                if (rt != w.n) { bad(subject, cat(rt), cat(w.n)); }

                // --- weekday
                subject = "weekday(sys_days)";
                ec::weekday const ew{esd};
                ++evals;
                if (ew.c_encoding() != w.wd || !ew.ok() || ew.iso_encoding() != (w.wd == 0 ? 7U : w.wd)) {
                    bad(subject, cat(ew.c_encoding(), "/iso", ew.iso_encoding(), "/ok", ew.ok()), cat(w.wd));
                }
                subject = "weekday(local_days)";
                ec::weekday const ewl{ec::local_days{ec::days{n32}}};
                ++evals;
                if (ewl.c_encoding() != w.wd) { bad(subject, cat(ewl.c_encoding()), cat(w.wd)); }

                // --- year_month_weekday::ok() for the (weekday, index) this day is, and for the
                //     same weekday one week later when that falls outside the month
                unsigned const ml  = Walker::mlen(w.y, w.m);
                unsigned const idx = (w.d - 1) / 7 + 1;
                subject            = "year_month_weekday::ok()";
                {
                    ec::year_month_weekday const q{ec::year{w.y}, ec::month{w.m}, ec::weekday_indexed{ec::weekday{w.wd}, idx}};
                    ++evals;
                    if (!q.ok()) { bad(subject, cat("false for ", w.wd, "[", idx, "]"), "true"); }
                    if (w.d + 7 > ml) {
                        ec::year_month_weekday const q2{ec::year{w.y}, ec::month{w.m}, ec::weekday_indexed{ec::weekday{w.wd}, idx + 1}};
                        ++evals;
                        if (q2.ok()) { bad(subject, cat("true for ", w.wd, "[", idx + 1, "]"), "false"); }
                    }
                }

                // --- month boundaries: last day of month
                if (w.d == ml) {
                    ++nontrivial;
                    subject = "year_month_day_last::day()";
                    ec::year_month_day_last const l{ec::year{w.y}, ec::month_day_last{ec::month{w.m}}};
                    sc::year_month_day_last const sl{sc::year{w.y}, sc::month_day_last{sc::month{w.m}}};
                    ++evals;
                    if (unsigned(l.day()) != w.d || unsigned(sl.day()) != w.d || !l.ok()) { bad(subject, cat(unsigned(l.day()), "/ok", l.ok()), cat(w.d)); }
                    subject = "year_month_day(year_month_day_last)";
                    ec::year_month_day const fl{l};
                    ++evals;
                    if (!(fl == f)) { bad(subject, cat(int(fl.year()), "-", unsigned(fl.month()), "-", unsigned(fl.day())), cat(w.y, "-", w.m, "-", w.d)); }
                    // the day after the last one does not exist
                    subject = "year_month_day::ok()";
                    ec::year_month_day const over{ec::year{w.y}, ec::month{w.m}, ec::day{w.d + 1}};
                    ++evals;
                    if (over.ok()) { bad(subject, cat("true for day ", w.d + 1), "false"); }
                } else if (w.d == 1) {
                    ++nontrivial;
                }
                if ((w.n & 1023) == 0 || w.d == 1) { r.outcome(mc::hash_mix(mc::hash_mix(w.m, w.d), mc::hash_mix(w.wd, lp))); }

                auto const now = mc::san_hits();
                if (now != san) {
                    san = now;
                    r.violation("C02", "calendar day sweep", day_cls(w), day_case(w), "ASan/UBSan report (see job log)");
                }
                ++days_done;
                w.next();
            }
        });
        if (t != mc::Trap::none) {
            c.subject = subject;
            c.trapped(t, day_cls(w), day_case(w));
            // resynchronise the walker on the next year
            w = Walker::jan1(year + 1);
        }
        if (r.deadline_passed()) {
            r.not_exhaustive("deadline");
            break;
        }
    }
    {
        // the walker must arrive exactly on January 1st of y1 (closes the chain of the 16 jobs)
        auto const s = sc::sys_days{sc::year{y1 - 1} / sc::month{12} / sc::day{31}}.time_since_epoch().count() + 1;
        if (r.exhaustive && (s != w.n || w.m != 1 || w.d != 1)) { r.violation("C11", "oracle", "walker-vs-std", day_case(w), cat("std day number ", s)); }
    }
    r.sample(cat("last+1: ", day_case(w)));
    r.count("evaluations", evals);
    r.count("days", days_done);
    r.count("distinct_nontrivial", nontrivial);
}

// ---------------------------------------------------------------------------------------------
// ok() cube
// ---------------------------------------------------------------------------------------------

std::string ymd_cls(int y, unsigned m, unsigned d)
{
    std::string c;
    if (y == -32768) { c += "year_min+"; }
    if (m < 1 || m > 12) {
        c += "month_not_ok+";
    } else if (d < 1) {
        c += "day_zero+";
    } else if (d > Walker::mlen(y, m)) {
        c += "day_gt_last+";
    } else if (m == 2 && d == 29) {
        c += "leap_day+";
    }
    if (c.empty()) { return "general"; }
    c.pop_back();
    return c;
}

template <typename L>
V ok_ymd(int y, unsigned m, unsigned d)
{
    typename L::year_month_day const x{typename L::year{y}, typename L::month{m}, typename L::day{d}};
    V v{x.ok()};
    // sys_days of a date with valid year and month is specified even when the day is not (ok or not)
    if (x.year().ok() && x.month().ok()) {
        v.add((long long)typename L::sys_days{x}.time_since_epoch().count());
    }
    return v;
}

template <typename L>
V ok_ymdl(int y, unsigned m)
{
    typename L::year_month_day_last const x{typename L::year{y}, typename L::month_day_last{typename L::month{m}}};
    return f_ymdl(x);
}

template <typename L>
V ok_ymw(int y, unsigned m, unsigned wd, unsigned idx)
{
    typename L::year_month_weekday const x{typename L::year{y}, typename L::month{m}, typename L::weekday_indexed{typename L::weekday{wd}, idx}};
    return V{x.ok(), (long long)x.weekday().c_encoding(), (long long)x.index()};
}

void ok_years(mc::Reporter& r, int y0, int y1 /*exclusive*/)
{
    Ctx c(r);
    int y = 0;
    unsigned m = 0, d = 0, wd = 0, idx = 0;
    std::uint64_t nontrivial = 0;
    auto kase3 = [&] { return cat("year_month_day{", y, ",", m, ",", d, "}"); };
    for (y = y0; y < y1; ++y) {
        mc::Trap t = mc::guarded([&] {
            for (m = 0; m <= 13; ++m) {
                for (d = 0; d <= 32; ++d) {
                    c.subject = "year_month_day::ok()/sys_days";
                    auto const got  = ok_ymd<E>(y, m, d);
                    auto const want = ok_ymd<S>(y, m, d);
                    c.check(c.subject, got, want, [&] { return ymd_cls(y, m, d); }, kase3);
                    if (m >= 1 && m <= 12 && d >= 28) { ++nontrivial; }
                }
                d = 0;
                c.subject = "year_month_day_last::ok()/day()";
                c.check(
                    c.subject, ok_ymdl<E>(y, m), ok_ymdl<S>(y, m), [&] { return ymd_cls(y, m, 1); },
                    [&] { return cat("year_month_day_last{", y, ",", m, "/last}"); });
                for (wd = 0; wd <= 7; ++wd) {
                    for (idx = 0; idx <= 7; ++idx) {
                        c.subject = "year_month_weekday::ok()";
                        c.check(
                            c.subject, ok_ymw<E>(y, m, wd, idx), ok_ymw<S>(y, m, wd, idx),
                            [&] {
                                std::string s = ymd_cls(y, m, 1);
                                if (idx == 0 || idx > 5) {
                                    s += "+index_not_ok";
                                } else if (idx == 5) {
                                    s += "+index_5";
                                }
                                return s;
                            },
                            [&] { return cat("year_month_weekday{", y, ",", m, ",weekday{", wd, "}[", idx, "]}"); });
                    }
                }
            }
        });
        if (t != mc::Trap::none) { c.trapped(t, ymd_cls(y, m, d), cat("y=", y, " m=", m, " d=", d, " wd=", wd, " idx=", idx)); }
        if (r.deadline_passed()) {
            r.not_exhaustive("deadline");
            break;
        }
    }
    r.sample(cat("years [", y0, ",", y1, ") x month 0..13 x day 0..32; x weekday 0..7 x index 0..7"));
    r.count("evaluations", c.evals);
    r.count("distinct_nontrivial", nontrivial);
}

// ---- year-less types ---------------------------------------------------------------------------

template <typename L>
V yl_month_day(unsigned m, unsigned d)
{
    typename L::month_day const x{typename L::month{m}, typename L::day{d}};
    return V{(long long)unsigned(x.month()), (long long)unsigned(x.day()), x.ok()};
}
template <typename L>
V yl_month_day_last(unsigned m)
{
    typename L::month_day_last const x{typename L::month{m}};
    return V{(long long)unsigned(x.month()), x.ok()};
}
template <typename L>
V yl_month_weekday(unsigned m, unsigned wd, unsigned idx)
{
    typename L::month_weekday const x{typename L::month{m}, typename L::weekday_indexed{typename L::weekday{wd}, idx}};
    return V{(long long)unsigned(x.month()), (long long)x.weekday_indexed().weekday().c_encoding(), (long long)x.weekday_indexed().index(), x.ok(),
        x.weekday_indexed().ok()};
}
template <typename L>
V yl_month_weekday_last(unsigned m, unsigned wd)
{
    typename L::month_weekday_last const x{typename L::month{m}, typename L::weekday_last{typename L::weekday{wd}}};
    return V{(long long)unsigned(x.month()), (long long)x.weekday_last().weekday().c_encoding(), x.ok(), x.weekday_last().ok()};
}
template <typename L>
V yl_weekday_sub(unsigned wd, unsigned idx)
{
    typename L::weekday const w{wd};
    auto const wi = w[idx];
    auto const wl = w[L::last];
    return V{(long long)wi.weekday().c_encoding(), (long long)wi.index(), wi.ok(), (long long)wl.weekday().c_encoding(), wl.ok()};
}

void ok_yearless(mc::Reporter& r)
{
    Ctx c(r);
    unsigned a = 0, b = 0, k = 0;
    auto cls_md = [&] {
        if (a < 1 || a > 12) { return std::string("month_not_ok"); }
        if (b < 1) { return std::string("day_zero"); }
        if (b > Walker::mlen(2000, a)) { return std::string("day_gt_last"); }
        return std::string("general");
    };
    mc::Trap t = mc::guarded([&] {
        for (a = 0; a <= 13; ++a) {
            for (b = 0; b <= 32; ++b) {
                c.subject = "month_day::ok()";
                c.check(c.subject, yl_month_day<E>(a, b), yl_month_day<S>(a, b), cls_md, [&] { return cat("month_day{", a, ",", b, "}"); });
            }
            b         = 1;
            c.subject = "month_day_last::ok()";
            c.check(c.subject, yl_month_day_last<E>(a), yl_month_day_last<S>(a), cls_md, [&] { return cat("month_day_last{", a, "}"); });
            for (b = 0; b <= 7; ++b) {
                c.subject = "month_weekday_last::ok()";
                c.check(c.subject, yl_month_weekday_last<E>(a, b), yl_month_weekday_last<S>(a, b), cls_md, [&] { return cat("month_weekday_last{", a, ",weekday{", b, "}[last]}"); });
                for (k = 0; k <= 7; ++k) {
                    c.subject = "month_weekday::ok()";
                    c.check(
                        c.subject, yl_month_weekday<E>(a, b, k), yl_month_weekday<S>(a, b, k),
                        [&] { return cat(a >= 1 && a <= 12 ? "month_ok" : "month_not_ok", (k >= 1 && k <= 5) ? "" : "+index_not_ok"); },
                        [&] { return cat("month_weekday{", a, ",weekday{", b, "}[", k, "]}"); });
                }
            }
        }
        // weekday[index], weekday[last]: valid weekdays (values held are unspecified otherwise), index 0..7
        for (a = 0; a <= 7; ++a) {
            for (k = 0; k <= 7; ++k) {
                c.subject = "weekday::operator[]";
                c.check(
                    c.subject, yl_weekday_sub<E>(a, k), yl_weekday_sub<S>(a, k), [&] { return std::string((k >= 1 && k <= 5) ? "general" : "index_not_ok"); },
                    [&] { return cat("weekday{", a, "}[", k, "]"); });
            }
        }
        // constructors + ok() + conversion over the complete 8-bit range (255 apart, below)
        for (a = 0; a <= 254; ++a) {
            c.subject = "day(unsigned)";
            c.check(c.subject, f_day(ec::day{a}), f_day(sc::day{a}), [&] { return std::string(a >= 1 && a <= 31 ? "general" : "not_ok"); }, [&] { return cat("day{", a, "}"); });
            c.subject = "month(unsigned)";
            c.check(c.subject, f_month(ec::month{a}), f_month(sc::month{a}), [&] { return std::string(a >= 1 && a <= 12 ? "general" : "not_ok"); }, [&] { return cat("month{", a, "}"); });
            c.subject = "weekday(unsigned)";
            c.check(c.subject, f_wd(ec::weekday{a}), f_wd(sc::weekday{a}), [&] { return std::string(a <= 6 ? "general" : (a == 7 ? "seven" : "not_ok")); }, [&] { return cat("weekday{", a, "}"); });
        }
    });
    if (t != mc::Trap::none) { c.trapped(t, "general", cat("a=", a, " b=", b, " k=", k)); }
    // 255 is inside the documented value range [0, 255] of day and month
    a = 255;
    t = mc::guarded([&] {
        c.subject = "day(unsigned)";
        c.check(c.subject, f_day(ec::day{a}), f_day(sc::day{a}), [&] { return std::string("value_255"); }, [&] { return cat("day{255}"); });
    });
    c.trapped(t, "value_255", "day{255}");
    t = mc::guarded([&] {
        c.subject = "month(unsigned)";
        c.check(c.subject, f_month(ec::month{a}), f_month(sc::month{a}), [&] { return std::string("value_255"); }, [&] { return cat("month{255}"); });
    });
    c.trapped(t, "value_255", "month{255}");
    // day() of a year_month_day_last whose month is not ok(): the value is unspecified, the call is valid
    // (and is what year_month_day(year_month_day_last) executes); it must not read outside the table
    for (int yy : {2023, 2024}) {
        for (unsigned mm : {0U, 13U, 14U, 100U, 254U}) {
            c.subject         = "year_month_day_last::day()";
            auto const kase   = cat("year_month_day_last{", yy, ",month{", mm, "}/last}.day()");
            auto const klass  = std::string(mm == 0 ? "month_zero" : "month_gt_12");
            auto const before = mc::san_hits();
            t                 = mc::guarded([&] {
                ec::year_month_day_last const x{ec::year{yy}, ec::month_day_last{ec::month{mm}}};
                auto volatile dd = unsigned(x.day());
                (void)dd;
                ec::year_month_day const conv{x};
                auto volatile d2 = unsigned(conv.day());
                (void)d2;
            });
            ++c.evals;
            if (t == mc::Trap::crash || t == mc::Trap::hang) {
                r.violation("C02", c.subject, klass, kase, cat(mc::describe_trap(t), ": table of month lengths indexed with month-1 outside [0,11]"));
            } else if (t != mc::Trap::none) {
                c.trapped(t, klass, kase);
            }
            if (mc::san_hits() != before) {
                r.violation("C02", c.subject, klass, kase, "ASan/UBSan report: table of month lengths indexed with month-1 outside [0,11] (see job log)");
            }
            c.san = mc::san_hits();
        }
    }
    // year: whole int16 range
    int y = 0;
    t     = mc::guarded([&] {
        for (y = -32768; y <= 32767; ++y) {
            c.subject = "year(int)";
            V e       = f_year(ec::year{y});
            V s       = f_year(sc::year{y});
            e.add(ec::year{y}.is_leap());
            s.add(sc::year{y}.is_leap());
            c.check(c.subject, e, s, [&] { return std::string(y == -32768 ? "year_min" : (y % 100 == 0 ? "century" : "general")); }, [&] { return cat("year{", y, "}"); });
        }
        c.subject = "year::min()/max()";
        c.check(c.subject, V{int(ec::year::min()), int(ec::year::max())}, V{int(sc::year::min()), int(sc::year::max())}, [] { return std::string("general"); }, [] { return std::string("year::min(), year::max()"); });
    });
    if (t != mc::Trap::none) { c.trapped(t, "general", cat("year{", y, "}")); }
    r.sample("month_day 14x33, month_weekday 14x8x8, weekday[index] 8x8, day/month/weekday{0..255}, year{-32768..32767}");
    r.count("evaluations", c.evals);
    r.count("distinct_nontrivial", 12 * 5 /* month_day with day >= 28 */ + 12 * 7 * 5 + 65536);
}

} // namespace

int main(int argc, char** argv)
{
    mc::Main m(argc, argv);
    std::vector<std::string> const both{"quick", "thorough"};
    // 16 year ranges of 4096 years (the last one 4095): the complete day range in both tiers
    for (int k = 0; k < 16; ++k) {
        int const y0 = kYearMin + k * 4096;
        int const y1 = std::min(y0 + 4096, kYearMax + 1);
        m.job(cat("days/", y0, "..", y1 - 1), both, [=](mc::Reporter& r) { sweep_years(r, y0, y1); });
    }
    for (int k = 0; k < 16; ++k) {
        int const y0 = -32768 + k * 4096;
        int const y1 = y0 + 4096;
        m.job(cat("ok/", y0, "..", y1 - 1), both, [=](mc::Reporter& r) { ok_years(r, y0, y1); });
    }
    m.job("ok/yearless", both, ok_yearless);
    return m.run();
}
