// C04, round 2: shared machinery of the widening harnesses (c04_alias.cpp, c04_traits.cpp, c04_cycles.cpp,
// c04_interop.cpp, c04_constexpr.cpp).
//
// Every case is ONE call expression, written once as a generic lambda `op(auto& t) -> long`, executed on a real
// etl::basic_inplace_string and on the std::basic_string model.  The lambda only uses names that exist on both
// sides; everything an argument refers to is derived from `t` itself or from caller-owned exact-size blocks.
//
//  * the model runs first on a copy: a std exception means the tuple is not a valid input (skipped, counted);
//  * a result that does not fit the capacity is a clamping call: only for calls that tetl documents as
//    truncating (flag CL), only with contract checks off, held to the invariants only;
//  * otherwise returned value, size, content and the invariants size() <= capacity(), data()[size()] == 0,
//    c_str() == data() are compared.
//
// The tetl object lives in an exact-size box with canaries on both sides (ASan red zones in the san flavour):
// a write outside the object's own storage is reported (C02) and ends the job.
#pragma once
#include "mc.hpp"

#include <etl/string.hpp>
#include <etl/string_view.hpp>

#include <memory>
#include <stdexcept>
#include <string>
#include <string_view>
#include <type_traits>

namespace c04 {

using mc::cat;

constexpr std::size_t NPOS = std::size_t(-1);
inline std::string shz(std::size_t x) { return x == NPOS ? std::string("npos") : std::to_string(x); }
inline int sign(int x) { return (x > 0) - (x < 0); }

#if defined(MC_FLAVOUR_CHK)
constexpr bool allow_clamp = false;
#else
constexpr bool allow_clamp = true;
#endif

template <typename Char>
char const* cname()
{
    if constexpr (std::is_same_v<Char, char>) { return "char"; }
    if constexpr (std::is_same_v<Char, wchar_t>) { return "wchar_t"; }
    if constexpr (std::is_same_v<Char, char8_t>) { return "char8_t"; }
    if constexpr (std::is_same_v<Char, char16_t>) { return "char16_t"; }
    return "char32_t";
}

template <typename Seq>
std::string show(Seq const& s)
{
    return mc::show_chars(s.begin(), s.end());
}
template <typename Char>
std::string showc(Char c)
{
    Char const a[1] = {c};
    auto s          = mc::show_chars(a, a + 1);
    s.front()       = '\'';
    s.back()        = '\'';
    return s;
}

/// exact-size storage for one tetl object with canaries on both sides
template <typename S>
struct Box {
    static_assert(std::is_trivially_copyable_v<S>, "snapshots are taken with memcpy");
    static_assert(alignof(S) <= 16);
    static constexpr std::size_t pad = 32;
    unsigned char* raw{nullptr};
    S* v{nullptr};

    Box()
    {
#if defined(MC_FLAVOUR_SAN)
        raw = static_cast<unsigned char*>(std::malloc(sizeof(S)));
#else
        raw = static_cast<unsigned char*>(std::malloc(sizeof(S) + 2 * pad));
        std::memset(raw, 0xA5, pad);
        std::memset(raw + pad + sizeof(S), 0xA5, pad);
#endif
        std::memset(mem(), 0xAA, sizeof(S));
        v = ::new (static_cast<void*>(mem())) S;
    }
    Box(Box const&)            = delete;
    Box& operator=(Box const&) = delete;
    ~Box() { std::free(raw); }

    unsigned char* mem() const
    {
#if defined(MC_FLAVOUR_SAN)
        return raw;
#else
        return raw + pad;
#endif
    }
    /// a new object over storage filled with `poison`
    template <typename... A>
    S& make(unsigned char poison, A&&... a)
    {
        std::memset(mem(), poison, sizeof(S));
        v = ::new (static_cast<void*>(mem())) S(std::forward<A>(a)...);
        return *v;
    }
    void save(unsigned char* to) const { std::memcpy(to, mem(), sizeof(S)); }
    void load(unsigned char const* from) { std::memcpy(mem(), from, sizeof(S)); }
    bool intact() const
    {
#if !defined(MC_FLAVOUR_SAN)
        for (std::size_t i = 0; i < pad; ++i) {
            if (raw[i] != 0xA5 || raw[pad + sizeof(S) + i] != 0xA5) { return false; }
        }
#endif
        return true;
    }
};

template <typename T>
struct view_of;
template <typename C, std::size_t N, typename Tr>
struct view_of<etl::basic_inplace_string<C, N, Tr>> {
    using type = etl::basic_string_view<C, Tr>;
};
template <typename C, typename Tr, typename A>
struct view_of<std::basic_string<C, Tr, A>> {
    using type = std::basic_string_view<C, Tr>;
};
template <typename T>
using view_t = typename view_of<std::remove_cvref_t<T>>::type;

template <typename T, typename U>
long self(T& t, U& x)
{
    return static_cast<void const*>(&t) == static_cast<void const*>(&x) ? 0 : -77;
}

enum : unsigned { PRE = 0, CL = 1 };

/// non-owning callable reference: keeps Lock::run a single (non-template) function per configuration
template <typename Sig>
struct FnRef;
template <typename R, typename... A>
struct FnRef<R(A...)> {
    void const* obj;
    R (*call)(void const*, A...);
    template <typename F>
        requires(!std::is_same_v<std::remove_cvref_t<F>, FnRef>)
    FnRef(F const& f) : obj(&f), call([](void const* o, A... a) -> R { return (*static_cast<F const*>(o))(static_cast<A>(a)...); })
    {
    }
    R operator()(A... a) const { return call(obj, static_cast<A>(a)...); }
};
using DescRef = FnRef<std::string()>;

/// Lock-step executor for one configuration (one tetl string type S, one model type M).
template <typename S, typename M>
struct Lock {
    using Char = typename S::value_type;
    static constexpr std::size_t N = S{}.capacity();

    mc::Reporter& r;
    std::string config;
    Box<S> box;
    std::unique_ptr<unsigned char[]> snap{new unsigned char[sizeof(S)]};
    M snap_m;
    M m;
    std::function<std::string()> state_desc;
    std::string subj; // subject of the call that is running (trap attribution)
    std::uint64_t evals{0}, valid{0}, clamped{0}, skipped{0};
    bool damaged{false}; // a call wrote outside the object: stop
    enum class Last { invalid, clamped, agreed, failed } last{Last::invalid};

    Lock(mc::Reporter& rep, std::string cfg) : r(rep), config(std::move(cfg))
    {
        snap_m.reserve(2 * N + 16);
        m.reserve(2 * N + 16);
        state_desc = [] { return std::string("<default>"); };
        box.save(snap.get());
    }

    S& obj() { return *box.v; }

    /// makes the object in the box (and the model) the start state of the following run() calls
    void commit(M const& model, std::function<std::string()> desc)
    {
        box.save(snap.get());
        snap_m.assign(model.data(), model.size());
        state_desc = std::move(desc);
    }

    bool seen(char const* prop, std::string const& subject, std::string const& cls)
    {
        auto it = r.viols.find(std::make_tuple(std::string(prop), subject, cls));
        if (it == r.viols.end()) { return false; }
        it->second.count += 1;
        return true;
    }
    void fail(char const* prop, char const* subject, std::string const& cls, DescRef desc, DescRef detail)
    {
        std::string const s = std::string("basic_inplace_string::") + subject;
        if (seen(prop, s, cls)) { return; }
        r.violation(prop, s, cls, cat(config, ": ", state_desc(), " => ", desc()), detail());
    }

    /// like fail(), with the complete case text supplied by the caller
    void fail_case(char const* prop, char const* subject, std::string const& cls, DescRef full_case, DescRef detail)
    {
        std::string const s = std::string("basic_inplace_string::") + subject;
        if (seen(prop, s, cls)) { return; }
        r.violation(prop, s, cls, cat(config, ": ", full_case()), detail());
    }

    static bool content_equal(S const& v, M const& mm)
    {
        if (v.size() != mm.size()) { return false; }
        for (std::size_t i = 0; i < mm.size(); ++i) {
            if (v.data()[i] != mm[i]) { return false; }
        }
        return true;
    }

    bool invariants(char const* subject, std::string const& cls, DescRef desc, S const& v, char const* who)
    {
        if (v.size() > N) {
            fail("C04", subject, cls, desc, [&] { return cat(who, ": size() = ", v.size(), " > capacity() = ", N); });
            return false;
        }
        if (v.data()[v.size()] != Char(0)) {
            fail("C04", subject, cls, desc, [&] {
                return cat(who, ": no terminator: data()[size()=", v.size(), "] = ", long(static_cast<std::make_unsigned_t<Char>>(v.data()[v.size()])));
            });
            return false;
        }
        if (v.c_str() != v.data() || v.capacity() != N || v.max_size() != N || v.empty() != (v.size() == 0) || v.full() != (v.size() == N)
            || v.length() != v.size() || std::size_t(v.end() - v.begin()) != v.size()) {
            fail("C04", subject, cls, desc, [&] { return cat(who, ": c_str()/capacity()/max_size()/empty()/full()/length()/end() inconsistent"); });
            return false;
        }
        return true;
    }

    bool same(char const* subject, std::string const& cls, DescRef desc, S const& v, M const& mm, char const* who)
    {
        if (!invariants(subject, cls, desc, v, who)) { return false; }
        if (!content_equal(v, mm)) {
            fail("C04", subject, cls, desc, [&] {
                return cat(who, ": tetl=", mc::show_chars(v.data(), v.data() + v.size()), " (size ", v.size(), ") std=", show(mm), " (size ", mm.size(), ")");
            });
            return false;
        }
        return true;
    }

    /// One case.  Returns true when the call was valid, fitted and agreed (the box then holds the successor state
    /// and `m` the successor model).
    template <typename Op>
    bool run(char const* subject, char const* cls, unsigned flags, DescRef desc, Op const& op)
    {
        return run2(subject, cls, flags, desc, FnRef<long(M&)>(op), FnRef<long(S&)>(op));
    }
    bool run2(char const* subject, char const* cls, unsigned flags, DescRef desc, FnRef<long(M&)> opm, FnRef<long(S&)> ops)
    {
        if (damaged) { return false; }
        subj = subject;
        last = Last::invalid;
        ++evals;
        m.assign(snap_m.data(), snap_m.size());
        long rm = 0;
        try {
            rm = opm(m);
        } catch (std::exception const&) {
            ++skipped;
            return false;
        }
        bool const fits = m.size() <= N;
        if (!fits && ((flags & CL) == 0 || !allow_clamp)) {
            ++skipped;
            return false;
        }
        box.load(snap.get());
        auto const san0 = mc::san_hits();
        long const ri   = ops(*box.v);
        if (!box.intact()) {
            damaged = true;
            fail("C02", subject, "canary", desc, [&] { return std::string("the call wrote outside the string object"); });
            r.not_exhaustive("a call wrote outside the string object; the job stops here");
            return false;
        }
        if (mc::san_hits() != san0) {
            fail("C02", subject, "sanitizer-report", desc, [&] { return std::string("ASan/UBSan reported during this valid call (see job log)"); });
        }
        if (!fits) {
            ++clamped;
            last = invariants(subject, "clamps", desc, *box.v, "after a clamping call") ? Last::clamped : Last::failed;
            return false;
        }
        ++valid;
        bool ok = true;
        if (ri != rm) {
            fail("C04", subject, cls, desc, [&] { return cat("returned value (position/count; -77 = reference is not *this): tetl=", ri, " std=", rm); });
            ok = false;
        }
        ok   = same(subject, cls, desc, *box.v, m, "after the call") && ok;
        last = ok ? Last::agreed : Last::failed;
        return ok;
    }

    /// a const query: f(t) -> long (positions: npos = -1; bool: 0/1; compare(): the sign)
    template <typename F>
    void query(char const* subject, char const* cls, DescRef desc, F const& f)
    {
        query2(subject, cls, desc, FnRef<long(M const&)>(f), FnRef<long(S const&)>(f));
    }
    void query2(char const* subject, char const* cls, DescRef desc, FnRef<long(M const&)> fm, FnRef<long(S const&)> fs)
    {
        if (damaged) { return; }
        subj = subject;
        ++evals;
        ++valid;
        long const want = fm(static_cast<M const&>(snap_m));
        auto const san0 = mc::san_hits();
        long const got  = fs(static_cast<S const&>(*box.v));
        if (got != want) {
            fail("C04", subject, cls, desc, [&] { return cat("tetl=", got, " std=", want, " (positions: -1 = npos; compare: sign)"); });
        }
        if (mc::san_hits() != san0) {
            fail("C02", subject, "sanitizer-report", desc, [&] { return std::string("ASan/UBSan reported during this valid call (see job log)"); });
        }
    }
    /// before a series of query() calls: the box holds the committed state
    void restore() { box.load(snap.get()); }

    /// runs a batch inside a guard; a trap is attributed to the call that was running
    template <typename F>
    void guarded(F f)
    {
        if (damaged) { return; }
        mc::Trap const t = mc::guarded(f);
        if (t == mc::Trap::none) { return; }
        bool const contract = (t == mc::Trap::assert_fired || t == mc::Trap::exception_raised);
        std::string const s = std::string("basic_inplace_string::") + subj;
        r.violation(contract ? "C05" : "C02", s, contract ? "handler-on-valid-call" : mc::trap_name(t), cat(config, ": ", state_desc(), " => ", subj), mc::describe_trap(t));
        if (!contract) {
            damaged = true;
            r.not_exhaustive("a call raised a fatal signal or did not return; the job stops here");
        }
    }

    void finish()
    {
        r.count("evaluations", evals);
        r.count("distinct_nontrivial", valid);
        r.count("valid_calls", valid);
        r.count("clamping_calls", clamped);
        r.count("tuples_not_valid_skipped", skipped);
        r.count("configurations", 1);
        r.note(cat(config, ": evaluations=", evals, " valid=", valid, " clamping=", clamped, " skipped(not valid)=", skipped));
    }
};

// one mutating case: the call expression is written once and compiled for the tetl string and for the model
//   T = the string type of this side, V = its string_view type
#define OP(subject, cls, flags, descexpr, ...)                                                                      \
    L.run(subject, cls, flags, [&] { return c04::cat descexpr; }, [&](auto& t) -> long {                            \
        using T = std::remove_reference_t<decltype(t)>;                                                             \
        using V = c04::view_t<T>;                                                                                   \
        (void)sizeof(V);                                                                                            \
        (void)sizeof(T);                                                                                            \
        __VA_ARGS__                                                                                                 \
    })

// results of const members as long
inline long pos(std::size_t p) { return p == NPOS ? -1L : long(p); }
inline long sgn(int c) { return long(sign(c)); }
inline long yes(bool b) { return b ? 1L : 0L; }

} // namespace c04
