// C04 round 2, direction 2: character types and custom Traits.
//
// (A) wide-units sweep: for wchar_t / char8_t / char16_t / char32_t (and plain char) every comparison and search
//     overload of etl::basic_inplace_string is evaluated for ALL haystacks of length <= 4 and ALL needles of length
//     <= 2 over an alphabet of code units chosen so that a short-cut shows: units that share their low byte / low
//     half with another letter (truncation), units whose little-endian byte order and value order disagree
//     (memcmp), the traits' eof() value, the largest value, and for wchar_t (signed here) negative values.
//     Haystack AND needle range over the same alphabet, so every search has matching and non-matching cases.
// (B) custom Traits: the same sweep for basic_inplace_string<char, N, ci_traits> against
//     std::basic_string<char, ci_traits> (case-insensitive eq/lt/compare/find, the textbook example) and for
//     basic_inplace_string<char16_t, N, rev_traits> (reversed order): every comparison and every search has to go
//     through Traits ([string.view.find]: "traits::eq(at(xpos + I), str.at(I))", compare: traits::compare).
//     Plus the mutating members once each (they must compile and agree with a custom Traits).
//
// Left to the main harness and skipped here: rfind(str) / rfind(cstr) with the defaulted pos (known finding
// default_pos).  API gaps as there: no rfind(ptr,pos,count), no string_view overloads of find/rfind/..., no
// defaulted pos for find_first_not_of(cstr).
#include "c04_r2.hpp"

#include <cwchar>
#include <ios>

namespace c04_traits {
using namespace c04;

// ---------------------------------------------------------------------------------------------------------
// Stand-alone traits classes (not derived from std::char_traits: etl::erase/erase_if call begin()/end() unqualified,
// and a Traits argument with std as associated namespace makes that call ambiguous with std::begin - an ADL
// accident outside this property, noted in the report).
template <typename C, typename I>
struct traits_base {
    using char_type  = C;
    using int_type   = I;
    using off_type   = std::streamoff;
    using pos_type   = std::streampos;
    using state_type = std::mbstate_t;
    static constexpr void assign(C& a, C const& b) noexcept { a = b; }
    static constexpr std::size_t length(C const* s) noexcept
    {
        std::size_t n = 0;
        while (s[n] != C(0)) { ++n; }
        return n;
    }
    static constexpr C* move(C* d, C const* s, std::size_t n) noexcept
    {
        if (d < s) {
            for (std::size_t i = 0; i < n; ++i) { d[i] = s[i]; }
        } else {
            for (std::size_t i = n; i > 0; --i) { d[i - 1] = s[i - 1]; }
        }
        return d;
    }
    static constexpr C* copy(C* d, C const* s, std::size_t n) noexcept
    {
        for (std::size_t i = 0; i < n; ++i) { d[i] = s[i]; }
        return d;
    }
    static constexpr C* assign(C* d, std::size_t n, C c) noexcept
    {
        for (std::size_t i = 0; i < n; ++i) { d[i] = c; }
        return d;
    }
    static constexpr C to_char_type(I i) noexcept { return static_cast<C>(i); }
    static constexpr I to_int_type(C c) noexcept { return static_cast<I>(static_cast<std::make_unsigned_t<C>>(c)); }
    static constexpr bool eq_int_type(I a, I b) noexcept { return a == b; }
    static constexpr I eof() noexcept { return static_cast<I>(-1); }
    static constexpr I not_eof(I i) noexcept { return i == eof() ? I(0) : i; }
};

struct ci_traits : traits_base<char, int> {
    static constexpr char up(char c) noexcept { return (c >= 'a' && c <= 'z') ? static_cast<char>(c - 'a' + 'A') : c; }
    static constexpr bool eq(char a, char b) noexcept { return up(a) == up(b); }
    static constexpr bool lt(char a, char b) noexcept { return static_cast<unsigned char>(up(a)) < static_cast<unsigned char>(up(b)); }
    static constexpr int compare(char const* a, char const* b, std::size_t n) noexcept
    {
        for (std::size_t i = 0; i < n; ++i) {
            if (lt(a[i], b[i])) { return -1; }
            if (lt(b[i], a[i])) { return 1; }
        }
        return 0;
    }
    static constexpr char const* find(char const* s, std::size_t n, char const& c) noexcept
    {
        for (std::size_t i = 0; i < n; ++i) {
            if (eq(s[i], c)) { return s + i; }
        }
        return nullptr;
    }
};

// reversed order, exact equality
struct rev_traits : traits_base<char16_t, std::uint_least32_t> {
    static constexpr bool eq(char16_t a, char16_t b) noexcept { return a == b; }
    static constexpr bool lt(char16_t a, char16_t b) noexcept { return b < a; }
    static constexpr int compare(char16_t const* a, char16_t const* b, std::size_t n) noexcept
    {
        for (std::size_t i = 0; i < n; ++i) {
            if (lt(a[i], b[i])) { return -1; }
            if (lt(b[i], a[i])) { return 1; }
        }
        return 0;
    }
    static constexpr char16_t const* find(char16_t const* s, std::size_t n, char16_t const& c) noexcept
    {
        for (std::size_t i = 0; i < n; ++i) {
            if (eq(s[i], c)) { return s + i; }
        }
        return nullptr;
    }
};

template <typename Tr>
char const* tname()
{
    if constexpr (std::is_same_v<Tr, ci_traits>) { return ",ci_traits"; }
    if constexpr (std::is_same_v<Tr, rev_traits>) { return ",rev_traits"; }
    return "";
}

template <typename Char>
std::vector<Char> alphabet(bool custom_traits)
{
    auto c = [](unsigned long v) { return static_cast<Char>(v); };
    if (custom_traits) {
        if constexpr (sizeof(Char) == 1) {
            return {c('a'), c('A'), c('b'), c('B'), c('1')};
        } else {
            return {c('a'), c('b'), c(0x0161), c(0xFFFF), c('A')};
        }
    }
    if constexpr (std::is_same_v<Char, char>) {
        return {c('a'), c(0xE1), c(0x80), c(0xFF), c(0x7F)};
    } else if constexpr (std::is_same_v<Char, char8_t>) {
        return {c('a'), c(0xE1), c(0x80), c(0xFF), c(0x7F)};
    } else if constexpr (std::is_same_v<Char, char16_t>) {
        // 0x0161: low byte of 'a'; 0x6100: bytes of 'a' swapped (memcmp order != value order); 0xFFFF: eof(); 0x0100
        return {c('a'), c(0x0161), c(0x6100), c(0xFFFF), c(0x0100)};
    } else if constexpr (std::is_same_v<Char, char32_t>) {
        return {c('a'), c(0x00010061), c(0x61000000), c(0xFFFFFFFF), c(0x0100)};
    } else {
        // wchar_t (32 bit, signed on this target): -1 == WEOF, a negative unit with the low byte of 'a', the largest value
        return {c('a'), c(0x0161), c(0xFFFFFFFFul), c(0x80000061ul), c(0x7FFFFFFF)};
    }
}

template <typename Char>
std::vector<std::basic_string<Char>> all_strings(std::vector<Char> const& alpha, std::size_t maxLen)
{
    std::vector<std::basic_string<Char>> all{{}};
    std::size_t lo = 0;
    for (std::size_t len = 1; len <= maxLen; ++len) {
        std::size_t const hi = all.size();
        for (std::size_t i = lo; i < hi; ++i) {
            for (Char ch : alpha) {
                auto s = all[i];
                s.push_back(ch);
                all.push_back(s);
            }
        }
        lo = hi;
    }
    return all;
}

template <typename Char>
struct Needle {
    std::basic_string<Char> s;
    mc::GuardedBlock<Char> blk; // exact size, not terminated
    mc::GuardedBlock<Char> z;   // terminated
    explicit Needle(std::basic_string<Char> const& x) : s(x), blk(x.size()), z(x.size() + 1)
    {
        std::copy(x.begin(), x.end(), blk.data());
        std::copy(x.begin(), x.end(), z.data());
        z.data()[x.size()] = Char(0);
    }
    Char const* p() const { return blk.data(); }
    Char const* c() const { return z.data(); }
};

template <typename T, typename X>
bool has(T const& t, X const& x)
{
    if constexpr (requires { t.contains(x); }) {
        return t.contains(x);
    } else {
        return t.find(x) != NPOS;
    }
}

template <typename S, typename M>
void const_sweep(Lock<S, M>& L, std::size_t s, Needle<typename S::value_type> const& nd, bool other_form)
{
    using Char             = typename S::value_type;
    std::size_t const pl   = nd.s.size();
    Char const* const np   = nd.p();
    Char const* const nz   = nd.c();
    Char const ch          = pl > 0 ? nd.s[0] : Char(0);
    std::string base;
    auto flag = [&](bool on, char const* f) {
        if (on) { base += cat(base.empty() ? "" : "+", f); }
    };
    if (other_form) {
        base = "traits_equivalent_units";
    } else {
        flag(s == 0, "hay_empty");
        flag(pl == 0, "needle_empty");
        flag(pl > s, "needle_longer");
    }
    std::string const gen = base.empty() ? std::string("general") : base;
    auto poscls           = [&](std::size_t ps) {
        if (other_form) { return gen; } // one class per overload for "the comparison has to go through Traits"
        char const* k = ps == NPOS ? "pos_npos" : (ps > s ? "pos_gt_size" : (ps == s ? "pos_eq_size" : ""));
        if (*k == 0) { return gen; }
        return base.empty() ? std::string(k) : cat(base, "+", k);
    };
    std::string cls = gen;
    auto nds        = [&] { return cat("needle=", show(nd.s)); };
    auto q          = [&](char const* subject, DescRef desc, auto const& f) { L.query(subject, cls.c_str(), desc, f); };

#define STR(t) std::remove_cvref_t<decltype(t)> const o(np, pl)
#define VIEW(t) view_t<decltype(t)>(np, pl)

    // ---- whole-string comparisons
    q("compare(str)", nds, [&](auto const& t) { STR(t); return sgn(t.compare(o)); });
    q("compare(cstr)", nds, [&](auto const& t) { return sgn(t.compare(nz)); });
    q("compare(sv)", nds, [&](auto const& t) { return sgn(t.compare(VIEW(t))); });
    q("operator==(str,str)", nds, [&](auto const& t) { STR(t); return yes(t == o); });
    q("operator!=(str,str)", nds, [&](auto const& t) { STR(t); return yes(t != o); });
    q("operator<(str,str)", nds, [&](auto const& t) { STR(t); return yes(t < o); });
    q("operator<=(str,str)", nds, [&](auto const& t) { STR(t); return yes(t <= o); });
    q("operator>(str,str)", nds, [&](auto const& t) { STR(t); return yes(t > o); });
    q("operator>=(str,str)", nds, [&](auto const& t) { STR(t); return yes(t >= o); });
    q("operator==(str,cstr)", nds, [&](auto const& t) { return yes(t == nz); });
    q("operator!=(str,cstr)", nds, [&](auto const& t) { return yes(t != nz); });
    q("operator<(str,cstr)", nds, [&](auto const& t) { return yes(t < nz); });
    q("operator<=(str,cstr)", nds, [&](auto const& t) { return yes(t <= nz); });
    q("operator>(str,cstr)", nds, [&](auto const& t) { return yes(t > nz); });
    q("operator>=(str,cstr)", nds, [&](auto const& t) { return yes(t >= nz); });
    q("operator==(cstr,str)", nds, [&](auto const& t) { return yes(nz == t); });
    q("operator!=(cstr,str)", nds, [&](auto const& t) { return yes(nz != t); });
    q("operator<(cstr,str)", nds, [&](auto const& t) { return yes(nz < t); });
    q("operator<=(cstr,str)", nds, [&](auto const& t) { return yes(nz <= t); });
    q("operator>(cstr,str)", nds, [&](auto const& t) { return yes(nz > t); });
    q("operator>=(cstr,str)", nds, [&](auto const& t) { return yes(nz >= t); });
    // ---- prefixes / suffixes / contains
    q("starts_with(sv)", nds, [&](auto const& t) { return yes(t.starts_with(VIEW(t))); });
    q("ends_with(sv)", nds, [&](auto const& t) { return yes(t.ends_with(VIEW(t))); });
    q("contains(sv)", nds, [&](auto const& t) { return yes(has(t, VIEW(t))); });
    q("starts_with(cstr)", nds, [&](auto const& t) { return yes(t.starts_with(nz)); });
    q("ends_with(cstr)", nds, [&](auto const& t) { return yes(t.ends_with(nz)); });
    q("contains(cstr)", nds, [&](auto const& t) { return yes(has(t, nz)); });
    if (pl == 1) {
        q("starts_with(ch)", nds, [&](auto const& t) { return yes(t.starts_with(ch)); });
        q("ends_with(ch)", nds, [&](auto const& t) { return yes(t.ends_with(ch)); });
        q("contains(ch)", nds, [&](auto const& t) { return yes(has(t, ch)); });
    }
    // ---- defaulted pos
    cls = other_form ? gen : std::string("default_pos");
    q("find(str)", nds, [&](auto const& t) { STR(t); return pos(t.find(o)); });
    q("find_first_of(str)", nds, [&](auto const& t) { STR(t); return pos(t.find_first_of(o)); });
    q("find_first_not_of(str)", nds, [&](auto const& t) { STR(t); return pos(t.find_first_not_of(o)); });
    q("find_last_of(str)", nds, [&](auto const& t) { STR(t); return pos(t.find_last_of(o)); });
    q("find_last_not_of(str)", nds, [&](auto const& t) { STR(t); return pos(t.find_last_not_of(o)); });
    q("find(cstr)", nds, [&](auto const& t) { return pos(t.find(nz)); });
    q("find_first_of(cstr)", nds, [&](auto const& t) { return pos(t.find_first_of(nz)); });
    q("find_last_of(cstr)", nds, [&](auto const& t) { return pos(t.find_last_of(nz)); });
    q("find_last_not_of(cstr)", nds, [&](auto const& t) { return pos(t.find_last_not_of(nz)); });
    q("find_first_of(sv)", nds, [&](auto const& t) { return pos(t.find_first_of(VIEW(t))); });
    if (pl == 1) {
        q("find(ch)", nds, [&](auto const& t) { return pos(t.find(ch)); });
        q("rfind(ch)", nds, [&](auto const& t) { return pos(t.rfind(ch)); });
        q("find_first_of(ch)", nds, [&](auto const& t) { return pos(t.find_first_of(ch)); });
        q("find_first_not_of(ch)", nds, [&](auto const& t) { return pos(t.find_first_not_of(ch)); });
        q("find_last_of(ch)", nds, [&](auto const& t) { return pos(t.find_last_of(ch)); });
        q("find_last_not_of(ch)", nds, [&](auto const& t) { return pos(t.find_last_not_of(ch)); });
    }
    // ---- explicit pos: 0..size()+1 and npos
    for (std::size_t k = 0; k <= s + 2; ++k) {
        std::size_t const ps = k == s + 2 ? NPOS : k;
        cls                  = poscls(ps);
        auto dp              = [&] { return cat("needle=", show(nd.s), " pos=", shz(ps)); };
        q("find(str,pos)", dp, [&](auto const& t) { STR(t); return pos(t.find(o, ps)); });
        q("rfind(str,pos)", dp, [&](auto const& t) { STR(t); return pos(t.rfind(o, ps)); });
        q("find_first_of(str,pos)", dp, [&](auto const& t) { STR(t); return pos(t.find_first_of(o, ps)); });
        q("find_first_not_of(str,pos)", dp, [&](auto const& t) { STR(t); return pos(t.find_first_not_of(o, ps)); });
        q("find_last_of(str,pos)", dp, [&](auto const& t) { STR(t); return pos(t.find_last_of(o, ps)); });
        q("find_last_not_of(str,pos)", dp, [&](auto const& t) { STR(t); return pos(t.find_last_not_of(o, ps)); });
        q("find(cstr,pos)", dp, [&](auto const& t) { return pos(t.find(nz, ps)); });
        q("rfind(cstr,pos)", dp, [&](auto const& t) { return pos(t.rfind(nz, ps)); });
        q("find_first_of(cstr,pos)", dp, [&](auto const& t) { return pos(t.find_first_of(nz, ps)); });
        q("find_first_not_of(cstr,pos)", dp, [&](auto const& t) { return pos(t.find_first_not_of(nz, ps)); });
        q("find_last_of(cstr,pos)", dp, [&](auto const& t) { return pos(t.find_last_of(nz, ps)); });
        q("find_last_not_of(cstr,pos)", dp, [&](auto const& t) { return pos(t.find_last_not_of(nz, ps)); });
        q("find_first_of(sv,pos)", dp, [&](auto const& t) { return pos(t.find_first_of(VIEW(t), ps)); });
        if (pl == 1) {
            q("find(ch,pos)", dp, [&](auto const& t) { return pos(t.find(ch, ps)); });
            q("rfind(ch,pos)", dp, [&](auto const& t) { return pos(t.rfind(ch, ps)); });
            q("find_first_of(ch,pos)", dp, [&](auto const& t) { return pos(t.find_first_of(ch, ps)); });
            q("find_first_not_of(ch,pos)", dp, [&](auto const& t) { return pos(t.find_first_not_of(ch, ps)); });
            q("find_last_of(ch,pos)", dp, [&](auto const& t) { return pos(t.find_last_of(ch, ps)); });
            q("find_last_not_of(ch,pos)", dp, [&](auto const& t) { return pos(t.find_last_not_of(ch, ps)); });
        }
        for (std::size_t cnt = 0; cnt <= pl; ++cnt) {
            auto dc = [&] { return cat("needle=", show(nd.s), " pos=", shz(ps), " count=", cnt); };
            q("find(ptr,pos,count)", dc, [&](auto const& t) { return pos(t.find(np, ps, cnt)); });
            q("find_first_of(ptr,pos,count)", dc, [&](auto const& t) { return pos(t.find_first_of(np, ps, cnt)); });
            q("find_first_not_of(ptr,pos,count)", dc, [&](auto const& t) { return pos(t.find_first_not_of(np, ps, cnt)); });
            q("find_last_of(ptr,pos,count)", dc, [&](auto const& t) { return pos(t.find_last_of(np, ps, cnt)); });
            q("find_last_not_of(ptr,pos,count)", dc, [&](auto const& t) { return pos(t.find_last_not_of(np, ps, cnt)); });
        }
    }
    // ---- compare with sub-ranges: pos1 <= size()
    for (std::size_t p1 = 0; p1 <= s; ++p1) {
        for (std::size_t c1 : {std::size_t(0), std::size_t(1), s - p1, s - p1 + 1, NPOS}) {
            cls     = other_form ? gen : std::string(c1 > s - p1 ? "count1_gt_rest" : "counts_in_range");
            auto d1 = [&] { return cat("needle=", show(nd.s), " pos1=", p1, " count1=", shz(c1)); };
            q("compare(pos,count,str)", d1, [&](auto const& t) { STR(t); return sgn(t.compare(p1, c1, o)); });
            q("compare(pos,count,cstr)", d1, [&](auto const& t) { return sgn(t.compare(p1, c1, nz)); });
            q("compare(pos,count,sv)", d1, [&](auto const& t) { return sgn(t.compare(p1, c1, VIEW(t))); });
            for (std::size_t c2 = 0; c2 <= pl; ++c2) {
                auto d2 = [&] { return cat("needle=", show(nd.s), " pos1=", p1, " count1=", shz(c1), " count2=", c2); };
                q("compare(pos,count,ptr,count2)", d2, [&](auto const& t) { return sgn(t.compare(p1, c1, np, c2)); });
            }
            for (std::size_t p2 = 0; p2 <= pl; ++p2) {
                auto d3 = [&] { return cat("needle=", show(nd.s), " pos1=", p1, " count1=", shz(c1), " pos2=", p2); };
                q("compare(pos,count,str,pos2)", d3, [&](auto const& t) { STR(t); return sgn(t.compare(p1, c1, o, p2)); });
                q("compare(pos,count,sv,pos2)", d3, [&](auto const& t) { return sgn(t.compare(p1, c1, VIEW(t), p2)); });
                for (std::size_t c2 : {std::size_t(0), std::size_t(1), pl - p2 + 1, NPOS}) {
                    auto d4 = [&] { return cat("needle=", show(nd.s), " pos1=", p1, " count1=", shz(c1), " pos2=", p2, " count2=", shz(c2)); };
                    q("compare(pos,count,str,pos2,count2)", d4, [&](auto const& t) { STR(t); return sgn(t.compare(p1, c1, o, p2, c2)); });
                    q("compare(pos,count,sv,pos2,count2)", d4, [&](auto const& t) { return sgn(t.compare(p1, c1, VIEW(t), p2, c2)); });
                }
            }
        }
    }
#undef STR
#undef VIEW
}

// the mutating members once each with a custom Traits (content does not depend on Traits; they have to compile and agree)
template <typename S, typename M>
void mutators(Lock<S, M>& L, std::size_t s, Needle<typename S::value_type> const& nd)
{
    using Char           = typename S::value_type;
    using diff           = std::ptrdiff_t;
    std::size_t const pl = nd.s.size();
    Char const* const np = nd.p();
    Char const* const nz = nd.c();
    Char const ch        = pl > 0 ? nd.s[0] : Char('q');
    auto ns              = [&] { return show(nd.s); };
    char const* const g  = "custom_traits";
    OP("basic_inplace_string(ptr,len)", g, PRE, ("T(", ns(), ")"), t = T(np, pl); return 0;);
    OP("basic_inplace_string(sv)", g, PRE, ("T(sv ", ns(), ")"), t = T(V(np, pl)); return 0;);
    OP("operator=(cstr)", g, PRE, ("t = ", ns()), return self(t, t = nz););
    OP("assign(sv)", g, PRE, ("t.assign(sv ", ns(), ")"), return self(t, t.assign(V(np, pl))););
    OP("append(str)", g, CL, ("t.append(str ", ns(), ")"), T const o(np, pl); return self(t, t.append(o)););
    OP("append(ptr,count)", g, CL, ("t.append(", ns(), ", ", pl, ")"), return self(t, t.append(np, pl)););
    OP("operator+=(sv)", g, CL, ("t += sv ", ns()), return self(t, t += V(np, pl)););
    OP("operator+=(ch)", g, CL, ("t += ", showc(ch)), return self(t, t += ch););
    OP("push_back", g, PRE, ("t.push_back(", showc(ch), ")"), t.push_back(ch); return 0;);
    OP("operator+(str,str)", g, CL, ("t = t + str ", ns()), T const o(np, pl); t = t + o; return 0;);
    OP("operator+(cstr,str)", g, CL, ("t = ", ns(), " + t"), t = nz + t; return 0;);
    OP("resize(count,ch)", g, CL, ("t.resize(", s + 1, ", ", showc(ch), ")"), t.resize(s + 1, ch); return 0;);
    OP("etl::erase(str,ch)", g, PRE, ("erase(t, ", showc(ch), ")"), if constexpr (requires { etl::erase(t, ch); }) { return long(etl::erase(t, ch)); } else { return long(std::erase(t, ch)); });
    OP("swap(other)", g, PRE, ("t.swap(o = ", ns(), ")"), T o(np, pl); t.swap(o); return long(o.size()););
    OP("substr(pos,count)", g, PRE, ("t = t.substr(1, 2)"), t = t.substr(1, 2); return 0;);
    for (std::size_t i = 0; i <= s; ++i) {
        OP("insert(index,str)", g, CL, ("t.insert(", i, ", str ", ns(), ")"), T const o(np, pl); return self(t, t.insert(i, o)););
        OP("insert(index,sv)", g, CL, ("t.insert(", i, ", sv ", ns(), ")"), return self(t, t.insert(i, V(np, pl))););
        OP("insert(index,count,ch)", g, CL, ("t.insert(", i, ", 2, ", showc(ch), ")"), return self(t, t.insert(i, 2, ch)););
        OP("erase(index,count)", g, PRE, ("t.erase(", i, ", 1)"), return self(t, t.erase(i, 1)););
        if (i < s) {
            OP("erase(pos)", g, PRE, ("t.erase(begin+", i, ")"), auto it = t.erase(t.begin() + diff(i)); return long(it - t.begin()););
        }
        if (i + pl <= s) {
            OP("replace(pos,count,ptr,count2)", "custom_traits+same_length", PRE, ("t.replace(", i, ", ", pl, ", ", ns(), ", ", pl, ")"), return self(t, t.replace(i, pl, np, pl)););
            OP("replace(first,last,str)", "custom_traits+same_length", PRE, ("t.replace(begin+", i, ", begin+", i + pl, ", str ", ns(), ")"),
                T const o(np, pl); return self(t, t.replace(t.begin() + diff(i), t.begin() + diff(i + pl), o)););
        }
    }
}

template <typename Char, std::size_t N, typename Tr, bool Custom>
void traits_job(mc::Reporter& r, std::size_t maxHay, std::size_t maxNeedle)
{
    using S = etl::basic_inplace_string<Char, N, Tr>;
    using M = std::basic_string<Char, std::conditional_t<Custom, Tr, std::char_traits<Char>>>;
    Lock<S, M> L(r, cat("basic_inplace_string<", cname<Char>(), ",", N, tname<Tr>(), ">"));
    auto const alpha = alphabet<Char>(Custom);
    {
        std::string a;
        for (Char c : alpha) { a += cat(a.empty() ? "" : " ", showc(c)); }
        r.note(cat(L.config, ": alphabet {", a, "}, haystacks <= ", maxHay, ", needles <= ", maxNeedle));
    }
    auto const hays_c = all_strings<Char>(alpha, std::min(maxHay, N));
    std::vector<std::unique_ptr<Needle<Char>>> needles;
    for (auto const& x : all_strings<Char>(alpha, std::min(maxNeedle, N))) { needles.push_back(std::make_unique<Needle<Char>>(x)); }
    for (auto const& hc : hays_c) {
        if (r.deadline_passed()) {
            r.not_exhaustive("deadline");
            break;
        }
        M const h(hc.data(), hc.size());
        L.guarded([&] {
            L.subj = "<state construction>";
            L.box.make(0xAA, h.data(), h.size());
        });
        if (!L.content_equal(L.obj(), h)) { continue; }
        L.commit(h, [h] { return cat("t(", show(h), ")"); });
        if (r.wants_sample()) { r.sample(cat(L.config, ": ", L.state_desc(), " => every comparison/search overload, every needle")); }
        for (auto const& nd : needles) {
            // "other form": with a custom Traits, some unit of the needle is equivalent but not identical to a unit of the haystack
            bool other = false;
            if constexpr (Custom) {
                for (Char a : h) {
                    for (Char b : nd->s) {
                        if (a != b && Tr::eq(a, b)) { other = true; }
                    }
                }
            }
            L.restore();
            L.guarded([&] { const_sweep(L, h.size(), *nd, other); });
            if constexpr (Custom) {
                if (h.size() <= 3) {
                    L.guarded([&] { mutators(L, h.size(), *nd); });
                }
            }
        }
    }
    L.finish();
}

template <typename Char, std::size_t N, typename Tr = etl::char_traits<Char>, bool Custom = false>
void add(mc::Main& m, std::vector<std::string> tiers, std::size_t maxHay = 4, std::size_t maxNeedle = 2)
{
    m.job(cat(Custom ? "traits/" : "units/", cname<Char>(), "/", N, tname<Tr>()), tiers, [=](mc::Reporter& r) { traits_job<Char, N, Tr, Custom>(r, maxHay, maxNeedle); });
}

// Part is a template parameter: only the configurations of the requested part are instantiated
template <int Part>
void register_jobs(mc::Main& m)
{
    std::vector<std::string> const both{"quick", "thorough"};
    std::vector<std::string> const th{"thorough"};
    if constexpr (Part == 0) {
        add<char, 5, ci_traits, true>(m, both);
        add<char16_t, 5>(m, both);
        add<wchar_t, 4>(m, both, 3, 2);
        add<char, 4>(m, both, 3, 2);
    }
    if constexpr (Part == 1) {
        add<char, 16, ci_traits, true>(m, th, 5, 2);
        add<char16_t, 16, rev_traits, true>(m, th, 5, 2);
        add<char16_t, 4, rev_traits, true>(m, th);
    }
    if constexpr (Part == 2) {
        add<wchar_t, 16>(m, th, 5, 2);
        add<char32_t, 4>(m, th);
        add<char32_t, 16>(m, th, 4, 3);
    }
    if constexpr (Part == 3) {
        add<char8_t, 4>(m, th);
        add<char, 5>(m, th, 5, 2);
        add<char8_t, 16>(m, th, 5, 2);
        add<char, 16>(m, th, 4, 3);
        add<char16_t, 17>(m, th, 4, 3);
    }
}

} // namespace c04_traits

#if !defined(C04_COMBINED)
int main(int argc, char** argv)
{
    mc::Main m(argc, argv);
    #if !defined(MC_PART)
        #define MC_PART 0
    #endif
    c04_traits::register_jobs<MC_PART>(m);
    return m.run();
}
#endif
