// C19 round 2, mdspan half: does etl::mdspan forward to WHATEVER mapping and accessor it is
// given (and not assume layout_right / default_accessor)?  For every extents type E (same
// generation as c19_mdspan.cpp) and every assignment of the dynamic extents:
//   off_accessor<T>     reference T&, pointer handle, run-time state k: access(p,i) = p[i+k].
//                       mdspan<int,E,right|left,off_accessor<int>>(ptr, mapping, off_accessor{3}):
//                       element address == ptr + 3 + closed-form offset; accessor().k survives
//                       construction, copy, move and the converting constructor to
//                       mdspan<int const, ..., off_accessor<int const>>.
//   scale_accessor      data_handle_type is a struct (pointer + tag), reference is a VALUE
//                       (long): s(i...) == p[offset]*scale + tag.
//   layout_odd          custom mapping written here: offset = 2*rowmajor(i...)+1, required span
//                       size 2*size(), unique, neither exhaustive nor strided; every mdspan
//                       constructor form; combined with off_accessor.
//   const element type  mdspan<int const,E,right|left|stride> built directly from int const*.
//   conversions         mdspan<int,E,L> -> mdspan<int const,dextents<other index>,L>,
//                       -> mdspan<int,E with the other index type,L>, copy, move,
//                       layout_right -> layout_left at rank <= 1.
//   rank 2              mdspan over layout_transpose<layout_stride> and over the double
//                       transposes layout_transpose<layout_transpose<left|right>>.
// On EVERY in-range multi-index: operator()(i...), operator[](array), operator[](span) refer to
// ptr + reference offset, inside the exact-size block; size(), empty(), extent(r), stride(r)
// (strided layouts), is_unique/is_exhaustive/is_strided forwarded from the mapping.
//
// Compiled per (MC_ITYPE index type, MC_SLICE part of the extents-type list), see main().
#include "c19_common.hpp"

#include <etl/linalg.hpp>

#include <algorithm>

using namespace c19;

#ifndef MC_ITYPE
    #define MC_ITYPE 1
#endif
#ifndef MC_SLICE
    #define MC_SLICE 0
#endif

namespace {

#if MC_ITYPE == 1
using PartIndex = int;
#elif MC_ITYPE == 2
using PartIndex = unsigned long;
#elif MC_ITYPE == 3
using PartIndex = signed char;
#elif MC_ITYPE == 6
using PartIndex = unsigned short;
#endif

using A5 = alpha<2, 3, DC, 1, 0>;
using A3 = alpha<2, 3, DC>;

// ---------------------------------------------------------------------------------------
// the custom policies
// ---------------------------------------------------------------------------------------
template <typename T>
struct off_accessor {
    using offset_policy    = off_accessor;
    using element_type     = T;
    using reference        = T&;
    using data_handle_type = T*;
    std::size_t k{0};
    constexpr off_accessor() noexcept = default;
    constexpr explicit off_accessor(std::size_t kk) noexcept : k(kk) {}
    template <typename U>
        requires(std::is_convertible_v<U (*)[], T (*)[]>)
    constexpr off_accessor(off_accessor<U> const& o) noexcept : k(o.k)
    {
    }
    [[nodiscard]] constexpr auto access(data_handle_type p, std::size_t i) const noexcept -> reference { return p[i + k]; }
    [[nodiscard]] constexpr auto offset(data_handle_type p, std::size_t i) const noexcept -> data_handle_type { return p + i + k; }
};

struct handle {
    int const* p{nullptr};
    int tag{0};
};
struct scale_accessor {
    using offset_policy    = scale_accessor;
    using element_type     = int const;
    using reference        = long;
    using data_handle_type = handle;
    int scale{1};
    [[nodiscard]] constexpr auto access(handle h, std::size_t i) const noexcept -> long { return static_cast<long>(h.p[i]) * scale + h.tag; }
    [[nodiscard]] constexpr auto offset(handle h, std::size_t i) const noexcept -> handle { return {h.p + i, h.tag}; }
};

struct layout_odd {
    template <typename Extents>
    struct mapping {
        using extents_type = Extents;
        using index_type   = typename Extents::index_type;
        using size_type    = typename Extents::size_type;
        using rank_type    = typename Extents::rank_type;
        using layout_type  = layout_odd;

        constexpr mapping() noexcept = default;
        constexpr mapping(Extents const& e) noexcept : _e(e) {}
        template <typename Other>
            requires(std::is_constructible_v<Extents, Other>)
        constexpr explicit(!std::is_convertible_v<Other, Extents>) mapping(mapping<Other> const& o) noexcept : _e(o.extents())
        {
        }
        [[nodiscard]] constexpr auto extents() const noexcept -> Extents const& { return _e; }
        [[nodiscard]] constexpr auto required_span_size() const noexcept -> index_type
        {
            std::size_t n = 1;
            for (std::size_t r = 0; r < Extents::rank(); ++r) { n *= static_cast<std::size_t>(_e.extent(r)); }
            return static_cast<index_type>(2 * n);
        }
        template <typename... Is>
            requires(sizeof...(Is) == Extents::rank())
        [[nodiscard]] constexpr auto operator()(Is... is) const noexcept -> index_type
        {
            std::size_t const idx[sizeof...(Is) + 1] = {static_cast<std::size_t>(is)..., 0};
            std::size_t o = 0;
            for (std::size_t r = 0; r < Extents::rank(); ++r) { o = o * static_cast<std::size_t>(_e.extent(r)) + idx[r]; }
            return static_cast<index_type>(2 * o + 1);
        }
        [[nodiscard]] static constexpr auto is_always_unique() noexcept -> bool { return true; }
        [[nodiscard]] static constexpr auto is_always_exhaustive() noexcept -> bool { return false; }
        [[nodiscard]] static constexpr auto is_always_strided() noexcept -> bool { return false; }
        [[nodiscard]] constexpr auto is_unique() const noexcept -> bool { return true; }
        [[nodiscard]] constexpr auto is_exhaustive() const noexcept -> bool { return false; }
        [[nodiscard]] constexpr auto is_strided() const noexcept -> bool { return false; }

    private:
        Extents _e{};
    };
};

// ---------------------------------------------------------------------------------------
// observation
// ---------------------------------------------------------------------------------------
struct Indices {
    std::size_t rank{0};
    std::size_t n{0};
    std::vector<ll> flat;
};

struct MdObs {
    ll handle_off{0};
    std::size_t rank{0}, rank_dynamic{0};
    ll ext[MAXR]{};
    ll size{0};
    int empty{-1};
    ll map_span{-1};
    bool has_stride{false};
    ll stride[MAXR]{};
    std::vector<ll> off[3];
    int is_unique{-1}, is_exhaustive{-1}, is_strided{-1}, always_unique{-1}, always_exhaustive{-1}, always_strided{-1};
    ll acc_state{-1}; // state of accessor() (k / scale), -1: stateless
    ll extra_ok{-1};  // maker-specific check (e.g. source mdspan unchanged)
    char const* volatile phase{"construction"};
};
char const* const form_name[3] = {"operator()(indices...)", "operator[](array)", "operator[](span)"};

template <typename T, typename MD, std::size_t... Is>
decltype(auto) at_call(MD const& s, ll const* idx, std::index_sequence<Is...> /*q*/)
{
    return s(static_cast<T>(idx[Is])...);
}

/// which optional observers the mapping provides
struct Caps {
    bool span_size;  // mapping().required_span_size()
    bool stride;     // stride(r)
    bool exhaustive; // is_exhaustive()/is_always_exhaustive()
};
inline constexpr Caps caps_lr{true, true, true}, caps_stride{false, true, false}, caps_odd{true, false, true}, caps_tr{true, true, false}, caps_tr_stride{false, true, false};

/// Dec: turns the result of an element access into the element offset relative to the block
template <Caps C, typename MD, typename Dec>
[[gnu::noinline]] void observe_md(MD const& s, Indices const& ix, Dec dec, MdObs& o)
{
    using E          = typename MD::extents_type;
    using I          = typename E::index_type;
    using J          = other_t<I>;
    constexpr auto R = E::rank();
    auto const seq   = std::make_index_sequence<R>{};
    o.rank           = MD::rank();
    o.rank_dynamic   = MD::rank_dynamic();
    for (std::size_t r = 0; r < R; ++r) { o.ext[r] = static_cast<ll>(s.extent(r)); }
    o.phase = "size()";
    o.size  = static_cast<ll>(s.size());
    o.empty = s.empty();
    if constexpr (C.span_size) {
        o.phase    = "mapping()";
        o.map_span = static_cast<ll>(s.mapping().required_span_size());
    }
    for (auto& v : o.off) { v.reserve(ix.n); }
    for (std::size_t k = 0; k < ix.n; ++k) {
        ll const* idx = ix.flat.data() + k * R;
        o.phase       = form_name[0];
        o.off[0].push_back(dec(at_call<I>(s, idx, seq)));
        o.phase       = form_name[1];
        auto const aj = to_etl_array<J, R>(idx);
        o.off[1].push_back(dec(s[aj]));
        o.phase = form_name[2];
        auto ai = to_etl_array<I, R>(idx);
        o.off[2].push_back(dec(s[etl::span<I, R>(ai)]));
    }
    if constexpr (C.stride && R > 0) {
        o.phase      = "stride(r)";
        o.has_stride = true;
        for (std::size_t r = 0; r < R; ++r) { o.stride[r] = static_cast<ll>(s.stride(r)); }
    }
    o.phase          = "is_unique()/is_strided()";
    o.is_unique      = s.is_unique();
    o.is_strided     = s.is_strided();
    o.always_unique  = MD::is_always_unique();
    o.always_strided = MD::is_always_strided();
    if constexpr (C.exhaustive) {
        o.is_exhaustive     = s.is_exhaustive();
        o.always_exhaustive = MD::is_always_exhaustive();
    }
    o.phase = "construction";
}

struct Expect {
    std::vector<ll> ext;
    std::vector<ll> strides; // reference offset = add + mul * sum(idx*strides)
    ll mul{1}, add{0};
    ll span{0};              // elements of the block the offsets must stay inside
    ll map_span{-1};         // expected mapping().required_span_size() (-1: not observed)
    int strided{1}, exhaustive{1};
    ll acc_state{-1};
};

void verify_md(Ctx& c, MdObs const& o, Indices const& ix, Expect const& x, TypeInfo const& ti)
{
    std::size_t const R = x.ext.size();
    bool ok = c.eq("data_handle()-ptr", o.handle_off, 0LL);
    ok      = c.eq("extent(r) for all r", show(std::vector<ll>(o.ext, o.ext + R)), show(x.ext)) && ok;
    if (x.acc_state != -1) { ok = c.eq("accessor() state", o.acc_state, x.acc_state) && ok; }
    if (o.extra_ok != -1) { ok = c.eq("source mdspan still refers to the same elements", o.extra_ok, 1LL) && ok; }
    if (!ok) { return; }
    c.eq_o("rank()", o.rank, R);
    c.eq_o("rank_dynamic()", o.rank_dynamic, ti.rank_dynamic);
    c.eq_o("size()", o.size, product(x.ext));
    c.eq_o("empty()", o.empty, int(product(x.ext) == 0));
    if (x.map_span != -1) { c.eq_o("mapping()", cat("required_span_size ", o.map_span), cat("required_span_size ", x.map_span)); }
    for (int f = 0; f < 3; ++f) {
        std::vector<unsigned char> hit(static_cast<std::size_t>(x.span), 0);
        bool reported = false;
        for (std::size_t k = 0; k < ix.n && k < o.off[f].size(); ++k) {
            ll ref = 0;
            for (std::size_t r = 0; r < R; ++r) { ref += ix.flat[k * R + r] * x.strides[r]; }
            ref          = x.add + x.mul * ref;
            ll const got = o.off[f][k];
            ++c.evals;
            bool const inside = got >= 0 && got < x.span;
            if (got != ref || !inside) {
                if (!reported) {
                    std::vector<ll> const idx(ix.flat.begin() + static_cast<std::ptrdiff_t>(k * R), ix.flat.begin() + static_cast<std::ptrdiff_t>((k + 1) * R));
                    c.fail_o(form_name[f], cat("index ", show(idx), ": element offset tetl=", got, " reference=", ref, inside ? " (inside" : " (OUTSIDE", " the block of ", x.span, " elements)"));
                    reported = true;
                }
                continue;
            }
            if (hit[static_cast<std::size_t>(got)]++ && !reported) {
                c.fail_o(form_name[f], cat("two indices refer to the same element (offset ", got, ")"));
                reported = true;
            }
        }
        if (o.off[f].size() != ix.n) { c.fail_o(form_name[f], cat("observed ", o.off[f].size(), " of ", ix.n, " indices")); }
    }
    if (o.has_stride) { c.eq_o("stride(r)", show(std::vector<ll>(o.stride, o.stride + R)), show(x.strides)); }
    c.eq_o("is_unique()", o.is_unique, 1);
    c.eq_o("is_strided()", o.is_strided, x.strided);
    c.eq_o("is_always_unique()", o.always_unique, 1);
    c.eq_o("is_always_strided()", o.always_strided, x.strided);
    if (o.is_exhaustive != -1) { c.eq_o("is_exhaustive()", o.is_exhaustive, x.exhaustive); }
    if (o.always_exhaustive != -1) { c.eq_o("is_always_exhaustive()", o.always_exhaustive, x.exhaustive); }
    c.r.outcome(mc::hash_str(cat(show(x.ext), show(x.strides), x.mul, x.add, show(o.off[0]))));
}

/// p = block, a = dynamic extents of E, w = all extents, s = strides (strided makers)
using MdFn = void (*)(int* p, ll const* a, ll const* w, ll const* s, Indices const& ix, MdObs& o);

void run_md(Ctx& c, MdFn fn, mc::GuardedBlock<int>& blk, ll const* a, ll const* w, ll const* s, Indices const& ix, Expect const& x, TypeInfo const& ti)
{
    MdObs o;
    auto const t = mc::guarded([&] { fn(blk.data(), a, w, s, ix, o); });
    if (t == mc::Trap::none) {
        verify_md(c, o, ix, x, ti);
    } else {
        c.trap_o(t, o.phase);
    }
    if (!blk.intact()) { c.c02("wrote outside the element block"); }
    c.san_check();
}

template <typename E>
E make_ext(ll const* dv)
{
    return E(to_etl_array<typename E::index_type, E::rank_dynamic()>(dv));
}
template <typename MD, typename P, typename T, std::size_t... Is>
MD md_pack(P p, ll const* v, std::index_sequence<Is...> /*q*/)
{
    return MD(p, static_cast<T>(v[Is])...);
}
template <typename E>
struct other_index;
template <typename I, std::size_t... Es>
struct other_index<etl::extents<I, Es...>> {
    using type = etl::extents<other_t<I>, Es...>;
};

constexpr std::size_t K = 3; // offset added by off_accessor in the stateful cases

// ---- off_accessor --------------------------------------------------------------------------
/// constructor (7) with state k = 3, then copy and move
template <typename L, typename E>
void mk_off7(int* p, ll const* a, ll const* /*w*/, ll const* /*s*/, Indices const& ix, MdObs& o)
{
    using MD = etl::mdspan<int, E, L, off_accessor<int>>;
    typename L::template mapping<E> const m(make_ext<E>(a));
    MD const s(p, m, off_accessor<int>{K});
    MD const copy(s);
    MD moved(MD{copy});
    o.handle_off = moved.data_handle() - p;
    o.acc_state  = static_cast<ll>(moved.accessor().k);
    observe_md<caps_lr>(moved, ix, [base = p + K](int& r) { return static_cast<ll>(&r - base); }, o);
}
/// constructors (2)..(6) default-construct the accessor (k = 0)
template <typename L, typename E>
void mk_off_default(int* p, ll const* a, ll const* /*w*/, ll const* /*s*/, Indices const& ix, MdObs& o)
{
    using MD = etl::mdspan<int, E, L, off_accessor<int>>;
    MD const s(p, make_ext<E>(a));
    o.handle_off = s.data_handle() - p;
    o.acc_state  = static_cast<ll>(s.accessor().k);
    observe_md<caps_lr>(s, ix, [base = p](int& r) { return static_cast<ll>(&r - base); }, o);
}
/// converting constructor: element int -> int const, extents dextents<J> -> E, accessor converted (state carried over)
template <typename L, typename E>
void mk_off_conv(int* p, ll const* /*a*/, ll const* w, ll const* /*s*/, Indices const& ix, MdObs& o)
{
    using J  = other_t<typename E::index_type>;
    using DE = etl::dextents<J, E::rank()>;
    etl::mdspan<int, DE, L, off_accessor<int>> const src(p, typename L::template mapping<DE>(make_ext<DE>(w)), off_accessor<int>{K});
    etl::mdspan<int const, E, L, off_accessor<int const>> const s(src);
    o.handle_off = s.data_handle() - p;
    o.acc_state  = static_cast<ll>(s.accessor().k);
    observe_md<caps_lr>(s, ix, [base = static_cast<int const*>(p) + K](int const& r) { return static_cast<ll>(&r - base); }, o);
}
// ---- scale_accessor ---------------------------------------------------------------------------
template <typename L, typename E>
void mk_scale(int* p, ll const* a, ll const* /*w*/, ll const* /*s*/, Indices const& ix, MdObs& o)
{
    using MD = etl::mdspan<int const, E, L, scale_accessor>;
    typename L::template mapping<E> const m(make_ext<E>(a));
    MD const s(handle{p, 100000}, m, scale_accessor{2});
    MD const copy(s);
    o.handle_off = (copy.data_handle().p - p) + (copy.data_handle().tag - 100000);
    o.acc_state  = copy.accessor().scale;
    static_assert(std::is_same_v<typename MD::reference, long>);
    // block content is 1000 + slot: value = (1000 + slot) * 2 + 100000
    observe_md<caps_lr>(copy, ix, [](long v) { return static_cast<ll>((v - 100000) % 2 == 0 ? (v - 100000) / 2 - 1000 : -1); }, o);
}
// ---- layout_odd --------------------------------------------------------------------------------
template <typename E, int Form>
void mk_odd(int* p, ll const* a, ll const* w, ll const* /*s*/, Indices const& ix, MdObs& o)
{
    using I  = typename E::index_type;
    using J  = other_t<I>;
    using MD = etl::mdspan<int, E, layout_odd>;
    auto dec = [base = p](int& r) { return static_cast<ll>(&r - base); };
    auto run = [&](MD const& s) {
        o.handle_off = s.data_handle() - p;
        observe_md<caps_odd>(s, ix, dec, o);
    };
    if constexpr (Form == 0) {
        run(md_pack<MD, int*, I>(p, a, std::make_index_sequence<E::rank_dynamic()>{}));
    } else if constexpr (Form == 1) {
        run(md_pack<MD, int*, J>(p, w, std::make_index_sequence<E::rank()>{}));
    } else if constexpr (Form == 2) {
        auto const arr = to_etl_array<J, E::rank_dynamic()>(a);
        run(MD(p, arr));
    } else if constexpr (Form == 3) {
        auto arr = to_etl_array<I, E::rank()>(w);
        run(MD(p, etl::span<I, E::rank()>(arr)));
    } else if constexpr (Form == 4) {
        run(MD(p, make_ext<E>(a)));
    } else if constexpr (Form == 5) {
        run(MD(p, layout_odd::mapping<E>(make_ext<E>(a))));
    } else {
        MD const s(p, layout_odd::mapping<E>(make_ext<E>(a)), etl::default_accessor<int>{});
        MD const copy(s);
        MD moved(MD{copy});
        run(moved);
        o.extra_ok = (s.data_handle() == p) && (s.extents() == moved.extents()) && (copy.extents() == moved.extents());
    }
}
/// custom layout + custom accessor through the converting constructor
template <typename E>
void mk_odd_off_conv(int* p, ll const* /*a*/, ll const* w, ll const* /*s*/, Indices const& ix, MdObs& o)
{
    using J  = other_t<typename E::index_type>;
    using DE = etl::dextents<J, E::rank()>;
    etl::mdspan<int, DE, layout_odd, off_accessor<int>> const src(p, layout_odd::mapping<DE>(make_ext<DE>(w)), off_accessor<int>{K});
    etl::mdspan<int const, E, layout_odd, off_accessor<int const>> const s(src);
    o.handle_off = s.data_handle() - p;
    o.acc_state  = static_cast<ll>(s.accessor().k);
    observe_md<caps_odd>(s, ix, [base = static_cast<int const*>(p) + K](int const& r) { return static_cast<ll>(&r - base); }, o);
}
// ---- const element type, built directly ----------------------------------------------------------
template <typename L, typename E, int Form>
void mk_const(int* p, ll const* a, ll const* /*w*/, ll const* /*s*/, Indices const& ix, MdObs& o)
{
    using I  = typename E::index_type;
    using MD = etl::mdspan<int const, E, L>;
    int const* cp = p;
    auto dec      = [cp](int const& r) { return static_cast<ll>(&r - cp); };
    static_assert(std::is_same_v<typename MD::reference, int const&>);
    if constexpr (Form == 0) {
        MD const s = md_pack<MD, int const*, I>(cp, a, std::make_index_sequence<E::rank_dynamic()>{});
        o.handle_off = s.data_handle() - cp;
        observe_md<caps_lr>(s, ix, dec, o);
    } else if constexpr (Form == 1) {
        MD const s(cp, make_ext<E>(a));
        o.handle_off = s.data_handle() - cp;
        observe_md<caps_lr>(s, ix, dec, o);
    } else {
        MD const s(cp, typename L::template mapping<E>(make_ext<E>(a)));
        MD const copy(s);
        o.handle_off = copy.data_handle() - cp;
        observe_md<caps_lr>(copy, ix, dec, o);
    }
}
template <typename E>
void mk_const_stride(int* p, ll const* a, ll const* /*w*/, ll const* st, Indices const& ix, MdObs& o)
{
    using I       = typename E::index_type;
    int const* cp = p;
    etl::layout_stride::mapping<E> const m(make_ext<E>(a), to_etl_array<I, E::rank()>(st));
    etl::mdspan<int const, E, etl::layout_stride> const s(cp, m);
    o.handle_off = s.data_handle() - cp;
    observe_md<caps_stride>(s, ix, [cp](int const& r) { return static_cast<ll>(&r - cp); }, o);
}
// ---- conversions between compatible mdspans --------------------------------------------------------
/// mdspan<int,E,L> -> mdspan<int const,dextents<J,R>,L> (implicit: static -> dynamic, int -> int const)
template <typename L, typename E>
void mk_to_dext(int* p, ll const* a, ll const* /*w*/, ll const* /*s*/, Indices const& ix, MdObs& o)
{
    using J  = other_t<typename E::index_type>;
    using DE = etl::dextents<J, E::rank()>;
    etl::mdspan<int, E, L> const src(p, make_ext<E>(a));
    etl::mdspan<int const, DE, L> const s(src);
    o.handle_off = s.data_handle() - p;
    o.extra_ok   = (src.data_handle() == p) && (src.extents() == s.extents());
    observe_md<caps_lr>(s, ix, [cp = static_cast<int const*>(p)](int const& r) { return static_cast<ll>(&r - cp); }, o);
}
/// mdspan<int,E,L> -> mdspan<int,E',L>, E' = same pattern, other index type
template <typename L, typename E>
void mk_to_other_index(int* p, ll const* a, ll const* /*w*/, ll const* /*s*/, Indices const& ix, MdObs& o)
{
    using EO = typename other_index<E>::type;
    etl::mdspan<int, E, L> const src(p, make_ext<E>(a));
    etl::mdspan<int, EO, L> const s(src);
    o.handle_off = s.data_handle() - p;
    o.extra_ok   = (src.data_handle() == p) && (src.extents() == s.extents());
    observe_md<caps_lr>(s, ix, [p](int& r) { return static_cast<ll>(&r - p); }, o);
}
/// rank <= 1: mdspan<int,E,layout_right> -> mdspan<int,E,layout_left> and back
template <typename LTo, typename LFrom, typename E>
void mk_cross_layout(int* p, ll const* a, ll const* /*w*/, ll const* /*s*/, Indices const& ix, MdObs& o)
{
    etl::mdspan<int, E, LFrom> const src(p, make_ext<E>(a));
    etl::mdspan<int, E, LTo> const s(src);
    o.handle_off = s.data_handle() - p;
    observe_md<caps_lr>(s, ix, [p](int& r) { return static_cast<ll>(&r - p); }, o);
}
// ---- rank 2: transposes ---------------------------------------------------------------------------
namespace lin = etl::linalg;
template <typename E>
using transposed_t = lin::detail::transpose_extents_t<E>;
template <typename NE>
NE transposed_ext(ll const* w)
{
    ll nd[2]{};
    std::size_t n = 0;
    if (NE::static_extent(0) == dyn) { nd[n++] = w[1]; }
    if (NE::static_extent(1) == dyn) { nd[n++] = w[0]; }
    return make_ext<NE>(nd);
}
template <typename E>
void mk_tr_stride(int* p, ll const* /*a*/, ll const* w, ll const* st, Indices const& ix, MdObs& o)
{
    using I  = typename E::index_type;
    using NE = transposed_t<E>;
    using LT = lin::layout_transpose<etl::layout_stride>;
    etl::layout_stride::mapping<NE> const nested(transposed_ext<NE>(w), etl::array<I, 2>{static_cast<I>(st[1]), static_cast<I>(st[0])});
    typename LT::template mapping<E> const m(nested);
    etl::mdspan<int, E, LT> const s(p, m);
    etl::mdspan<int, E, LT> const copy(s);
    o.handle_off = copy.data_handle() - p;
    observe_md<caps_tr_stride>(copy, ix, [p](int& r) { return static_cast<ll>(&r - p); }, o);
}
template <typename L, typename E>
void mk_tr_tr(int* p, ll const* a, ll const* /*w*/, ll const* /*s*/, Indices const& ix, MdObs& o)
{
    using NE = transposed_t<E>;
    using T1 = lin::layout_transpose<L>;
    using T2 = lin::layout_transpose<T1>;
    typename L::template mapping<E> const base(make_ext<E>(a));
    typename T1::template mapping<NE> const t1(base);
    typename T2::template mapping<E> const t2(t1);
    etl::mdspan<int, E, T2> const s(p, t2);
    o.handle_off = s.data_handle() - p;
    observe_md<caps_tr>(s, ix, [p](int& r) { return static_cast<ll>(&r - p); }, o);
}

// ---------------------------------------------------------------------------------------
struct Fns {
    // per layout (0 right, 1 left)
    MdFn off7[2], off_default[2], off_conv[2], scale[2], cnst[2][3], to_dext[2], to_other[2];
    MdFn odd[7], odd_off_conv;
    MdFn const_stride;
    MdFn cross[2];  // rank <= 1: left from right, right from left
    MdFn tr_stride; // rank 2
    MdFn tr_tr[2];  // rank 2: over left, over right
};
template <typename L, typename E>
constexpr void fill_side(Fns& f, int side)
{
    f.off7[side]        = &mk_off7<L, E>;
    f.off_default[side] = &mk_off_default<L, E>;
    f.off_conv[side]    = &mk_off_conv<L, E>;
    f.scale[side]       = &mk_scale<L, E>;
    f.cnst[side][0]     = &mk_const<L, E, 0>;
    f.cnst[side][1]     = &mk_const<L, E, 1>;
    f.cnst[side][2]     = &mk_const<L, E, 2>;
    f.to_dext[side]     = &mk_to_dext<L, E>;
    f.to_other[side]    = &mk_to_other_index<L, E>;
}
template <typename E>
constexpr Fns make_fns()
{
    Fns f{};
    fill_side<etl::layout_right, E>(f, 0);
    fill_side<etl::layout_left, E>(f, 1);
    f.odd[0] = &mk_odd<E, 0>;
    f.odd[2] = &mk_odd<E, 2>;
    if constexpr (E::rank() != E::rank_dynamic()) {
        f.odd[1] = &mk_odd<E, 1>;
        f.odd[3] = &mk_odd<E, 3>;
    }
    f.odd[4]       = &mk_odd<E, 4>;
    f.odd[5]       = &mk_odd<E, 5>;
    f.odd[6]       = &mk_odd<E, 6>;
    f.odd_off_conv = &mk_odd_off_conv<E>;
    if constexpr (E::rank() >= 1) { f.const_stride = &mk_const_stride<E>; }
    if constexpr (E::rank() <= 1) {
        f.cross[0] = &mk_cross_layout<etl::layout_left, etl::layout_right, E>;
        f.cross[1] = &mk_cross_layout<etl::layout_right, etl::layout_left, E>;
    }
    if constexpr (E::rank() == 2) {
        f.tr_stride = &mk_tr_stride<E>;
        f.tr_tr[0]  = &mk_tr_tr<etl::layout_left, E>;
        f.tr_tr[1]  = &mk_tr_tr<etl::layout_right, E>;
    }
    return f;
}
template <typename E>
inline constexpr Fns fns_of = make_fns<E>();

Indices make_indices(std::vector<ll> const& e)
{
    Indices ix;
    ix.rank        = e.size();
    auto const all = all_indices(e);
    ix.n           = all.size();
    for (auto const& v : all) { ix.flat.insert(ix.flat.end(), v.begin(), v.end()); }
    return ix;
}

/// strides: every nesting order x padding {0,1}
std::vector<std::vector<ll>> stride_sets(std::vector<ll> const& e)
{
    std::vector<std::vector<ll>> out;
    std::size_t const R = e.size();
    std::vector<std::size_t> perm(R);
    for (std::size_t i = 0; i < R; ++i) { perm[i] = i; }
    do {
        for (ll pad : {0LL, 1LL}) {
            std::vector<ll> s(R, 0);
            ll cur = 1;
            for (std::size_t k = 0; k < R; ++k) {
                s[perm[k]] = cur;
                cur        = cur * std::max<ll>(e[perm[k]], 1) + pad;
            }
            if (std::find(out.begin(), out.end(), s) == out.end()) { out.push_back(s); }
        }
    } while (std::next_permutation(perm.begin(), perm.end()));
    return out;
}

struct Limits {
    ull index_max, other_max;
};

struct Buffer {
    mc::GuardedBlock<int> blk;
    explicit Buffer(ll n) : blk(static_cast<std::size_t>(n))
    {
        for (ll i = 0; i < n; ++i) { blk.data()[i] = 1000 + static_cast<int>(i); }
    }
};

void run_case(Ctx& c, TypeInfo const& ti, Fns const& f, Limits lim, ll maxDyn)
{
    auto const st        = ti.statics();
    std::string const en = ti.name();
    std::string const pc = pattern_class(st);
    std::size_t const R  = ti.rank;
    char const* const lname[2] = {"layout_right", "layout_left"};

    std::vector<ll> dv(ti.rank_dynamic, 0);
    do {
        auto const e        = full_extents(st, dv);
        auto const ix       = make_indices(e);
        bool const has_zero = std::find(e.begin(), e.end(), 0) != e.end();
        std::string const zc = R == 0 ? "rank0" : (has_zero ? "zero_extent" : "general");
        c.ocls               = zc;
        ll const prod        = product(e);
        // the largest value any case below needs: 2*prod (layout_odd), prod + K elements
        ull need = static_cast<ull>(2 * prod + static_cast<ll>(K));
        for (auto v : strides_left(e)) { need = std::max(need, static_cast<ull>(v)); } // with a zero extent stride(r) is still the product of the others
        for (auto v : strides_right(e)) { need = std::max(need, static_cast<ull>(v)); }
        if (need > lim.index_max || need > lim.other_max) {
            ++c.skipped;
            continue;
        }
        ll const nt = (ix.n > 1);
        // ---- off_accessor, scale_accessor, const element, conversions: block of prod (+K) elements
        {
            Buffer buf(prod + static_cast<ll>(K));
            Buffer exact(prod);
            for (int side = 0; side < 2; ++side) {
                Expect x;
                x.ext      = e;
                x.strides  = side == 0 ? strides_right(e) : strides_left(e);
                x.span     = prod;
                x.map_span = prod;
                // off_accessor
                c.base      = cat("mdspan<", lname[side], ",off_accessor>");
                x.acc_state = static_cast<ll>(K);
                c.at("mdspan::mdspan(ptr,mapping,accessor)+copy/move [custom accessor]", zc,
                    cat("mdspan<int,", en, ",", lname[side], ",off_accessor<int>>(ptr, mapping, off_accessor{3}); copied and moved; extents ", show(e)));
                run_md(c, f.off7[side], buf.blk, dv.data(), e.data(), nullptr, ix, x, ti);
                c.at("mdspan::mdspan(mdspan<OtherElement,OtherExtents,...>) [custom accessor]", "dynamic_to_static",
                    cat("mdspan<int const,", en, ",", lname[side], ",off_accessor<int const>>(mdspan<int,dextents<other index>,", lname[side], ",off_accessor<int>>{k=3}) extents ", show(e)));
                run_md(c, f.off_conv[side], buf.blk, dv.data(), e.data(), nullptr, ix, x, ti);
                x.acc_state = 0;
                c.at("mdspan::mdspan(ptr,extents) [custom accessor]", zc, cat("mdspan<int,", en, ",", lname[side], ",off_accessor<int>>(ptr, extents): accessor default-constructed; extents ", show(e)));
                run_md(c, f.off_default[side], exact.blk, dv.data(), e.data(), nullptr, ix, x, ti);
                // scale_accessor
                c.base      = cat("mdspan<", lname[side], ",scale_accessor>");
                x.acc_state = 2;
                c.at("mdspan::mdspan(handle,mapping,accessor) [value-returning accessor, struct handle]", zc,
                    cat("mdspan<int const,", en, ",", lname[side], ",scale_accessor>(handle{ptr,100000}, mapping, scale_accessor{2}); copied; extents ", show(e)));
                run_md(c, f.scale[side], exact.blk, dv.data(), e.data(), nullptr, ix, x, ti);
                x.acc_state = -1;
                // const element
                c.base = cat("mdspan<int const,", lname[side], ">");
                char const* const ch[3] = {"int const*, dynamic extents as pack", "int const*, extents", "int const*, mapping; copied"};
                char const* const cs[3] = {"mdspan::mdspan(ptr,IndexTypes...) [const element]", "mdspan::mdspan(ptr,extents) [const element]", "mdspan::mdspan(ptr,mapping) [const element]"};
                for (int k = 0; k < 3; ++k) {
                    c.at(cs[k], k == 0 ? cat("n_eq_rank_dynamic+", pc) : zc, cat("mdspan<int const,", en, ",", lname[side], ">(", ch[k], ") extents ", show(e)));
                    run_md(c, f.cnst[side][k], exact.blk, dv.data(), e.data(), nullptr, ix, x, ti);
                }
                // conversions
                c.base = cat("mdspan<", lname[side], ">");
                c.at("mdspan::mdspan(mdspan<OtherElement,OtherExtents,...>)", "static_to_dynamic",
                    cat("mdspan<int const,dextents<other index>,", lname[side], ">(mdspan<int,", en, ",", lname[side], ">) extents ", show(e)));
                {
                    TypeInfo td    = ti; // the target is all-dynamic
                    td.rank_dynamic = R;
                    run_md(c, f.to_dext[side], exact.blk, dv.data(), e.data(), nullptr, ix, x, td);
                }
                c.at("mdspan::mdspan(mdspan<OtherElement,OtherExtents,...>)", "same_pattern",
                    cat("mdspan<int,", en, " with the other index type,", lname[side], ">(mdspan<int,", en, ",", lname[side], ">) extents ", show(e)));
                run_md(c, f.to_other[side], exact.blk, dv.data(), e.data(), nullptr, ix, x, ti);
                if (R <= 1) {
                    c.at("mdspan::mdspan(mdspan<...,OtherLayout,...>)", zc, cat("mdspan<int,", en, ",", lname[side], ">(mdspan<int,", en, ",", lname[1 - side], ">) extents ", show(e)));
                    run_md(c, f.cross[side == 0 ? 1 : 0], exact.blk, dv.data(), e.data(), nullptr, ix, x, ti);
                    c.nontrivial += nt;
                }
                c.nontrivial += 9 * nt;
            }
            if (R == 2) {
                for (int over = 0; over < 2; ++over) {
                    char const* const ln = over == 0 ? "layout_left" : "layout_right";
                    Expect x;
                    x.ext        = e;
                    x.strides    = over == 0 ? strides_left(e) : strides_right(e);
                    x.span       = prod;
                    x.map_span   = prod;
                    x.exhaustive = -1;
                    c.base       = cat("mdspan<layout_transpose<layout_transpose<", ln, ">>>");
                    c.at(cat(c.base, "::mdspan(ptr,mapping)"), zc, cat("mdspan<int,", en, ",layout_transpose<layout_transpose<", ln, ">>>(ptr, mapping) extents ", show(e)));
                    run_md(c, f.tr_tr[over], exact.blk, dv.data(), e.data(), nullptr, ix, x, ti);
                    c.nontrivial += nt;
                }
            }
        }
        // ---- layout_odd: block of 2*prod (+K)
        {
            Buffer buf(2 * prod + static_cast<ll>(K));
            Buffer exact(2 * prod);
            Expect x;
            x.ext        = e;
            x.strides    = strides_right(e);
            x.mul        = 2;
            x.add        = 1;
            x.span       = 2 * prod;
            x.map_span   = 2 * prod;
            x.strided    = 0;
            x.exhaustive = 0;
            c.base       = "mdspan<layout_odd>";
            char const* const subj[7] = {"mdspan::mdspan(ptr,IndexTypes...) [custom layout]", "mdspan::mdspan(ptr,IndexTypes...) [custom layout]", "mdspan::mdspan(ptr,array<T,N>) [custom layout]",
                "mdspan::mdspan(ptr,span<T,N>) [custom layout]", "mdspan::mdspan(ptr,extents) [custom layout]", "mdspan::mdspan(ptr,mapping) [custom layout]",
                "mdspan::mdspan(ptr,mapping,accessor)+copy/move [custom layout]"};
            char const* const how[7]  = {"ptr, dynamic extents as pack", "ptr, all extents as pack (other integer type)", "ptr, etl::array of the dynamic extents", "ptr, etl::span of all extents",
                "ptr, extents", "ptr, mapping", "ptr, mapping, accessor; copied and moved"};
            for (int k = 0; k < 7; ++k) {
                if (f.odd[k] == nullptr) { continue; }
                bool const all = (k == 1 || k == 3);
                c.at(subj[k], k <= 3 ? cat(all ? "n_eq_rank" : "n_eq_rank_dynamic", "+", pc) : zc, cat("mdspan<int,", en, ",layout_odd>(", how[k], ") extents ", show(e)));
                run_md(c, f.odd[k], exact.blk, dv.data(), e.data(), nullptr, ix, x, ti);
                c.nontrivial += nt;
            }
            x.acc_state = static_cast<ll>(K);
            c.base      = "mdspan<layout_odd,off_accessor>";
            c.at("mdspan::mdspan(mdspan<OtherElement,OtherExtents,...>) [custom layout and accessor]", "dynamic_to_static",
                cat("mdspan<int const,", en, ",layout_odd,off_accessor<int const>>(mdspan<int,dextents<other index>,layout_odd,off_accessor<int>>{k=3}) extents ", show(e)));
            run_md(c, f.odd_off_conv, buf.blk, dv.data(), e.data(), nullptr, ix, x, ti);
            c.nontrivial += nt;
        }
        // ---- strided: const element over layout_stride, transpose over layout_stride
        if (R >= 1) {
            for (auto const& s : stride_sets(e)) {
                Expect x;
                x.ext        = e;
                x.strides    = s;
                x.span       = span_size(e, s);
                x.exhaustive = -1;
                ull const nd = std::max<ull>(static_cast<ull>(x.span), static_cast<ull>(*std::max_element(s.begin(), s.end())));
                if (nd > lim.index_max || nd > lim.other_max) {
                    ++c.skipped;
                    continue;
                }
                Buffer buf(x.span);
                bool const rowmajor = (s == strides_right(e)), colmajor = (s == strides_left(e));
                std::string const sc = cat(rowmajor ? "row_major" : (colmajor ? "column_major" : "padded_or_permuted"), "+", zc);
                c.base = "mdspan<int const,layout_stride>";
                c.at("mdspan<layout_stride>::mdspan(ptr,mapping) [const element]", sc, cat("mdspan<int const,", en, ",layout_stride>(int const*, mapping(extents", show(dv), ", strides ", show(s), "))"));
                run_md(c, f.const_stride, buf.blk, dv.data(), e.data(), s.data(), ix, x, ti);
                c.nontrivial += nt;
                if (R == 2) {
                    c.base = "mdspan<layout_transpose<layout_stride>>";
                    c.at("mdspan<layout_transpose<layout_stride>>::mdspan(ptr,mapping)", sc,
                        cat("mdspan<int,", en, ",layout_transpose<layout_stride>>(ptr, mapping over layout_stride(transposed extents of ", show(e), ", strides (", s[1], ",", s[0], "))); copied"));
                    run_md(c, f.tr_stride, buf.blk, dv.data(), e.data(), s.data(), ix, x, ti);
                    c.nontrivial += nt;
                }
            }
        }
        if (c.r.wants_sample()) { c.r.sample(cat("mdspan over custom accessors / custom layout / const element / conversions, ", en, " extents ", show(e), ": all ", ix.n, " indices x 3 access forms")); }
    } while (next_values(dv, maxDyn));
    c.r.count("extents_types");
}

template <typename I, typename A, std::size_t R, std::size_t Lo, std::size_t Count>
void job_md2(mc::Reporter& r, ll maxDyn)
{
    Ctx c(r);
    Limits const lim{static_cast<ull>(std::numeric_limits<I>::max()), static_cast<ull>(std::numeric_limits<other_t<I>>::max())};
    for_patterns<I, A, R, Lo, Count>([&]<typename E>() {
        if (r.deadline_passed()) {
            if (r.exhaustive) { r.not_exhaustive("deadline"); }
            return;
        }
        run_case(c, tinfo<E>, fns_of<E>, lim, maxDyn);
    });
    c.flush();
}

} // namespace

int main(int argc, char** argv)
{
    mc::Main m(argc, argv);
    std::vector<std::string> const both{"quick", "thorough"};
    std::vector<std::string> const th{"thorough"};
    using I              = PartIndex;
    std::string const in = iname<I>();
    auto const tiers     = (MC_ITYPE == 1 && MC_SLICE == 0) ? both : th;
#if MC_SLICE == 0
    m.job(cat("mdspan2/", in, "/rank0-2"), tiers, [](mc::Reporter& r) {
        job_md2<I, A5, 0, 0, 1>(r, 4);
        job_md2<I, A5, 1, 0, 5>(r, 4);
        job_md2<I, A5, 2, 0, 25>(r, 4);
    });
#elif MC_SLICE == 1
    m.job(cat("mdspan2/", in, "/rank3"), tiers, [](mc::Reporter& r) { job_md2<I, A3, 3, 0, 27>(r, 4); });
#elif MC_SLICE == 2
    m.job(cat("mdspan2/", in, "/rank4"), tiers, [](mc::Reporter& r) { job_md2<I, alpha<2, DC>, 4, 0, 16>(r, 3); });
#endif
    return m.run();
}
