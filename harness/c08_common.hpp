// C08 round 2: shared machinery of the widening harnesses (c08_menu.cpp, c08_constexpr.cpp).
//
// The complete const menu of basic_string_view is written ONCE as a constexpr function template `menu<V, ...>`
// over the view type V.  It is instantiated for etl::basic_string_view<C, Traits> (run time and, in
// c08_constexpr.cpp, inside constant expressions) and for std::basic_string_view<C, Traits> (the model).  Every call
// announces itself (`at(subject, a, b, c, d)`) and delivers one integer (`val`): a position, a bool, the sign of a
// compare, a size, an offset, a content hash.  The two result sequences are compared element by element.
//
// Only calls the standard gives meaning to are made: pos1/pos2/pos of compare/substr/copy never exceed the size of
// the view they index (std throws there - C05's domain), (ptr,count) arguments point to arrays of exactly `count`
// characters, C-string arguments are terminated arrays without an embedded NUL.
#pragma once
#include "mc.hpp"

#include <etl/string_view.hpp>

#include <array>
#include <cwchar>
#include <ios>
#include <memory>
#include <set>
#include <string>
#include <string_view>
#include <type_traits>
#include <vector>

namespace c08 {

using mc::cat;
using ll = long long;

constexpr std::size_t NPOS  = std::size_t(-1);
constexpr std::size_t NOARG = NPOS - 0x5EED; // "this call has no such argument" (never used as a real pos/count)

inline std::string shz(std::size_t x)
{
    if (x == NOARG) { return "-"; }
    if (x == NPOS) { return "npos"; }
    if (x > NPOS - 64) { return cat("npos-", NPOS - x); }
    if (x == NPOS / 2) { return "SIZE_MAX/2"; }
    if (x == NPOS / 2 + 1) { return "SIZE_MAX/2+1"; }
    return std::to_string(x);
}

template <typename Char>
char const* cname()
{
    if constexpr (std::is_same_v<Char, char>) { return "char"; }
    if constexpr (std::is_same_v<Char, wchar_t>) { return "wchar_t"; }
    if constexpr (std::is_same_v<Char, char8_t>) { return "char8_t"; }
    if constexpr (std::is_same_v<Char, char16_t>) { return "char16_t"; }
    return "char32_t";
}

template <typename Seq>
std::string show(Seq const& s)
{
    return mc::show_chars(s.begin(), s.end());
}

// ---------------------------------------------------------------------------------------------------------------
// custom Traits (stand-alone classes usable with both libraries; copied from harness/c04_traits.cpp)
// ---------------------------------------------------------------------------------------------------------------
template <typename C, typename I>
struct traits_base {
    using char_type  = C;
    using int_type   = I;
    using off_type   = std::streamoff;
    using pos_type   = std::streampos;
    using state_type = std::mbstate_t;
    static constexpr void assign(C& a, C const& b) noexcept { a = b; }
    static constexpr std::size_t length(C const* s) noexcept
    {
        std::size_t n = 0;
        while (s[n] != C(0)) { ++n; }
        return n;
    }
    static constexpr C* move(C* d, C const* s, std::size_t n) noexcept
    {
        if (d < s) {
            for (std::size_t i = 0; i < n; ++i) { d[i] = s[i]; }
        } else {
            for (std::size_t i = n; i > 0; --i) { d[i - 1] = s[i - 1]; }
        }
        return d;
    }
    static constexpr C* copy(C* d, C const* s, std::size_t n) noexcept
    {
        for (std::size_t i = 0; i < n; ++i) { d[i] = s[i]; }
        return d;
    }
    static constexpr C* assign(C* d, std::size_t n, C c) noexcept
    {
        for (std::size_t i = 0; i < n; ++i) { d[i] = c; }
        return d;
    }
    static constexpr C to_char_type(I i) noexcept { return static_cast<C>(i); }
    static constexpr I to_int_type(C c) noexcept { return static_cast<I>(static_cast<std::make_unsigned_t<C>>(c)); }
    static constexpr bool eq_int_type(I a, I b) noexcept { return a == b; }
    static constexpr I eof() noexcept { return static_cast<I>(-1); }
    static constexpr I not_eof(I i) noexcept { return i == eof() ? I(0) : i; }
};

/// case-insensitive (the textbook example): eq/lt/compare/find all fold ASCII letters to upper case
struct ci_traits : traits_base<char, int> {
    static constexpr char up(char c) noexcept { return (c >= 'a' && c <= 'z') ? static_cast<char>(c - 'a' + 'A') : c; }
    static constexpr bool eq(char a, char b) noexcept { return up(a) == up(b); }
    static constexpr bool lt(char a, char b) noexcept { return static_cast<unsigned char>(up(a)) < static_cast<unsigned char>(up(b)); }
    static constexpr int compare(char const* a, char const* b, std::size_t n) noexcept
    {
        for (std::size_t i = 0; i < n; ++i) {
            if (lt(a[i], b[i])) { return -1; }
            if (lt(b[i], a[i])) { return 1; }
        }
        return 0;
    }
    static constexpr char const* find(char const* s, std::size_t n, char const& c) noexcept
    {
        for (std::size_t i = 0; i < n; ++i) {
            if (eq(s[i], c)) { return s + i; }
        }
        return nullptr;
    }
};

/// reversed order, exact equality
struct rev_traits : traits_base<char16_t, std::uint_least32_t> {
    static constexpr bool eq(char16_t a, char16_t b) noexcept { return a == b; }
    static constexpr bool lt(char16_t a, char16_t b) noexcept { return b < a; }
    static constexpr int compare(char16_t const* a, char16_t const* b, std::size_t n) noexcept
    {
        for (std::size_t i = 0; i < n; ++i) {
            if (lt(a[i], b[i])) { return -1; }
            if (lt(b[i], a[i])) { return 1; }
        }
        return 0;
    }
    static constexpr char16_t const* find(char16_t const* s, std::size_t n, char16_t const& c) noexcept
    {
        for (std::size_t i = 0; i < n; ++i) {
            if (eq(s[i], c)) { return s + i; }
        }
        return nullptr;
    }
};

template <typename Tr>
char const* tname()
{
    if constexpr (std::is_same_v<Tr, ci_traits>) { return ",ci_traits"; }
    if constexpr (std::is_same_v<Tr, rev_traits>) { return ",rev_traits"; }
    return "";
}

// ---------------------------------------------------------------------------------------------------------------
// the menu
// ---------------------------------------------------------------------------------------------------------------

enum : unsigned {
    P_SV   = 1u << 0,  // six searches with a view needle: every pos + defaulted pos
    P_PTR  = 1u << 1,  // (ptr,pos,count): every count 0..needle length, each on an array of exactly count characters
    P_CSTR = 1u << 2,  // (cstr,pos) and (cstr)
    P_CH   = 1u << 3,  // (ch,pos) and (ch), starts_with/ends_with/contains(ch)
    P_CMP1 = 1u << 4,  // compare(sv), compare(cstr)
    P_CMPX = 1u << 5,  // compare(pos1,count1,sv) / (..,cstr) / (..,ptr,count2) / (..,sv,pos2,count2)
    P_PRED = 1u << 6,  // starts_with/ends_with/contains with sv and cstr
    P_REL  = 1u << 7,  // ==,!=,<,<=,>,>= for (view,view), (view,convertible), (convertible,view), (view,cstr), (cstr,view)
    P_SUB  = 1u << 8,  // substr, copy, remove_prefix, remove_suffix
    P_ACC  = 1u << 9,  // iterators, reverse iterators, front/back/[]/data, constructors, assignment, swap
    P_NEAR = 1u << 10, // add npos-1, npos-len, SIZE_MAX/2, SIZE_MAX/2+1 to every pos/count list
    P_ALL  = (1u << 11) - 1,
};

/// what tetl provides beyond the common menu (decided on the etl type, used for both sides; gaps are noted, not judged)
template <typename T>
concept has_at_ = requires(T v) { v.at(0); };
template <typename T>
concept has_spaceship_ = requires(T a) { a <=> a; };
inline constexpr bool etl_has_at        = has_at_<etl::string_view>;
inline constexpr bool etl_has_spaceship = has_spaceship_<etl::string_view>;

template <typename V>
struct Args {
    using C = typename V::value_type;
    V h{};                            // haystack
    V n{};                            // needle
    C const* nz{nullptr};             // the needle as a terminated array (nullptr: embedded NUL / null view)
    C const* const* nprefix{nullptr}; // nprefix[c]: array of exactly c characters = first c characters of the needle
    C const* hz{nullptr};             // the haystack as a terminated array (nullptr: embedded NUL / null view)
    C const* singles{nullptr};        // single-character arguments
    std::size_t nsingles{0};
    bool unary{true};                 // also run the calls that do not depend on the needle
    unsigned parts{P_ALL};            // which families of the menu run (a run-time mask: one instantiation per view type)
};

/// a type that is merely convertible to the view
template <typename V>
struct Conv {
    V v;
    constexpr operator V() const noexcept { return v; }
};

constexpr std::size_t positions(bool Near, std::size_t len, std::size_t (&P)[24])
{
    std::size_t n = 0;
    for (std::size_t p = 0; p <= len + 2; ++p) { P[n++] = p; }
    P[n++] = NPOS;
    if (Near) {
        P[n++] = NPOS - 1;
        if (len > 1) { P[n++] = NPOS - len; }
        P[n++] = NPOS / 2;
        P[n++] = NPOS / 2 + 1;
    }
    return n;
}

constexpr ll sgn(ll x) { return (x > 0) - (x < 0); }

template <typename It>
constexpr ll hash_range(It f, It l)
{
    unsigned long long h = 1469598103934665603ULL;
    for (; f != l; ++f) {
        using U = std::make_unsigned_t<std::remove_cvref_t<decltype(*f)>>;
        h       = (h ^ static_cast<unsigned long long>(static_cast<U>(*f))) * 1099511628211ULL;
    }
    return static_cast<ll>(h >> 1);
}

template <typename V, typename X>
constexpr bool contains_(V h, X x)
{
    if constexpr (requires { h.contains(x); }) { return h.contains(x); } else { return h.find(x) != V::npos; }
}

/// exact-size destination for constant evaluation (and for the model side)
struct PlainMem {
    template <typename C>
    struct buf {
        C* p;
        constexpr buf(std::size_t n, C fill) : p(new C[n ? n : 1])
        {
            for (std::size_t i = 0; i < (n ? n : 1); ++i) { p[i] = fill; }
        }
        buf(buf const&)            = delete;
        buf& operator=(buf const&) = delete;
        constexpr ~buf() { delete[] p; }
        constexpr C* data() { return p; }
        constexpr bool intact() const { return true; }
    };
};
/// exact-size destination with canaries / ASan red zones for the tetl side at run time
struct GuardMem {
    template <typename C>
    struct buf {
        mc::GuardedBlock<C> b;
        buf(std::size_t n, C fill) : b(n)
        {
            for (std::size_t i = 0; i < n; ++i) { b.data()[i] = fill; }
        }
        C* data() { return b.data(); }
        bool intact() const { return b.intact(); }
    };
};

#define C08_CALL(subj, a, b, c, d, ...)                                                                                          \
    do {                                                                                                                         \
        s.at(subj, a, b, c, d);                                                                                                  \
        s.val(static_cast<ll>(__VA_ARGS__));                                                                                     \
    } while (0)

template <typename V, typename Mem, typename Sink>
constexpr void menu(Args<V> const& A, Sink& s)
{
    using C          = typename V::value_type;
    constexpr auto X = NOARG;
    V const h        = A.h;
    V const n        = A.n;
    std::size_t const hl = h.size();
    std::size_t const nl = n.size();
    std::size_t P[24]{};
    std::size_t Q[24]{};
    unsigned const Parts = A.parts;
    std::size_t const np = positions((Parts & P_NEAR) != 0, hl, P);
    std::size_t const nq = positions((Parts & P_NEAR) != 0, nl, Q);

    if ((Parts & P_SV) != 0) {
        for (std::size_t i = 0; i < np; ++i) {
            std::size_t const pos = P[i];
            C08_CALL("find(sv,pos)", pos, X, X, X, h.find(n, pos));
            C08_CALL("rfind(sv,pos)", pos, X, X, X, h.rfind(n, pos));
            C08_CALL("find_first_of(sv,pos)", pos, X, X, X, h.find_first_of(n, pos));
            C08_CALL("find_last_of(sv,pos)", pos, X, X, X, h.find_last_of(n, pos));
            C08_CALL("find_first_not_of(sv,pos)", pos, X, X, X, h.find_first_not_of(n, pos));
            C08_CALL("find_last_not_of(sv,pos)", pos, X, X, X, h.find_last_not_of(n, pos));
        }
        C08_CALL("find(sv)", X, X, X, X, h.find(n));
        C08_CALL("rfind(sv)", X, X, X, X, h.rfind(n));
        C08_CALL("find_first_of(sv)", X, X, X, X, h.find_first_of(n));
        C08_CALL("find_last_of(sv)", X, X, X, X, h.find_last_of(n));
        C08_CALL("find_first_not_of(sv)", X, X, X, X, h.find_first_not_of(n));
        C08_CALL("find_last_not_of(sv)", X, X, X, X, h.find_last_not_of(n));
    }
    if ((Parts & P_PTR) != 0) {
        if (A.nprefix != nullptr) {
            for (std::size_t cnt = 0; cnt <= nl; ++cnt) {
                C const* const p = A.nprefix[cnt];
                for (std::size_t i = 0; i < np; ++i) {
                    std::size_t const pos = P[i];
                    C08_CALL("find(ptr,pos,count)", pos, cnt, X, X, h.find(p, pos, cnt));
                    C08_CALL("rfind(ptr,pos,count)", pos, cnt, X, X, h.rfind(p, pos, cnt));
                    C08_CALL("find_first_of(ptr,pos,count)", pos, cnt, X, X, h.find_first_of(p, pos, cnt));
                    C08_CALL("find_last_of(ptr,pos,count)", pos, cnt, X, X, h.find_last_of(p, pos, cnt));
                    C08_CALL("find_first_not_of(ptr,pos,count)", pos, cnt, X, X, h.find_first_not_of(p, pos, cnt));
                    C08_CALL("find_last_not_of(ptr,pos,count)", pos, cnt, X, X, h.find_last_not_of(p, pos, cnt));
                }
            }
        }
    }
    if ((Parts & P_CSTR) != 0) {
        if (A.nz != nullptr) {
            C const* const z = A.nz;
            for (std::size_t i = 0; i < np; ++i) {
                std::size_t const pos = P[i];
                C08_CALL("find(cstr,pos)", pos, X, X, X, h.find(z, pos));
                C08_CALL("rfind(cstr,pos)", pos, X, X, X, h.rfind(z, pos));
                C08_CALL("find_first_of(cstr,pos)", pos, X, X, X, h.find_first_of(z, pos));
                C08_CALL("find_last_of(cstr,pos)", pos, X, X, X, h.find_last_of(z, pos));
                C08_CALL("find_first_not_of(cstr,pos)", pos, X, X, X, h.find_first_not_of(z, pos));
                C08_CALL("find_last_not_of(cstr,pos)", pos, X, X, X, h.find_last_not_of(z, pos));
            }
            C08_CALL("find(cstr)", X, X, X, X, h.find(z));
            C08_CALL("rfind(cstr)", X, X, X, X, h.rfind(z));
            C08_CALL("find_first_of(cstr)", X, X, X, X, h.find_first_of(z));
            C08_CALL("find_last_of(cstr)", X, X, X, X, h.find_last_of(z));
            C08_CALL("find_first_not_of(cstr)", X, X, X, X, h.find_first_not_of(z));
            C08_CALL("find_last_not_of(cstr)", X, X, X, X, h.find_last_not_of(z));
        }
    }
    if ((Parts & P_CH) != 0) {
        if (A.unary) {
            for (std::size_t k = 0; k < A.nsingles; ++k) {
                C const c           = A.singles[k];
                std::size_t const u = static_cast<std::size_t>(static_cast<std::make_unsigned_t<C>>(c));
                for (std::size_t i = 0; i < np; ++i) {
                    std::size_t const pos = P[i];
                    C08_CALL("find(ch,pos)", pos, X, X, u, h.find(c, pos));
                    C08_CALL("rfind(ch,pos)", pos, X, X, u, h.rfind(c, pos));
                    C08_CALL("find_first_of(ch,pos)", pos, X, X, u, h.find_first_of(c, pos));
                    C08_CALL("find_last_of(ch,pos)", pos, X, X, u, h.find_last_of(c, pos));
                    C08_CALL("find_first_not_of(ch,pos)", pos, X, X, u, h.find_first_not_of(c, pos));
                    C08_CALL("find_last_not_of(ch,pos)", pos, X, X, u, h.find_last_not_of(c, pos));
                }
                C08_CALL("find(ch)", X, X, X, u, h.find(c));
                C08_CALL("rfind(ch)", X, X, X, u, h.rfind(c));
                C08_CALL("find_first_of(ch)", X, X, X, u, h.find_first_of(c));
                C08_CALL("find_last_of(ch)", X, X, X, u, h.find_last_of(c));
                C08_CALL("find_first_not_of(ch)", X, X, X, u, h.find_first_not_of(c));
                C08_CALL("find_last_not_of(ch)", X, X, X, u, h.find_last_not_of(c));
                C08_CALL("starts_with(ch)", X, X, X, u, h.starts_with(c));
                C08_CALL("ends_with(ch)", X, X, X, u, h.ends_with(c));
                C08_CALL("contains(ch)", X, X, X, u, contains_(h, c));
            }
        }
    }
    if ((Parts & P_PRED) != 0) {
        C08_CALL("starts_with(sv)", X, X, X, X, h.starts_with(n));
        C08_CALL("ends_with(sv)", X, X, X, X, h.ends_with(n));
        C08_CALL("contains(sv)", X, X, X, X, contains_(h, n));
        if (A.nz != nullptr) {
            C08_CALL("starts_with(cstr)", X, X, X, X, h.starts_with(A.nz));
            C08_CALL("ends_with(cstr)", X, X, X, X, h.ends_with(A.nz));
            C08_CALL("contains(cstr)", X, X, X, X, contains_(h, A.nz));
        }
    }
    if ((Parts & P_CMP1) != 0) {
        C08_CALL("compare(sv)", X, X, X, X, sgn(h.compare(n)));
        if (A.nz != nullptr) { C08_CALL("compare(cstr)", X, X, X, X, sgn(h.compare(A.nz))); }
    }
    if ((Parts & P_CMPX) != 0) {
        for (std::size_t p1 = 0; p1 <= hl; ++p1) {
            for (std::size_t i = 0; i < np; ++i) {
                std::size_t const c1 = P[i];
                C08_CALL("compare(pos1,count1,sv)", p1, c1, X, X, sgn(h.compare(p1, c1, n)));
                if (A.nz != nullptr) { C08_CALL("compare(pos1,count1,cstr)", p1, c1, X, X, sgn(h.compare(p1, c1, A.nz))); }
                if (A.nprefix != nullptr) {
                    for (std::size_t c2 = 0; c2 <= nl; ++c2) {
                        C08_CALL("compare(pos1,count1,ptr,count2)", p1, c1, X, c2, sgn(h.compare(p1, c1, A.nprefix[c2], c2)));
                    }
                }
                for (std::size_t p2 = 0; p2 <= nl; ++p2) {
                    for (std::size_t j = 0; j < nq; ++j) {
                        C08_CALL("compare(pos1,count1,sv,pos2,count2)", p1, c1, p2, Q[j], sgn(h.compare(p1, c1, n, p2, Q[j])));
                    }
                }
            }
        }
    }
    if ((Parts & P_REL) != 0) {
        Conv<V> const cn{n};
        Conv<V> const ch{h};
        C08_CALL("operator==", X, X, X, X, h == n);
        C08_CALL("operator!=", X, X, X, X, h != n);
        C08_CALL("operator<", X, X, X, X, h < n);
        C08_CALL("operator<=", X, X, X, X, h <= n);
        C08_CALL("operator>", X, X, X, X, h > n);
        C08_CALL("operator>=", X, X, X, X, h >= n);
        C08_CALL("operator==(sv,convertible)", X, X, X, X, h == cn);
        C08_CALL("operator!=(sv,convertible)", X, X, X, X, h != cn);
        C08_CALL("operator<(sv,convertible)", X, X, X, X, h < cn);
        C08_CALL("operator<=(sv,convertible)", X, X, X, X, h <= cn);
        C08_CALL("operator>(sv,convertible)", X, X, X, X, h > cn);
        C08_CALL("operator>=(sv,convertible)", X, X, X, X, h >= cn);
        C08_CALL("operator==(convertible,sv)", X, X, X, X, ch == n);
        C08_CALL("operator!=(convertible,sv)", X, X, X, X, ch != n);
        C08_CALL("operator<(convertible,sv)", X, X, X, X, ch < n);
        C08_CALL("operator<=(convertible,sv)", X, X, X, X, ch <= n);
        C08_CALL("operator>(convertible,sv)", X, X, X, X, ch > n);
        C08_CALL("operator>=(convertible,sv)", X, X, X, X, ch >= n);
        if (A.nz != nullptr) {
            C const* const z = A.nz;
            C08_CALL("operator==(sv,cstr)", X, X, X, X, h == z);
            C08_CALL("operator!=(sv,cstr)", X, X, X, X, h != z);
            C08_CALL("operator<(sv,cstr)", X, X, X, X, h < z);
            C08_CALL("operator<=(sv,cstr)", X, X, X, X, h <= z);
            C08_CALL("operator>(sv,cstr)", X, X, X, X, h > z);
            C08_CALL("operator>=(sv,cstr)", X, X, X, X, h >= z);
        }
        if (A.hz != nullptr) {
            C const* const z = A.hz;
            C08_CALL("operator==(cstr,sv)", X, X, X, X, z == n);
            C08_CALL("operator!=(cstr,sv)", X, X, X, X, z != n);
            C08_CALL("operator<(cstr,sv)", X, X, X, X, z < n);
            C08_CALL("operator<=(cstr,sv)", X, X, X, X, z <= n);
            C08_CALL("operator>(cstr,sv)", X, X, X, X, z > n);
            C08_CALL("operator>=(cstr,sv)", X, X, X, X, z >= n);
        }
        if constexpr (etl_has_spaceship && has_spaceship_<V>) { C08_CALL("operator<=>", X, X, X, X, (h <=> n) < 0 ? -1 : ((h <=> n) > 0 ? 1 : 0)); }
    }
    if ((Parts & P_SUB) != 0) {
        if (A.unary) {
            for (std::size_t pos = 0; pos <= hl; ++pos) {
                for (std::size_t i = 0; i < np; ++i) {
                    std::size_t const cnt = P[i];
                    std::size_t const rc  = cnt < hl - pos ? cnt : hl - pos;
                    {
                        V const sub = h.substr(pos, cnt);
                        C08_CALL("substr(pos,count)", pos, cnt, X, X, sub.size());
                        C08_CALL("substr(pos,count)", pos, cnt, X, X, sub.data() - h.data());
                    }
                    {
                        typename Mem::template buf<C> dest(rc, C(0x11));
                        C08_CALL("copy(dest,count,pos)", pos, cnt, X, X, h.copy(dest.data(), cnt, pos));
                        C08_CALL("copy(dest,count,pos)", pos, cnt, X, X, hash_range(dest.data(), dest.data() + rc));
                        C08_CALL("copy(dest,count,pos)", pos, cnt, X, X, dest.intact());
                    }
                }
                {
                    V const sub = h.substr(pos);
                    C08_CALL("substr(pos)", pos, X, X, X, sub.size());
                    C08_CALL("substr(pos)", pos, X, X, X, sub.data() - h.data());
                }
            }
            {
                V const sub = h.substr();
                C08_CALL("substr()", X, X, X, X, sub.size());
                C08_CALL("substr()", X, X, X, X, sub.data() - h.data());
            }
            for (std::size_t i = 0; i < np; ++i) {
                std::size_t const cnt = P[i];
                std::size_t const rc  = cnt < hl ? cnt : hl;
                typename Mem::template buf<C> dest(rc, C(0x11));
                C08_CALL("copy(dest,count)", X, cnt, X, X, h.copy(dest.data(), cnt));
                C08_CALL("copy(dest,count)", X, cnt, X, X, hash_range(dest.data(), dest.data() + rc));
                C08_CALL("copy(dest,count)", X, cnt, X, X, dest.intact());
            }
            for (std::size_t k = 0; k <= hl; ++k) {
                {
                    V t = h;
                    t.remove_prefix(k);
                    C08_CALL("remove_prefix(n)", X, k, X, X, t.size());
                    C08_CALL("remove_prefix(n)", X, k, X, X, t.data() - h.data());
                }
                {
                    V t = h;
                    t.remove_suffix(k);
                    C08_CALL("remove_suffix(n)", X, k, X, X, t.size());
                    C08_CALL("remove_suffix(n)", X, k, X, X, t.data() - h.data());
                }
            }
        }
    }
    if ((Parts & P_ACC) != 0) {
        if (A.unary) {
            C08_CALL("size/length/empty", X, X, X, X, h.size());
            C08_CALL("size/length/empty", X, X, X, X, h.length());
            C08_CALL("size/length/empty", X, X, X, X, h.empty());
            C08_CALL("data", X, X, X, X, h.data() == nullptr);
            C08_CALL("begin/end", X, X, X, X, h.end() - h.begin());
            C08_CALL("begin/end", X, X, X, X, hash_range(h.begin(), h.end()));
            C08_CALL("begin/end", X, X, X, X, h.begin() == h.data());
            C08_CALL("cbegin/cend", X, X, X, X, h.cend() - h.cbegin());
            C08_CALL("cbegin/cend", X, X, X, X, hash_range(h.cbegin(), h.cend()));
            C08_CALL("rbegin/rend", X, X, X, X, h.rend() - h.rbegin());
            C08_CALL("rbegin/rend", X, X, X, X, hash_range(h.rbegin(), h.rend()));
            C08_CALL("rbegin/rend", X, X, X, X, h.rbegin().base() == h.end());
            C08_CALL("rbegin/rend", X, X, X, X, h.rend().base() == h.begin());
            C08_CALL("crbegin/crend", X, X, X, X, h.crend() - h.crbegin());
            C08_CALL("crbegin/crend", X, X, X, X, hash_range(h.crbegin(), h.crend()));
            if (hl > 0) {
                using U = std::make_unsigned_t<C>;
                C08_CALL("front", X, X, X, X, static_cast<U>(h.front()));
                C08_CALL("back", X, X, X, X, static_cast<U>(h.back()));
                C08_CALL("front", X, X, X, X, &h.front() == h.data());
                C08_CALL("back", X, X, X, X, &h.back() == h.data() + (hl - 1));
                for (std::size_t i = 0; i < hl; ++i) {
                    C08_CALL("operator[]", i, X, X, X, static_cast<U>(h[i]));
                    C08_CALL("operator[]", i, X, X, X, &h[i] == h.data() + i);
                    C08_CALL("rbegin/rend", i, X, X, X, static_cast<U>(h.rbegin()[static_cast<std::ptrdiff_t>(i)]));
                    C08_CALL("rbegin/rend", i, X, X, X, static_cast<U>(*(h.rend() - static_cast<std::ptrdiff_t>(i + 1))));
                    if constexpr (etl_has_at && has_at_<V>) { C08_CALL("at", i, X, X, X, static_cast<U>(h.at(i))); }
                }
            }
            {
                V const d{};
                C08_CALL("basic_string_view()", X, X, X, X, d.size());
                C08_CALL("basic_string_view()", X, X, X, X, d.data() == nullptr);
                V const c2{h};
                C08_CALL("basic_string_view(view)", X, X, X, X, c2.size());
                C08_CALL("basic_string_view(view)", X, X, X, X, c2.data() == h.data());
                V a2{};
                a2 = h;
                C08_CALL("operator=(view)", X, X, X, X, a2.size());
                C08_CALL("operator=(view)", X, X, X, X, a2.data() == h.data());
                if (h.data() != nullptr) {
                    for (std::size_t k = 0; k <= hl; ++k) {
                        V const pc{h.data(), k};
                        C08_CALL("basic_string_view(ptr,count)", X, k, X, X, pc.size());
                        C08_CALL("basic_string_view(ptr,count)", X, k, X, X, pc.data() == h.data());
                        V const it{h.data() + k, h.data() + hl};
                        C08_CALL("basic_string_view(first,last)", k, X, X, X, it.size());
                        C08_CALL("basic_string_view(first,last)", k, X, X, X, it.data() == h.data() + k);
                    }
                }
                if (A.hz != nullptr) {
                    V const z{A.hz};
                    C08_CALL("basic_string_view(cstr)", X, X, X, X, z.size());
                    C08_CALL("basic_string_view(cstr)", X, X, X, X, z.data() == A.hz);
                    C08_CALL("basic_string_view(cstr)", X, X, X, X, z == h);
                }
            }
        }
        {
            V x = h;
            V y = n;
            x.swap(y);
            C08_CALL("swap", X, X, X, X, x.size());
            C08_CALL("swap", X, X, X, X, y.size());
            C08_CALL("swap", X, X, X, X, x.data() == n.data());
            C08_CALL("swap", X, X, X, X, y.data() == h.data());
            x.swap(x);
            C08_CALL("swap", X, X, X, X, x.size());
            C08_CALL("swap", X, X, X, X, x.data() == n.data());
        }
    }
}

// ---------------------------------------------------------------------------------------------------------------
// sinks
// ---------------------------------------------------------------------------------------------------------------

struct Rec {
    char const* subj;
    std::size_t a, b, c, d;
    ll v;
    std::size_t ctx{0}; // set by the enumerator (mark): e.g. the index of the needle
};

/// model side: keeps everything
struct RecSink {
    std::vector<Rec> v;
    Rec cur{"", 0, 0, 0, 0, 0};
    std::size_t ctx{0};
    void mark(std::size_t c) { ctx = c; }
    void at(char const* subj, std::size_t a, std::size_t b, std::size_t c, std::size_t d) { cur = Rec{subj, a, b, c, d, 0, ctx}; }
    void val(ll x)
    {
        cur.v = x;
        v.push_back(cur);
    }
};

/// tetl side at run time: values + the indices at which a sanitizer reported
struct EtlSink {
    std::vector<ll> v;
    std::vector<std::size_t> san_at;
    Rec cur{"", 0, 0, 0, 0, 0};
    std::uint64_t san{mc::san_hits()};
    std::size_t ctx{0};
    void mark(std::size_t c) { ctx = c; }
    void at(char const* subj, std::size_t a, std::size_t b, std::size_t c, std::size_t d) { cur = Rec{subj, a, b, c, d, 0, ctx}; }
    void val(ll x)
    {
        auto const now = mc::san_hits();
        if (now != san) {
            san = now;
            san_at.push_back(v.size());
        }
        v.push_back(x);
    }
};

/// constant evaluation: values only, fixed capacity
template <std::size_t N>
struct ArraySink {
    std::array<ll, N> v{};
    std::size_t n{0};
    constexpr void mark(std::size_t) { }
    constexpr void at(char const*, std::size_t, std::size_t, std::size_t, std::size_t) { }
    constexpr void val(ll x) { v[n++] = x; }
};

struct CountSink {
    std::size_t n{0};
    constexpr void mark(std::size_t) { }
    constexpr void at(char const*, std::size_t, std::size_t, std::size_t, std::size_t) { }
    constexpr void val(ll) { ++n; }
};

// ---------------------------------------------------------------------------------------------------------------
// argument classes
// ---------------------------------------------------------------------------------------------------------------

/// calls that do not involve the needle (their class must not mention it)
inline bool unary_subject(char const* subj)
{
    std::string_view const s(subj);
    if (s.find("(ch") != std::string_view::npos) { return true; }
    for (char const* p : {"substr", "copy(", "remove_", "size/", "data", "begin/", "cbegin/", "rbegin/", "crbegin/", "front", "back", "operator[]", "at", "basic_string_view(",
             "operator=(view)"}) {
        if (s.substr(0, std::string_view(p).size()) == p) { return true; }
    }
    return false;
}

inline std::string arg_class(std::string const& tag, char const* subj, std::size_t pos, std::size_t hl, std::size_t nl, bool hnull, bool nnull)
{
    bool const unary = unary_subject(subj);
    std::string c = tag;
    auto add      = [&](char const* w) {
        if (!c.empty()) { c += '+'; }
        c += w;
    };
    if (hl == 0) { add(hnull ? "hay_null" : "hay_empty"); }
    if (!unary && nl == 0) { add(nnull ? "needle_null" : "needle_empty"); }
    if (!unary && nl > hl) { add("needle_longer"); }
    if (pos != NOARG) {
        if (pos >= NPOS / 2) {
            add("pos_npos");
        } else if (pos > hl) {
            add("pos_gt_size");
        } else if (pos == hl) {
            add("pos_eq_size");
        }
    }
    return c.empty() ? std::string("general") : c;
}

// ---------------------------------------------------------------------------------------------------------------
// operands: one string, stored for the tetl side in guarded blocks and for the model in std::basic_string copies
// ---------------------------------------------------------------------------------------------------------------

struct Place {
    std::size_t lead{0};   // characters in front of the view inside the block (the view starts at alignment lead*sizeof(C))
    std::size_t trail{0};  // characters behind the view (0: the block ends with the view - or with its terminator)
    unsigned baitL{'a'};   // value of the leading characters
    unsigned baitR{'a'};   // value of the trailing characters
    std::string name() const
    {
        if (lead == 0 && trail == 0) { return "exact"; }
        return cat("lead", lead, "x", baitL, "/trail", trail, "x", baitR);
    }
};

template <typename C>
struct Placed {
    std::unique_ptr<mc::GuardedBlock<C>> blk;
    C const* p{nullptr};
    Placed() = default;
    Placed(C const* s, std::size_t len, Place pl, bool terminated)
    {
        // a zero-length unterminated view must not sit at the start of a one-byte allocation (mc::GuardedBlock<T>(0)):
        // give it one leading character so that it is the END of its block
        if (len == 0 && !terminated && pl.trail == 0 && pl.lead == 0) { pl.lead = 1; }
        std::size_t const total = pl.lead + len + (terminated ? 1 : 0) + pl.trail;
        blk                     = std::make_unique<mc::GuardedBlock<C>>(total);
        C* d                    = blk->data();
        for (std::size_t i = 0; i < pl.lead; ++i) { *d++ = static_cast<C>(pl.baitL); }
        p = d;
        for (std::size_t i = 0; i < len; ++i) { *d++ = s[i]; }
        if (terminated) { *d++ = C(0); }
        for (std::size_t i = 0; i < pl.trail; ++i) { *d++ = static_cast<C>(pl.baitR); }
    }
};

template <typename C>
struct Operand {
    std::basic_string<C> model;
    bool is_null{false};
    bool has_nul{false};
    Place place;
    Placed<C> view;
    Placed<C> z;
    std::vector<Placed<C>> prefixes;
    std::vector<std::basic_string<C>> mprefixes;
    std::vector<C const*> rp, mp;

    Operand(std::basic_string<C> s, Place pl, bool with_prefixes, bool null_view = false) : model(std::move(s)), is_null(null_view), place(pl)
    {
        has_nul = model.find(C(0)) != std::basic_string<C>::npos;
        if (is_null) { return; }
        view = Placed<C>(model.data(), model.size(), pl, false);
        if (!has_nul) { z = Placed<C>(model.data(), model.size(), pl, true); }
        if (with_prefixes) {
            for (std::size_t c = 0; c <= model.size(); ++c) {
                prefixes.emplace_back(model.data(), c, pl, false);
                mprefixes.emplace_back(model.data(), c);
            }
            for (std::size_t c = 0; c <= model.size(); ++c) {
                rp.push_back(prefixes[c].p);
                mp.push_back(mprefixes[c].data());
            }
        }
    }
    Operand(Operand&&)            = default;
    Operand& operator=(Operand&&) = default;

    std::string text() const { return is_null ? std::string("<null view>") : show(model); }
};

/// all strings of length <= maxLen over alpha, shortest first
template <typename C>
std::vector<std::basic_string<C>> all_strings(std::vector<C> const& alpha, std::size_t maxLen)
{
    std::vector<std::basic_string<C>> all{{}};
    std::size_t lo = 0;
    for (std::size_t len = 1; len <= maxLen; ++len) {
        std::size_t const hi = all.size();
        for (std::size_t i = lo; i < hi; ++i) {
            for (C c : alpha) {
                auto s = all[i];
                s.push_back(c);
                all.push_back(std::move(s));
            }
        }
        lo = hi;
    }
    return all;
}

// ---------------------------------------------------------------------------------------------------------------
// lock-step runner
// ---------------------------------------------------------------------------------------------------------------

template <typename C, typename ETr = etl::char_traits<C>, typename STr = std::char_traits<C>>
struct Runner {
    using EV = etl::basic_string_view<C, ETr>;
    using SV = std::basic_string_view<C, STr>;

    mc::Reporter& r;
    std::string T;   // configuration name used in cases
    std::string tag; // class prefix of the space this job explores ("" for the plain sweep)
    RecSink model;
    EtlSink real;
    std::uint64_t evals{0}, nontrivial{0}, pairs{0};

    Runner(mc::Reporter& rep, std::string tg = {}) : r(rep), T(cat(cname<C>(), tname<ETr>())), tag(std::move(tg)) { }

    std::string kase(Operand<C> const& H, Operand<C> const& N, Rec const& c) const
    {
        std::string k = cat(T, " hay=", H.text(), " needle=", N.text());
        if (!H.is_null && (H.place.lead || H.place.trail)) { k += cat(" hay-block=", H.place.name()); }
        if (!N.is_null && (N.place.lead || N.place.trail)) { k += cat(" needle-block=", N.place.name()); }
        k += cat(" call=", c.subj, " args=(", shz(c.a), ",", shz(c.b), ",", shz(c.c), ",", c.d == NOARG ? std::string("-") : std::to_string(c.d), ")");
        return k;
    }

    void run(unsigned parts, Operand<C> const& H, Operand<C> const& N, bool unary, std::vector<C> const& singles)
    {
        Args<SV> as;
        Args<EV> ae;
        as.h = H.is_null ? SV{} : SV{H.model.data(), H.model.size()};
        ae.h = H.is_null ? EV{} : EV{H.view.p, H.model.size()};
        as.n = N.is_null ? SV{} : SV{N.model.data(), N.model.size()};
        ae.n = N.is_null ? EV{} : EV{N.view.p, N.model.size()};
        if (!H.is_null && !H.has_nul) {
            as.hz = H.model.c_str();
            ae.hz = H.z.p;
        }
        if (!N.is_null && !N.has_nul) {
            as.nz = N.model.c_str();
            ae.nz = N.z.p;
        }
        if (!N.is_null && !N.rp.empty()) {
            as.nprefix = N.mp.data();
            ae.nprefix = N.rp.data();
        }
        as.singles = ae.singles = singles.data();
        as.nsingles = ae.nsingles = singles.size();
        as.unary = ae.unary = unary;
        as.parts = ae.parts = parts;

        model.v.clear();
        real.v.clear();
        real.san_at.clear();
        menu<SV, PlainMem>(as, model);
        real.san = mc::san_hits(); // reports of an earlier call that trapped were attributed to that trap
        std::size_t const hl = H.is_null ? 0 : H.model.size();
        std::size_t const nl = N.is_null ? 0 : N.model.size();
        mc::Trap const t = mc::guarded([&] { menu<EV, GuardMem>(ae, real); });
        ++pairs;
        if (t != mc::Trap::none) {
            bool const contract = (t == mc::Trap::assert_fired);
            r.violation(contract ? "C05" : "C02", cat("basic_string_view::", real.cur.subj),
                cat(arg_class(tag, real.cur.subj, real.cur.a, hl, nl, H.is_null, N.is_null), "/", mc::trap_name(t)), kase(H, N, real.cur), mc::describe_trap(t));
        }
        for (std::size_t i : real.san_at) {
            // the report belongs to the call that delivered value #i (checked when the value arrives)
            if (i < model.v.size()) {
                auto const& c = model.v[i];
                r.violation("C02", cat("basic_string_view::", c.subj), arg_class(tag, c.subj, c.a, hl, nl, H.is_null, N.is_null), kase(H, N, c),
                    "ASan/UBSan report: read or write outside the views/arrays involved (see job log)");
            }
        }
        std::size_t const m = real.v.size() < model.v.size() ? real.v.size() : model.v.size();
        for (std::size_t i = 0; i < m; ++i) {
            auto const& c = model.v[i];
            if (real.v[i] != c.v) {
                r.violation("C08", cat("basic_string_view::", c.subj), arg_class(tag, c.subj, c.a, hl, nl, H.is_null, N.is_null), kase(H, N, c),
                    cat("tetl=", real.v[i], " std=", c.v, " (position/bool/sign/size/offset/hash; npos = -1)"));
            }
            if (c.v != 0 && c.v != -1) { ++nontrivial; }
        }
        evals += m;
        if (t == mc::Trap::none && real.v.size() != model.v.size()) {
            r.violation("C08", "harness", "sequence_length", kase(H, N, model.cur), cat("tetl delivered ", real.v.size(), " values, the model ", model.v.size()));
        }
        if (r.wants_sample() && m > 0) { r.sample(kase(H, N, model.v[m / 2])); }
    }

    void finish()
    {
        r.count("evaluations", evals);
        r.count("distinct_nontrivial", nontrivial);
        r.count("view_pairs", pairs);
    }
};

} // namespace c08
