// C07 round 2, direction 3: etl::optional<T> for element types whose conversions compete with
// optional's own constructors and assignment operators:
//
//   T = bool              (optional<U> is explicitly convertible to bool; int, pointers convert to bool)
//   T = int               (sources optional<bool>, long, a type convertible to int AND to optional<int>)
//   T = int* / int const* (nullptr is a VALUE, nullopt is not; optional<int*> -> optional<int const*>)
//   T = optional<int>     (nested: nullopt vs an empty inner optional vs a value)
//   T = W                 (class implicitly constructible from int; a type convertible to W AND to optional<W>)
//   T = int const, NT const (no assignment; construction, emplace, reset, observers, comparisons)
//
// Every scenario is ONE function template instantiated for the tetl side and for the libstdc++ side:
//   target state (empty / engaged with each value)  x  source object (every value of every source
//   type, as rvalue, lvalue and const lvalue)  x  operation (direct-initialisation, copy-initialisation,
//   assignment, emplace, value_or, the twelve comparison expressions).
// An expression is only executed on a side where it is well-formed (requires-expression).  Outcomes:
//   both well-formed     -> results must be equal                      (else C07 violation)
//   neither well-formed  -> counted (both_reject)
//   only std well-formed -> API gap of tetl, counted and listed in the notes, never a violation
//   only tetl well-formed-> extension, counted, not compared
// (nullopt sources: only == and != - tetl does not declare <=, >, >= against nullopt_t and its unconstrained
//  value comparison templates then fail inside their bodies; the declared ones are covered by c07_optional.cpp)
// LWG 3836 (optional<bool> from optional<U>, resolved 2023) is not implemented by libstdc++ 12: for
// T = bool with an optional<U> source the pre-resolution result (what libstdc++ 12 computes) and the
// post-resolution result (closed form: empty source -> empty, else bool(*source)) are both accepted.
#include "mc.hpp"

#include <etl/optional.hpp>

#include <map>
#include <optional>
#include <string>
#include <type_traits>
#include <utility>
#include <vector>

using mc::cat;

namespace {

int g_cells[3] = {0, 1, 2};

// ------------------------------------------------------------------------------ the two sides
struct Etl {
    template <typename T>
    using opt = etl::optional<T>;
    static constexpr auto none() { return etl::nullopt; }
    static constexpr auto in_place() { return etl::in_place; }
    static constexpr bool is_etl = true;
};
struct Std {
    template <typename T>
    using opt = std::optional<T>;
    static constexpr auto none() { return std::nullopt; }
    static constexpr auto in_place() { return std::in_place; }
    static constexpr bool is_etl = false;
};
template <typename L, typename X>
using opt_of = typename L::template opt<X>;

template <typename X>
inline constexpr bool is_opt_v = false;
template <typename X>
inline constexpr bool is_opt_v<etl::optional<X>> = true;
template <typename X>
inline constexpr bool is_opt_v<std::optional<X>> = true;

// ------------------------------------------------------------------------------ element types
/// class type implicitly constructible from int (a non-scalar T)
struct W {
    int v;
    W(int x) : v(x) { }
    friend bool operator==(W const& a, W const& b) { return a.v == b.v; }
    friend bool operator<(W const& a, W const& b) { return a.v < b.v; }
    friend bool operator!=(W const& a, W const& b) { return a.v != b.v; }
    friend bool operator>(W const& a, W const& b) { return a.v > b.v; }
    friend bool operator<=(W const& a, W const& b) { return a.v <= b.v; }
    friend bool operator>=(W const& a, W const& b) { return a.v >= b.v; }
};
/// non-trivial type with an instance counter
struct NT {
    static inline int live = 0;
    int v;
    NT(int x) noexcept : v(x) { ++live; }
    NT(NT const& o) noexcept : v(o.v) { ++live; }
    ~NT() { --live; }
    friend bool operator==(NT const& a, NT const& b) { return a.v == b.v; }
    friend bool operator<(NT const& a, NT const& b) { return a.v < b.v; }
    friend bool operator!=(NT const& a, NT const& b) { return a.v != b.v; }
    friend bool operator>(NT const& a, NT const& b) { return a.v > b.v; }
    friend bool operator<=(NT const& a, NT const& b) { return a.v <= b.v; }
    friend bool operator>=(NT const& a, NT const& b) { return a.v >= b.v; }
};
/// convertible to X and to optional<X> (of its own side); the two conversions give different values
template <typename L, typename X>
struct Both {
    int as_value;
    int as_optional; // < 0: the optional conversion yields an empty optional
    operator X() const { return X(as_value); }
    operator opt_of<L, X>() const { return as_optional < 0 ? opt_of<L, X>{} : opt_of<L, X>{X(as_optional)}; }
};

// ------------------------------------------------------------------------------ showing values
inline std::string show_val(bool b) { return b ? "true" : "false"; }
inline std::string show_val(int x) { return cat(x); }
inline std::string show_val(long x) { return cat(x, "L"); }
inline std::string show_val(short x) { return cat(x, "s"); }
inline std::string show_val(int const* p) { return p == nullptr ? std::string("null") : cat("cell", p - g_cells); }
inline std::string show_val(std::nullptr_t) { return "nullptr"; }
inline std::string show_val(W const& w) { return cat("W", w.v); }
inline std::string show_val(NT const& w) { return cat("NT", w.v); }
template <typename O>
    requires(is_opt_v<O>)
std::string show_val(O const& o);
template <typename O>
std::string show(O const& o)
{
    bool const h = o.has_value();
    if (static_cast<bool>(o) != h) { return "operator bool != has_value()"; }
    if (!h) { return "N"; }
    return "E(" + show_val(*o) + ")";
}
template <typename O>
    requires(is_opt_v<O>)
std::string show_val(O const& o)
{
    return show(o);
}

// ------------------------------------------------------------------------------ source descriptors
// get<L>(i): the i-th source object for side L (a prvalue); label(i): its description; state(i): class text
struct SrcBool {
    static constexpr int n = 2;
    static constexpr char const* name = "bool";
    template <typename L>
    static bool get(int i) { return i != 0; }
    static std::string label(int i) { return i != 0 ? "true" : "false"; }
    static std::string state(int) { return "value"; }
};
struct SrcInt {
    static constexpr int n = 3;
    static constexpr char const* name = "int";
    template <typename L>
    static int get(int i) { return i; }
    static std::string label(int i) { return cat(i); }
    static std::string state(int) { return "value"; }
};
struct SrcLong {
    static constexpr int n = 2;
    static constexpr char const* name = "long";
    template <typename L>
    static long get(int i) { return i + 1; }
    static std::string label(int i) { return cat(i + 1, "L"); }
    static std::string state(int) { return "value"; }
};
struct SrcPtr {
    static constexpr int n = 3;
    static constexpr char const* name = "int*";
    template <typename L>
    static int* get(int i) { return i == 0 ? nullptr : &g_cells[i - 1]; }
    static std::string label(int i) { return i == 0 ? std::string("(int*)null") : cat("&cell", i - 1); }
    static std::string state(int i) { return i == 0 ? "null_pointer_value" : "value"; }
};
struct SrcCPtr {
    static constexpr int n = 3;
    static constexpr char const* name = "int const*";
    template <typename L>
    static int const* get(int i) { return i == 0 ? nullptr : &g_cells[i - 1]; }
    static std::string label(int i) { return i == 0 ? std::string("(int const*)null") : cat("&cell", i - 1); }
    static std::string state(int i) { return i == 0 ? "null_pointer_value" : "value"; }
};
struct SrcNullptr {
    static constexpr int n = 1;
    static constexpr char const* name = "nullptr_t";
    template <typename L>
    static std::nullptr_t get(int) { return nullptr; }
    static std::string label(int) { return "nullptr"; }
    static std::string state(int) { return "nullptr"; }
};
struct SrcNullopt {
    static constexpr int n = 1;
    static constexpr char const* name = "nullopt_t";
    template <typename L>
    static auto get(int) { return L::none(); }
    static std::string label(int) { return "nullopt"; }
    static std::string state(int) { return "nullopt"; }
};
struct SrcW {
    static constexpr int n = 2;
    static constexpr char const* name = "W";
    template <typename L>
    static W get(int i) { return W(i); }
    static std::string label(int i) { return cat("W(", i, ")"); }
    static std::string state(int) { return "value"; }
};
struct SrcNT {
    static constexpr int n = 2;
    static constexpr char const* name = "NT";
    template <typename L>
    static NT get(int i) { return NT(i); }
    static std::string label(int i) { return cat("NT(", i, ")"); }
    static std::string state(int) { return "value"; }
};
/// optional<Inner> of the same side: empty, or engaged with each Inner value
template <typename Inner, bool ConstElem = false>
struct SrcOpt {
    static constexpr int n = Inner::n + 1;
    static inline std::string const name_s = cat("optional<", Inner::name, ConstElem ? " const>" : ">");
    static inline char const* const name   = name_s.c_str();
    template <typename L>
    static auto get(int i)
    {
        using V = decltype(Inner::template get<L>(0));
        using E = std::conditional_t<ConstElem, V const, V>;
        if (i == 0) { return opt_of<L, E>{}; }
        return opt_of<L, E>{L::in_place(), Inner::template get<L>(i - 1)};
    }
    static std::string label(int i) { return i == 0 ? cat(name, "{}") : cat(name, "{", Inner::label(i - 1), "}"); }
    static std::string state(int i) { return i == 0 ? "empty_optional" : "engaged_optional"; }
};
/// Both<L, X>: (value conversion, optional conversion) pairs
template <typename X>
struct SrcBoth {
    static constexpr int n = 3;
    static inline std::string const name_s = cat("ConvertibleTo<", std::is_same_v<X, int> ? "int" : (std::is_same_v<X, bool> ? "bool" : "W"), " and optional>");
    static inline char const* const name   = name_s.c_str();
    template <typename L>
    static Both<L, X> get(int i)
    {
        // i = 0: value 1 / optional engaged 0;  i = 1: value 0 / optional engaged 1;  i = 2: value 1 / optional empty
        return i == 0 ? Both<L, X>{1, 0} : (i == 1 ? Both<L, X>{0, 1} : Both<L, X>{1, -1});
    }
    static std::string label(int i) { return i == 0 ? "{value 1, optional{0}}" : (i == 1 ? "{value 0, optional{1}}" : "{value 1, optional{}}"); }
    static std::string state(int i) { return i == 2 ? "optional_conversion_empty" : "optional_conversion_engaged"; }
};

// ------------------------------------------------------------------------------ target descriptors
// type<L>: the optional under test; make<L>(i): the i-th target state
template <typename Elem, typename Values>
struct Tgt {
    template <typename L>
    using type = opt_of<L, Elem>;
    static constexpr int n = Values::n + 1;
    template <typename L>
    static type<L> make(int i)
    {
        if (i == 0) { return type<L>{}; }
        return type<L>{L::in_place(), Values::template get<L>(i - 1)};
    }
    static std::string label(int i) { return i == 0 ? std::string("empty") : cat("engaged(", Values::label(i - 1), ")"); }
    static std::string state(int i) { return i == 0 ? "empty" : "engaged"; }
    template <typename L>
    using elem = Elem;
};
/// nested: optional<optional<int>>
struct TgtNested {
    template <typename L>
    using elem = opt_of<L, int>;
    template <typename L>
    using type = opt_of<L, opt_of<L, int>>;
    static constexpr int n = 4; // empty, engaged(empty), engaged(engaged 0), engaged(engaged 1)
    template <typename L>
    static type<L> make(int i)
    {
        if (i == 0) { return type<L>{}; }
        if (i == 1) { return type<L>{L::in_place(), elem<L>{}}; }
        return type<L>{L::in_place(), elem<L>{i - 2}};
    }
    static std::string label(int i) { return i == 0 ? std::string("empty") : (i == 1 ? std::string("engaged(empty)") : cat("engaged(engaged(", i - 2, "))")); }
    static std::string state(int i) { return i == 0 ? "empty" : (i == 1 ? "engaged_inner_empty" : "engaged"); }
};

// ------------------------------------------------------------------------------ operations
using Items = std::vector<std::pair<std::string, std::string>>; // (expression, outcome or "n/a")
constexpr char const* NA = "n/a";

template <typename X>
struct elem_of {
    using type = X;
};
template <typename X>
struct elem_of<etl::optional<X>> {
    using type = X;
};
template <typename X>
struct elem_of<std::optional<X>> {
    using type = X;
};
template <typename X>
inline constexpr bool is_nullopt_v = std::is_same_v<X, etl::nullopt_t> || std::is_same_v<X, std::nullopt_t>;

/// The comparison operators of std::optional are constrained on the element comparison being well-formed;
/// tetl's are not (the body fails to compile instead).  The harness therefore decides itself whether a
/// comparison is meaningful: unwrap optionals on both sides until two non-optional types are compared.
template <typename A, typename B, typename F>
constexpr bool deep_cmp_ok()
{
    using EA = std::remove_cv_t<typename elem_of<A>::type>;
    using EB = std::remove_cv_t<typename elem_of<B>::type>;
    if constexpr (is_nullopt_v<A> || is_nullopt_v<B>) {
        return is_opt_v<A> || is_opt_v<B>;
    } else if constexpr (is_opt_v<A> && is_opt_v<B>) {
        return deep_cmp_ok<EA, EB, F>();
    } else if constexpr (is_opt_v<A>) {
        return deep_cmp_ok<EA, B, F>();
    } else if constexpr (is_opt_v<B>) {
        return deep_cmp_ok<A, EB, F>();
    } else {
        return requires(A const& a, B const& b, F f) { static_cast<bool>(f(a, b)); };
    }
}

template <bool Ordered, typename A, typename B>
void cmp_items(Items& out, char const* an, char const* bn, A const& a, B const& b)
{
    auto put = [&](char const* op, auto f) {
        auto const expr = cat(an, " ", op, " ", bn);
        // nullopt == optional<optional<X>>: since C++20 the library only declares operator==(optional const&, nullopt_t);
        // g++ 12 resolves the reversed spelling to the VALUE comparison template (nullopt compared with the inner
        // optional) instead of the rewritten candidate, so libstdc++ 12 is no reference for this one spelling
        if constexpr (is_nullopt_v<A> && is_opt_v<B> && is_opt_v<std::remove_cv_t<typename elem_of<B>::type>>) {
            out.emplace_back(expr, "meaningless");
        } else if constexpr (deep_cmp_ok<A, B, decltype(f)>()) {
            if constexpr (requires { static_cast<bool>(f(a, b)); }) {
                out.emplace_back(expr, static_cast<bool>(f(a, b)) ? "true" : "false");
            } else {
                out.emplace_back(expr, NA);
            }
        } else {
            out.emplace_back(expr, "meaningless");
        }
    };
    put("==", [](auto const& x, auto const& y) -> decltype(x == y) { return x == y; });
    put("!=", [](auto const& x, auto const& y) -> decltype(x != y) { return x != y; });
    if constexpr (Ordered) {
        put("<", [](auto const& x, auto const& y) -> decltype(x < y) { return x < y; });
        put("<=", [](auto const& x, auto const& y) -> decltype(x <= y) { return x <= y; });
        put(">", [](auto const& x, auto const& y) -> decltype(x > y) { return x > y; });
        put(">=", [](auto const& x, auto const& y) -> decltype(x >= y) { return x >= y; });
    }
}

enum OpKind { op_direct_init, op_copy_init, op_assign, op_emplace, op_value_or, op_compare, op_count };
constexpr char const* op_subject(int k)
{
    constexpr char const* n[] = {"::optional(src) direct-init", "::optional = src copy-init", "::operator=(src)", "::emplace(src)", "::value_or(src)", " x src comparison operators"};
    return n[k];
}

/// runs operation K with target o and source s (already in the wanted value category)
template <int K, bool Ordered, typename O, typename S>
Items run_op(O& o, S&& s)
{
    Items out;
    if constexpr (K == op_direct_init) {
        if constexpr (std::is_constructible_v<O, S>) {
            O n(std::forward<S>(s));
            out.emplace_back("O n(src)", show(n));
        } else {
            out.emplace_back("O n(src)", NA);
        }
    } else if constexpr (K == op_copy_init) {
        if constexpr (std::is_convertible_v<S, O>) {
            O n = std::forward<S>(s);
            out.emplace_back("O n = src", show(n));
        } else {
            out.emplace_back("O n = src", NA);
        }
    } else if constexpr (K == op_assign) {
        if constexpr (requires { o = std::forward<S>(s); }) {
            auto& r = (o = std::forward<S>(s));
            out.emplace_back("o = src", show(o) + (std::addressof(r) == std::addressof(o) ? "" : " (did not return *this)"));
        } else {
            out.emplace_back("o = src", NA);
        }
    } else if constexpr (K == op_emplace) {
        if constexpr (std::is_constructible_v<typename O::value_type, S>) { // (Mandates, not a constraint: tetl's emplace is unconstrained)
            auto& r = o.emplace(std::forward<S>(s));
            out.emplace_back("o.emplace(src)", show(o) + (o.has_value() && std::addressof(r) == std::addressof(*o) ? "" : " (did not return the contained value)"));
        } else {
            out.emplace_back("o.emplace(src)", NA);
        }
    } else if constexpr (K == op_value_or) {
        if constexpr (std::is_copy_constructible_v<typename O::value_type> && std::is_convertible_v<S, typename O::value_type>) { // (Mandates of value_or)
            out.emplace_back("o.value_or(src)", show_val(std::as_const(o).value_or(std::forward<S>(s))));
        } else {
            out.emplace_back("o.value_or(src)", NA);
        }
    } else if constexpr (K == op_compare) {
        cmp_items<Ordered>(out, "o", "src", std::as_const(o), std::as_const(s));
        cmp_items<Ordered>(out, "src", "o", std::as_const(s), std::as_const(o));
    }
    return out;
}

struct Ctx {
    mc::Reporter& r;
    std::uint64_t evals{0};
    std::uint64_t compared{0};
    std::uint64_t both_reject{0};
    std::uint64_t tetl_only{0};
    std::uint64_t post_dr{0};
    std::map<std::string, std::uint64_t> gaps;
};

/// one scenario on one side
template <typename L, typename T, typename Src, int K, int Cat, bool Ordered>
Items scenario(int ti, int si)
{
    auto o = T::template make<L>(ti);
    auto s = Src::template get<L>(si);
    if constexpr (Cat == 0) {
        return run_op<K, Ordered>(o, std::move(s));
    } else if constexpr (Cat == 1) {
        return run_op<K, Ordered>(o, s);
    } else {
        return run_op<K, Ordered>(o, std::as_const(s));
    }
}

/// LWG 3836 closed form for T = bool and an optional source: empty -> empty, else bool(*src)
template <typename L, typename T, typename Src, int K>
std::string post_lwg3836(int ti, int si)
{
    auto o = T::template make<L>(ti);
    auto s = Src::template get<L>(si);
    if constexpr (is_opt_v<decltype(s)>) {
        typename T::template type<L> n;
        if (s.has_value()) { n.emplace(static_cast<bool>(*s)); }
        (void)o;
        return show(n);
    } else {
        return {};
    }
}

template <typename T, typename Src, int K, int Cat, bool Ordered, bool Lwg3836>
void sweep_one(Ctx& c, std::string const& tname)
{
    constexpr char const* cats[] = {"&&", "&", "const&"};
    for (int ti = 0; ti < T::n; ++ti) {
        // construction does not depend on the target state
        if ((K == op_direct_init || K == op_copy_init) && ti != 0) { continue; }
        for (int si = 0; si < Src::n; ++si) {
            auto const subject = cat(tname, op_subject(K), " [src = ", Src::name, "]");
            auto const cls     = cat((K == op_direct_init || K == op_copy_init) ? "" : T::state(ti) + "+", "arg_", Src::state(si), "/", cats[Cat]);
            auto const kase    = cat(tname, " ", (K == op_direct_init || K == op_copy_init) ? std::string("<new>") : T::label(ti), " ", op_subject(K), " with ", Src::label(si), " as ", cats[Cat]);
            Items ie, is;
            int const live0 = NT::live;
            int live_e = 0, live_s = 0;
            mc::Trap t = mc::guarded([&] {
                ie     = scenario<Etl, T, Src, K, Cat, Ordered>(ti, si);
                live_e = NT::live;
                is     = scenario<Std, T, Src, K, Cat, Ordered>(ti, si);
                live_s = NT::live;
            });
            ++c.evals;
            if (t != mc::Trap::none) {
                c.r.violation(t == mc::Trap::assert_fired ? "C05" : "C02", subject, cat(cls, "/", mc::trap_name(t)), kase, mc::describe_trap(t));
                NT::live = live0;
                continue;
            }
            if (live_e != live0) {
                c.r.violation("C03", subject, cls + "/live-count", kase, cat("instances alive after the scenario: ", live_e - live0, " more than before"));
                NT::live = live0;
            }
            (void)live_s;
            for (std::size_t k = 0; k < ie.size() && k < is.size(); ++k) {
                auto const& [expr, oe] = ie[k];
                auto const& os         = is[k].second;
                bool const ne = oe == NA || oe == "meaningless", ns = os == NA || os == "meaningless";
                if (ne && ns) {
                    ++c.both_reject;
                } else if (ne) {
                    ++c.gaps[cat(tname, " ", expr, " with src = ", Src::name, " (", cats[Cat], ")")];
                } else if (ns) {
                    ++c.tetl_only;
                } else {
                    ++c.compared;
                    c.r.count("comparisons");
                    c.r.outcome(mc::hash_str(cat(kase, expr, os)));
                    if (oe != os) {
                        bool accepted = false;
                        if constexpr (Lwg3836 && (K == op_direct_init || K == op_copy_init || K == op_assign)) {
                            auto const alt = post_lwg3836<Etl, T, Src, K>(ti, si);
                            if (!alt.empty() && oe == alt) {
                                accepted = true;
                                ++c.post_dr;
                            }
                        }
                        if (!accepted) { c.r.violation("C07", subject, cls, kase, cat(expr, ": tetl ", oe, " std ", os)); }
                    }
                    if (c.r.wants_sample()) { c.r.sample(cat(kase, ": ", expr, " -> ", os)); }
                }
            }
        }
    }
}

template <typename T, typename Src, bool Ordered, bool Lwg3836, int K>
void sweep_cats(Ctx& c, std::string const& tname)
{
    sweep_one<T, Src, K, 0, Ordered, Lwg3836>(c, tname);
    sweep_one<T, Src, K, 1, Ordered, Lwg3836>(c, tname);
    sweep_one<T, Src, K, 2, Ordered, Lwg3836>(c, tname);
}

/// all operations of one (target, source type) pair
template <typename T, typename Src, bool Ordered = true, bool Lwg3836 = false>
void sweep(Ctx& c, std::string const& tname)
{
    sweep_cats<T, Src, Ordered, Lwg3836, op_direct_init>(c, tname);
    sweep_cats<T, Src, Ordered, Lwg3836, op_copy_init>(c, tname);
    sweep_cats<T, Src, Ordered, Lwg3836, op_assign>(c, tname);
    sweep_cats<T, Src, Ordered, Lwg3836, op_emplace>(c, tname);
    sweep_cats<T, Src, Ordered, Lwg3836, op_value_or>(c, tname);
    sweep_one<T, Src, op_compare, 2, Ordered, Lwg3836>(c, tname); // (operands are taken by const&: one category)
}

void finish(mc::Reporter& r, Ctx& c)
{
    r.count("evaluations", c.evals);
    r.count("distinct_nontrivial", c.evals);
    r.count("expressions_compared", c.compared);
    r.count("expressions_rejected_by_both", c.both_reject);
    r.count("expressions_only_tetl_accepts", c.tetl_only);
    r.count("lwg3836_post_resolution_results_accepted", c.post_dr);
    r.count("configurations", 1);
    std::uint64_t g = 0;
    for (auto const& [k, v] : c.gaps) {
        g += v;
        r.note(cat("API gap (std accepts, tetl does not compile): ", k, " x", v));
    }
    r.count("api_gap_expressions", g);
}

using TBool   = Tgt<bool, SrcBool>;
using TInt    = Tgt<int, SrcInt>;
using TPtr    = Tgt<int*, SrcPtr>;
using TCPtr   = Tgt<int const*, SrcCPtr>;
using TW      = Tgt<W, SrcW>;
using TCInt   = Tgt<int const, SrcInt>;
using TCNT    = Tgt<NT const, SrcNT>;

} // namespace

int main(int argc, char** argv)
{
    mc::Main m(argc, argv);
    std::vector<std::string> const both{"quick", "thorough"};
#if !defined(MC_PART) || MC_PART == 1
    m.job("optional-conv/bool", both, [](mc::Reporter& r) {
        Ctx c{r};
        std::string const t = "optional<bool>";
        sweep<TBool, SrcBool>(c, t);
        sweep<TBool, SrcInt>(c, t);
        sweep<TBool, SrcPtr, false>(c, t);
        sweep<TBool, SrcNullopt, false>(c, t);
        sweep<TBool, SrcOpt<SrcBool>>(c, t);
        sweep<TBool, SrcOpt<SrcInt>, true, true>(c, t);
        sweep<TBool, SrcBoth<bool>>(c, t);
        finish(r, c);
    });
    m.job("optional-conv/int", both, [](mc::Reporter& r) {
        Ctx c{r};
        std::string const t = "optional<int>";
        sweep<TInt, SrcBool>(c, t);
        sweep<TInt, SrcLong>(c, t);
        sweep<TInt, SrcOpt<SrcBool>>(c, t);
        sweep<TInt, SrcOpt<SrcLong>>(c, t);
        sweep<TInt, SrcBoth<int>>(c, t);
        finish(r, c);
    });
    m.job("optional-conv/pointer", both, [](mc::Reporter& r) {
        Ctx c{r};
        sweep<TPtr, SrcPtr, false>(c, "optional<int*>");
        sweep<TPtr, SrcNullptr, false>(c, "optional<int*>");
        sweep<TPtr, SrcNullopt, false>(c, "optional<int*>");
        sweep<TPtr, SrcOpt<SrcPtr>, false>(c, "optional<int*>");
        sweep<TPtr, SrcOpt<SrcNullptr>, false>(c, "optional<int*>");
        sweep<TCPtr, SrcPtr, false>(c, "optional<int const*>");
        sweep<TCPtr, SrcCPtr, false>(c, "optional<int const*>");
        sweep<TCPtr, SrcNullptr, false>(c, "optional<int const*>");
        sweep<TCPtr, SrcOpt<SrcPtr>, false>(c, "optional<int const*>");
        finish(r, c);
    });
#endif
#if !defined(MC_PART) || MC_PART == 2
    m.job("optional-conv/nested", both, [](mc::Reporter& r) {
        Ctx c{r};
        std::string const t = "optional<optional<int>>";
        sweep<TgtNested, SrcInt>(c, t);
        sweep<TgtNested, SrcNullopt, false>(c, t);
        sweep<TgtNested, SrcOpt<SrcInt>>(c, t);
        sweep<TgtNested, SrcOpt<SrcLong>>(c, t);
        sweep<TgtNested, SrcOpt<SrcOpt<SrcInt>>>(c, t);
        finish(r, c);
    });
    m.job("optional-conv/class", both, [](mc::Reporter& r) {
        Ctx c{r};
        std::string const t = "optional<W>";
        sweep<TW, SrcW>(c, t);
        sweep<TW, SrcInt>(c, t);
        sweep<TW, SrcNullopt, false>(c, t);
        sweep<TW, SrcOpt<SrcW>>(c, t);
        sweep<TW, SrcOpt<SrcInt>>(c, t);
        sweep<TW, SrcBoth<W>>(c, t);
        finish(r, c);
    });
    m.job("optional-conv/const-element", both, [](mc::Reporter& r) {
        Ctx c{r};
        sweep<TCInt, SrcInt>(c, "optional<int const>");
        sweep<TCInt, SrcNullopt, false>(c, "optional<int const>");
        sweep<TCInt, SrcOpt<SrcInt>>(c, "optional<int const>");
        sweep<TCInt, SrcOpt<SrcInt, true>>(c, "optional<int const>");
        sweep<TCNT, SrcNT>(c, "optional<NT const>");
        sweep<TCNT, SrcInt>(c, "optional<NT const>");
        sweep<TCNT, SrcNullopt, false>(c, "optional<NT const>");
        sweep<TCNT, SrcOpt<SrcNT>>(c, "optional<NT const>");
        sweep<TCNT, SrcOpt<SrcNT, true>>(c, "optional<NT const>");
        finish(r, c);
    });
#endif
    return m.run();
}
