// C09: static_set / flat_set explored to a fixed point in lock-step with std::set<int,Cmp>
// (the model always holds plain ints; Tracked keys map to their value), flat_multiset
// construction swept over every container of bounded length, and flat_set over an
// inplace_vector (which has no positional insert/erase) checked on the lookup half.
//
// Key universe {1..K}; lookups additionally use 0 and K+1 (absent, before/after everything).
// Also reports C03 (lifetime registry, Tracked keys), C05 (handler on a valid call) and C02
// (sanitizer/crash) through the explorer.
#include "explore.hpp"
#include "tracked.hpp"

#include <etl/flat_set.hpp>
#include <etl/functional.hpp>
#include <etl/inplace_vector.hpp>
#include <etl/set.hpp>
#include <etl/utility.hpp>
#include <etl/vector.hpp>

#include <iterator>
#include <set>
#include <type_traits>
#include <vector>

using mc::cat;
using mc::Cx;
using mc::registry;
using mc::value_of;

namespace {

using TCM = mc::Tracked<mc::copy_move>;

template <typename T>
std::string tname()
{
    if constexpr (std::is_same_v<T, int>) {
        return "int";
    } else {
        return "Tracked<copy+move>";
    }
}

// ---------------------------------------------------------------------------------------
// comparators: tetl side (template argument) -> model side, name, direction
// ---------------------------------------------------------------------------------------
template <typename Cmp>
struct CmpInfo;
template <typename U>
struct CmpInfo<etl::less<U>> {
    static constexpr bool desc = false;
    static std::string name() { return std::is_void_v<U> ? "less<>" : "less"; }
};
template <typename U>
struct CmpInfo<etl::greater<U>> {
    static constexpr bool desc = true;
    static std::string name() { return std::is_void_v<U> ? "greater<>" : "greater"; }
};

// wrapper key for heterogeneous lookup through a transparent comparator
struct WKey {
    int v;
};
inline bool operator<(WKey a, int b) { return a.v < b; }
inline bool operator<(int a, WKey b) { return a < b.v; }
inline bool operator>(WKey a, int b) { return a.v > b; }
inline bool operator>(int a, WKey b) { return a > b.v; }
inline bool operator<(WKey a, TCM const& b) { return a.v < b.value(); }
inline bool operator<(TCM const& a, WKey b) { return a.value() < b.v; }
inline bool operator>(WKey a, TCM const& b) { return a.v > b.value(); }
inline bool operator>(TCM const& a, WKey b) { return a.value() > b.v; }

// ---------------------------------------------------------------------------------------
// pools of external arguments (deterministic order, simplest first)
// ---------------------------------------------------------------------------------------
// all sequences of length <= L over {1..K}
inline std::vector<std::vector<int>> const& seqs(int K, int L)
{
    static std::map<std::pair<int, int>, std::vector<std::vector<int>>> cache;
    auto& p = cache[{K, L}];
    if (p.empty()) {
        p.push_back({});
        std::size_t lo = 0;
        for (int len = 1; len <= L; ++len) {
            std::size_t hi = p.size();
            for (std::size_t i = lo; i < hi; ++i) {
                for (int v = 1; v <= K; ++v) {
                    auto s = p[i];
                    s.push_back(v);
                    p.push_back(s);
                }
            }
            lo = hi;
        }
    }
    return p;
}

inline int popcount(unsigned m)
{
    int n = 0;
    for (; m != 0; m &= m - 1) { ++n; }
    return n;
}
inline bool in_mask(unsigned mask, int key) { return key >= 1 && key <= 30 && ((mask >> (key - 1)) & 1U) != 0; }

// keys of `mask` in comparator order
inline std::vector<int> mask_keys(unsigned mask, int K, bool desc)
{
    std::vector<int> o;
    if (desc) {
        for (int k = K; k >= 1; --k) {
            if (in_mask(mask, k)) { o.push_back(k); }
        }
    } else {
        for (int k = 1; k <= K; ++k) {
            if (in_mask(mask, k)) { o.push_back(k); }
        }
    }
    return o;
}

// class of a key relative to a model set (computed from the case, never from the result)
template <typename M>
std::string key_class(M const& m, int k)
{
    if (m.count(k) != 0) { return "present"; }
    if (m.empty()) { return "absent+empty-set"; }
    return m.upper_bound(k) == m.end() ? "absent+no-successor" : "absent+successor";
}

// iterator (a pointer for every tetl container used here) -> offset; -1000 when it does not
// point into [begin, end] of the container
template <typename B, typename I>
long off_of(B const* b, B const* e, I it)
{
    auto const pb = reinterpret_cast<std::uintptr_t>(b);
    auto const pe = reinterpret_cast<std::uintptr_t>(e);
    auto const pi = reinterpret_cast<std::uintptr_t>(static_cast<B const*>(it));
    if (pi < pb || pi > pe || ((pi - pb) % sizeof(B)) != 0) { return -1000; }
    return long((pi - pb) / sizeof(B));
}

template <typename T>
void drain_registry(Cx& cx, std::string const& subject)
{
    if constexpr (mc::is_tracked_v<T>) {
        for (auto const& e : registry().take_errors()) { cx.fail("C03", subject, "lifetime:" + e, e); }
    }
}

template <typename T>
void check_lifetimes(Cx& cx, std::string const& subject, void const* lo, void const* hi, std::size_t expected_live)
{
    if constexpr (mc::is_tracked_v<T>) {
        drain_registry<T>(cx, subject);
        auto const live = registry().live_in(lo, hi);
        if (live != expected_live) {
            cx.fail("C03", subject, "live-count", cat("live objects inside the owner: ", live, ", size() of the owner: ", expected_live));
        }
    }
}

// no object may stay alive inside a scratch buffer whose owner was destroyed
template <typename T>
void check_scratch(Cx& cx, std::string const& subject, void const* lo, void const* hi, char const* what)
{
    if constexpr (mc::is_tracked_v<T>) {
        auto const stray = registry().live_in(lo, hi);
        if (stray != 0) {
            cx.fail("C03", subject, "leak", cat(stray, " element(s) alive in ", what));
            registry().forget_range(lo, hi);
        }
    }
}

// an exact-size heap block holding T(src[i]); destroys the elements at scope exit
template <typename T>
struct SourceRange {
    mc::GuardedBlock<T> blk;
    std::vector<int> const& src;
    explicit SourceRange(std::vector<int> const& s) : blk(s.size()), src(s)
    {
        for (std::size_t i = 0; i < src.size(); ++i) { ::new (static_cast<void*>(blk.data() + i)) T(src[i]); }
    }
    SourceRange(SourceRange const&)            = delete;
    SourceRange& operator=(SourceRange const&) = delete;
    ~SourceRange()
    {
        for (std::size_t i = 0; i < src.size(); ++i) { blk.data()[i].~T(); }
    }
    T const* first() const { return blk.data(); }
    T const* last() const { return blk.data() + src.size(); }
    bool unchanged() const
    {
        for (std::size_t i = 0; i < src.size(); ++i) {
            if (value_of(blk.data()[i]) != src[i]) { return false; }
        }
        return true;
    }
};

// ---------------------------------------------------------------------------------------
// observers shared by every set-like type: iteration + the lookup family for every key
// ---------------------------------------------------------------------------------------
template <typename T, int K, typename Cmp, bool WithReverse, typename V, typename M>
void check_observers(Cx& cx, std::string const& fam, V& v, M const& m, std::size_t cap)
{
    constexpr bool transparent = etl::detail::is_transparent_v<Cmp>;
    V const& cv                = v;
    std::vector<int> const seq(m.begin(), m.end());
    auto const sub = [&](char const* f) { return cat(fam, "::", f); };
    std::string const g = "general";

    cx.eq("C09", sub("size"), g, "size()", std::size_t(cv.size()), m.size());
    cx.eq("C09", sub("empty"), g, "empty()", cv.empty(), m.empty());
    cx.eq("C09", sub("max_size"), g, "max_size()", std::size_t(cv.max_size()), cap);
    if constexpr (requires { cv.full(); }) { cx.eq("C09", sub("full"), g, "full()", cv.full(), m.size() == cap); }
    cx.eq("C09", sub("begin/end"), g, "end()-begin()", long(cv.end() - cv.begin()), long(m.size()));
    cx.eq("C09", sub("begin/end"), g, "cend()-cbegin()", long(cv.cend() - cv.cbegin()), long(m.size()));
    cx.eq("C09", sub("begin/end"), g, "non-const end()-begin()", long(v.end() - v.begin()), long(m.size()));
    if (std::size_t(cv.size()) != m.size() || std::size_t(cv.end() - cv.begin()) != m.size()) { return; }

    // forward iteration, and the invariant: strictly ascending under the comparator
    {
        std::vector<int> got;
        for (auto it = cv.begin(); it != cv.end(); ++it) { got.push_back(value_of(*it)); }
        if (got != seq) { cx.fail("C09", sub("begin/end"), g, cat("iteration: tetl=", mc::show_seq(got), " model=", mc::show_seq(seq))); }
        std::vector<int> got2;
        for (auto& e : v) { got2.push_back(value_of(e)); }
        if (got2 != seq) { cx.fail("C09", sub("begin/end"), g, cat("non-const iteration: tetl=", mc::show_seq(got2), " model=", mc::show_seq(seq))); }
        Cmp const cmp{};
        for (auto it = cv.begin(); it != cv.end() && it + 1 != cv.end(); ++it) {
            if (!cmp(*it, *(it + 1)) || cmp(*(it + 1), *it)) {
                cx.fail("C09", sub("<invariant>"), "strictly-ascending", cat("not strictly ascending under the comparator: ", mc::show_seq(got)));
                break;
            }
        }
    }
    if constexpr (WithReverse) {
        std::vector<int> const rseq(seq.rbegin(), seq.rend());
        std::vector<int> a, b, c;
        for (auto it = cv.rbegin(); it != cv.rend(); ++it) { a.push_back(value_of(*it)); }
        for (auto it = cv.crbegin(); it != cv.crend(); ++it) { b.push_back(value_of(*it)); }
        for (auto it = v.rbegin(); it != v.rend(); ++it) { c.push_back(value_of(*it)); }
        if (a != rseq) { cx.fail("C09", sub("rbegin/rend"), g, cat("const reverse iteration: tetl=", mc::show_seq(a), " model=", mc::show_seq(rseq))); }
        if (b != rseq) { cx.fail("C09", sub("rbegin/rend"), g, cat("crbegin..crend: tetl=", mc::show_seq(b), " model=", mc::show_seq(rseq))); }
        if (c != rseq) { cx.fail("C09", sub("rbegin/rend"), g, cat("non-const reverse iteration: tetl=", mc::show_seq(c), " model=", mc::show_seq(rseq))); }
    }

    // key_comp()/value_comp() order the keys like the comparator
    if constexpr (requires { cv.key_comp(); }) {
        auto const kc = cv.key_comp();
        auto const vc = cv.value_comp();
        for (int a = 1; a <= 2; ++a) {
            for (int b = 1; b <= 2; ++b) {
                T const x(a);
                T const y(b);
                bool const want = CmpInfo<Cmp>::desc ? a > b : a < b;
                cx.eq("C09", sub("key_comp"), g, "key_comp()(a,b)", bool(kc(x, y)), want);
                cx.eq("C09", sub("value_comp"), g, "value_comp()(a,b)", bool(vc(x, y)), want);
            }
        }
    }

    auto const moff = [&](auto it) { return long(std::distance(m.begin(), it)); };
    auto const voff = [&](auto it) { return off_of<T>(cv.begin(), cv.end(), it); };
    for (int k = 0; k <= K + 1; ++k) {
        auto const cls     = key_class(m, k);
        long const w_find  = moff(m.find(k));
        long const w_lower = moff(m.lower_bound(k));
        long const w_upper = moff(m.upper_bound(k));
        auto const w_count = std::size_t(m.count(k));
        // one lambda per key form: key_type, and (transparent comparators) long / WKey
        auto const all = [&](auto const& key, char const* form) {
            auto const s = [&](char const* f) { return cat(fam, "::", f, "(", form, ")"); };
            {
                auto it = v.find(key);
                cx.eq("C09", s("find"), cls, "find, non-const", voff(it), w_find);
            }
            {
                auto it = cv.find(key);
                cx.eq("C09", s("find"), cls, "find, const", voff(it), w_find);
            }
            cx.eq("C09", s("contains"), cls, "contains", bool(cv.contains(key)), w_count == 1);
            cx.eq("C09", s("count"), cls, "count", std::size_t(cv.count(key)), w_count);
            {
                auto it = v.lower_bound(key);
                cx.eq("C09", s("lower_bound"), cls, "lower_bound, non-const", voff(it), w_lower);
            }
            {
                auto it = cv.lower_bound(key);
                cx.eq("C09", s("lower_bound"), cls, "lower_bound, const", voff(it), w_lower);
            }
            {
                auto it = v.upper_bound(key);
                cx.eq("C09", s("upper_bound"), cls, "upper_bound, non-const", voff(it), w_upper);
            }
            {
                auto it = cv.upper_bound(key);
                cx.eq("C09", s("upper_bound"), cls, "upper_bound, const", voff(it), w_upper);
            }
            // static_set::equal_range is declared to return a single iterator and its body does not
            // compile (API gap): only a pair-returning equal_range is exercised
            using er_t = decltype(cv.equal_range(key));
            if constexpr (!std::is_convertible_v<er_t, T const*>) {
                {
                    auto pr = v.equal_range(key);
                    cx.eq("C09", s("equal_range"), cls, "equal_range.first, non-const", voff(pr.first), w_lower);
                    cx.eq("C09", s("equal_range"), cls, "equal_range.second, non-const", voff(pr.second), w_upper);
                }
                {
                    auto pr = cv.equal_range(key);
                    cx.eq("C09", s("equal_range"), cls, "equal_range.first, const", voff(pr.first), w_lower);
                    cx.eq("C09", s("equal_range"), cls, "equal_range.second, const", voff(pr.second), w_upper);
                }
            }
        };
        {
            T const key(k);
            all(key, "key");
        }
        if constexpr (transparent) {
            if constexpr (std::is_same_v<T, int>) {
                long const lk = k;
                all(lk, "K=long");
            }
            WKey const wk{k};
            all(wk, "K=wrapper");
        }
    }
    drain_registry<T>(cx, sub("<observers>"));
}

// ---------------------------------------------------------------------------------------
// actions
// ---------------------------------------------------------------------------------------
enum Kind : int {
    ins_l,
    ins_r,
    emplace_k,
    ins_hint_l,
    ins_hint_r,
    emplace_hint_k,
    ins_range,
    erase_key,
    erase_it,
    erase_cit,
    erase_range,
    clear_k,
    self_copy_assign,
    self_swap,
    self_swap_free,
    copy_construct,
    move_construct,
    ctor_range,
    ctor_container,
    ctor_su_container,
    ctor_su_range,
    extract_k,
    extract_replace,
    replace_k,
    erase_if_mask,
    full_probe,
    // binary
    swap_member,
    swap_free,
    copy_assign,
    move_assign,
    relational,
};

struct Action {
    int k, a, b, c;
};

// =======================================================================================
// static_set<T,N,Cmp>  (Flat = false)   /   flat_set<T, static_vector<T,N>, Cmp>  (Flat = true)
// =======================================================================================
template <bool Flat, typename T, std::size_t N, typename Cmp, int K, bool RawKey = false>
struct SetSys {
    using C      = etl::static_vector<T, N>;
    using V      = std::conditional_t<Flat, etl::flat_set<T, C, Cmp>, etl::static_set<T, N, Cmp>>;
    using Action = ::Action;
    static constexpr bool desc    = CmpInfo<Cmp>::desc;
    static constexpr bool trivial = std::is_trivially_copyable_v<T>;
    using MCmp                    = std::conditional_t<desc, std::greater<int>, std::less<int>>;
    using M                       = std::set<int, MCmp>;
    static constexpr unsigned all_masks = 1U << K;
#if defined(MC_FLAVOUR_CHK)
    static constexpr bool probes = Flat && std::is_same_v<T, int> && N > 0;
#else
    static constexpr bool probes = false;
#endif

    struct State {
        alignas(alignof(V) > 16 ? alignof(V) : 16) unsigned char buf[sizeof(V) + 32];
        V* v;
        M m;
        bool dead{false};
        explicit State(unsigned char poison)
        {
            std::memset(buf, poison, sizeof buf);
            v = ::new (static_cast<void*>(buf)) V; // default-initialisation
        }
        State(State const&)            = delete;
        State& operator=(State const&) = delete;
        ~State()
        {
            if (!dead) { v->~V(); }
        }
        void const* lo() const { return buf; }
        void const* hi() const { return buf + sizeof buf; }
    };

    int seq_len;
    explicit SetSys(int seqLen) : seq_len(seqLen) { }

    std::string family() const { return Flat ? "flat_set" : "static_set"; }
    std::string name() const
    {
        if constexpr (Flat) {
            return cat("flat_set<", tname<T>(), ",static_vector<", N, ">,", CmpInfo<Cmp>::name(), ">");
        } else {
            return cat("static_set<", tname<T>(), ",", N, ",", CmpInfo<Cmp>::name(), ">");
        }
    }
    std::vector<std::vector<int>> const& pool() const { return seqs(K, seq_len); }

    std::string subject(Action const& a) const
    {
        auto const f = family();
        switch (a.k) {
        case ins_l: return f + "::insert(const&)";
        case ins_r: return f + "::insert(&&)";
        case emplace_k: return f + "::emplace";
        case ins_hint_l: return f + "::insert(hint,const&)";
        case ins_hint_r: return f + "::insert(hint,&&)";
        case emplace_hint_k: return f + "::emplace_hint";
        case ins_range: return f + "::insert(first,last)";
        case erase_key: return f + "::erase(key)";
        case erase_it: return f + "::erase(iterator)";
        case erase_cit: return f + "::erase(const_iterator)";
        case erase_range: return f + "::erase(first,last)";
        case clear_k: return f + "::clear";
        case self_copy_assign: return f + "::operator=(const&)";
        case self_swap: return f + "::swap";
        case self_swap_free: return cat("swap(", f, "&,", f, "&)");
        case copy_construct: return cat(f, "::", f, "(const&)");
        case move_construct: return cat(f, "::", f, "(&&)");
        case ctor_range: return cat(f, "::", f, "(first,last)");
        case ctor_container: return cat(f, "::", f, "(container)");
        case ctor_su_container: return cat(f, "::", f, "(sorted_unique,container)");
        case ctor_su_range: return cat(f, "::", f, "(sorted_unique,first,last)");
        case extract_k: return f + "::extract";
        case extract_replace: return f + "::extract";
        case replace_k: return f + "::replace";
        case erase_if_mask: return cat("erase_if(", f, "&,pred)");
        case full_probe: return f + "::emplace";
        case swap_member: return f + "::swap";
        case swap_free: return cat("swap(", f, "&,", f, "&)");
        case copy_assign: return f + "::operator=(const&)";
        case move_assign: return f + "::operator=(&&)";
        case relational: return f + "::<relational operators>";
        default: return f + "::?";
        }
    }

    std::string show(Action const& a) const
    {
        auto const sq = [&](int i) { return mc::show_seq(pool()[std::size_t(i)]); };
        auto const mk = [&](int mask) { return mc::show_seq(mask_keys(unsigned(mask), K, desc)); };
        switch (a.k) {
        case ins_l: return cat("insert(const& ", a.a, ")");
        case ins_r: return cat("insert(&& ", a.a, ")");
        case emplace_k: return cat("emplace(", a.a, ")");
        case ins_hint_l: return cat("insert(begin+", a.a, ", const& ", a.b, ")");
        case ins_hint_r: return cat("insert(begin+", a.a, ", && ", a.b, ")");
        case emplace_hint_k: return cat("emplace_hint(begin+", a.a, ", ", a.b, ")");
        case ins_range: return cat("insert(first,last over ", sq(a.a), ")");
        case erase_key: return cat("erase(key ", a.a, ")");
        case erase_it: return cat("erase(begin+", a.a, ")");
        case erase_cit: return cat("erase(cbegin+", a.a, ")");
        case erase_range: return cat("erase(begin+", a.a, ", begin+", a.b, ")");
        case clear_k: return "clear()";
        case self_copy_assign: return "s = s";
        case self_swap: return "s.swap(s)";
        case self_swap_free: return "swap(s, s)";
        case copy_construct: return "s = copy-constructed from s";
        case move_construct: return "s = move-constructed from s";
        case ctor_range: return cat("s = set(first,last over ", sq(a.a), ")");
        case ctor_container: return cat("s = set(container ", sq(a.a), ")");
        case ctor_su_container: return cat("s = set(sorted_unique, container ", mk(a.a), ")");
        case ctor_su_range: return cat("s = set(sorted_unique, first,last over ", mk(a.a), ")");
        case extract_k: return "move(s).extract()";
        case extract_replace: return "c = move(s).extract(); s.replace(move(c))";
        case replace_k: return cat("replace(container ", mk(a.a), ")");
        case erase_if_mask: return cat("erase_if(s, key in ", mk(a.a), ")");
        case full_probe: {
            char const* forms[] = {"emplace", "insert(const&)", "insert(&&)", "insert(begin, const&)"};
            return cat(forms[a.b], " of new key ", a.a, " into the full set");
        }
        case swap_member: return "s.swap(other)";
        case swap_free: return "swap(s, other)";
        case copy_assign: return "s = other";
        case move_assign: return "s = move(other)";
        case relational: return "s <=> other (==,!=,<,<=,>,>=)";
        default: return "?";
        }
    }

    void unary(State const& st, std::vector<Action>& out) const
    {
        M const& m  = st.m;
        int const s = int(m.size());
        int const n = int(N);
        for (int k = 1; k <= K; ++k) {
            bool const present = m.count(k) != 0;
            // static_set reports failure for a new key in a full set: valid in every state.
            // flat_set over a fixed-capacity container: a new key needs room (container precondition).
            bool const valid = !Flat || present || s < n;
            if (valid) {
                out.push_back({ins_l, k, 0, 0});
                out.push_back({ins_r, k, 0, 0});
                out.push_back({emplace_k, k, 0, 0});
                if constexpr (Flat) {
                    for (int p = 0; p <= s; ++p) {
                        out.push_back({ins_hint_l, p, k, 0});
                        out.push_back({ins_hint_r, p, k, 0});
                        out.push_back({emplace_hint_k, p, k, 0});
                    }
                }
            } else if constexpr (probes) {
                for (int form = 0; form < 4; ++form) { out.push_back({full_probe, k, form, 0}); }
            }
        }
        for (int k = 0; k <= K + 1; ++k) { out.push_back({erase_key, k, 0, 0}); }
        for (int p = 0; p < s; ++p) {
            out.push_back({erase_it, p, 0, 0});
            if constexpr (Flat) { out.push_back({erase_cit, p, 0, 0}); }
        }
        for (int f = 0; f <= s; ++f) {
            for (int l = f; l <= s; ++l) { out.push_back({erase_range, f, l, 0}); }
        }
        out.push_back({clear_k, 0, 0, 0});
        auto const& pl = pool();
        for (int i = 0; i < int(pl.size()); ++i) {
            auto const& q = pl[std::size_t(i)];
            M u           = m;
            u.insert(q.begin(), q.end());
            if (int(u.size()) <= n) { out.push_back({ins_range, i, 0, 0}); }
            if (int(q.size()) <= n) {
                out.push_back({ctor_range, i, 0, 0});
                if constexpr (Flat) { out.push_back({ctor_container, i, 0, 0}); }
            }
        }
        if constexpr (Flat) {
            for (unsigned mask = 0; mask < all_masks; ++mask) {
                if (popcount(mask) <= n) {
                    out.push_back({replace_k, int(mask), 0, 0});
                    out.push_back({ctor_su_container, int(mask), 0, 0});
                    out.push_back({ctor_su_range, int(mask), 0, 0});
                }
                out.push_back({erase_if_mask, int(mask), 0, 0});
            }
            out.push_back({extract_k, 0, 0, 0});
            out.push_back({extract_replace, 0, 0, 0});
        }
        out.push_back({self_copy_assign, 0, 0, 0});
        out.push_back({self_swap, 0, 0, 0});
        out.push_back({self_swap_free, 0, 0, 0});
        out.push_back({copy_construct, 0, 0, 0});
        out.push_back({move_construct, 0, 0, 0});
    }

    void binary(std::vector<Action>& out) const
    {
        out.push_back({swap_member, 0, 0, 0});
        out.push_back({swap_free, 0, 0, 0});
        out.push_back({copy_assign, 0, 0, 0});
        out.push_back({move_assign, 0, 0, 0});
        out.push_back({relational, 0, 0, 0});
    }

    static long voff(V const& v, T const* it) { return off_of<T>(v.begin(), v.end(), it); }

    // content + size of the implementation equal the model (iteration order = comparator order)
    bool same(Cx& cx, std::string const& subj, std::string const& cls, V const& v, M const& m, char const* what) const
    {
        if (std::size_t(v.size()) != m.size()) {
            cx.fail("C09", subj, cls, cat(what, ": size tetl=", v.size(), " model=", m.size(), " (model ", mc::show_seq(m), ")"));
            return false;
        }
        std::size_t i = 0;
        for (int want : m) {
            int const got = value_of(*(v.begin() + i));
            if (got != want) {
                cx.fail("C09", subj, cls, cat(what, ": element ", i, " tetl=", got, " model=", want, " (model ", mc::show_seq(m), ")"));
                return false;
            }
            ++i;
        }
        return true;
    }

    bool same_container(Cx& cx, std::string const& subj, std::string const& cls, C const& c, M const& m, char const* what) const
    {
        std::vector<int> got;
        for (std::size_t i = 0; i < c.size() && i < N; ++i) { got.push_back(value_of(c.data()[i])); }
        std::vector<int> const want(m.begin(), m.end());
        if (c.size() != m.size() || got != want) {
            cx.fail("C09", subj, cls, cat(what, ": tetl=", mc::show_seq(got), " (size ", c.size(), ") model=", mc::show_seq(want)));
            return false;
        }
        return true;
    }

    // destroys the current object and constructs a new one in the state's (re-poisoned) storage
    template <typename Make>
    void reconstruct(State& s, Make&& make) const
    {
        s.v->~V();
        std::memset(s.buf, 0xAA, sizeof s.buf);
        s.v = make(static_cast<void*>(s.buf));
    }

    C container_of(std::vector<int> const& keys) const
    {
        C c;
        for (int k : keys) { c.emplace_back(k); }
        return c;
    }

    void apply(State& s, Action const& a, State* p, Cx& cx)
    {
        V& v             = *s.v;
        M& m             = s.m;
        auto const subj  = subject(a);
        std::string cls  = "general";
        long ri          = -2; // returned position / count, implementation
        long rm          = -2; // ... model
        bool check_other = false;
        bool const full  = m.size() == N;

        switch (a.k) {
        case ins_l:
        case ins_r:
        case emplace_k:
        case ins_hint_l:
        case ins_hint_r:
        case emplace_hint_k: {
            bool const hinted  = a.k == ins_hint_l || a.k == ins_hint_r || a.k == emplace_hint_k;
            int const key      = hinted ? a.b : a.a;
            bool const present = m.count(key) != 0;
            cls                = cat(full ? "full+" : "", present ? "duplicate" : "new");
            long inserted      = -1;
            T const* pos       = nullptr;
            if constexpr (Flat) {
                if (hinted) {
                    auto hint = v.cbegin() + a.a;
                    if (a.k == ins_hint_l) {
                        T const x(key);
                        auto it = v.insert(hint, x);
                        pos     = it;
                    } else if (a.k == ins_hint_r) {
                        T x(key);
                        auto it = v.insert(hint, std::move(x));
                        pos     = it;
                    } else {
                        auto it = v.emplace_hint(hint, key);
                        pos     = it;
                    }
                }
            }
            if (!hinted) {
                if (a.k == ins_l) {
                    T const x(key);
                    auto r   = v.insert(x);
                    pos      = r.first;
                    inserted = r.second ? 1 : 0;
                } else if (a.k == ins_r) {
                    T x(key);
                    auto r   = v.insert(std::move(x));
                    pos      = r.first;
                    inserted = r.second ? 1 : 0;
                } else {
                    auto r   = v.emplace(key);
                    pos      = r.first;
                    inserted = r.second ? 1 : 0;
                }
            }
            if (full && !present) {
                // only static_set gets here: failure must be reported, the set stays as it was
                if (inserted != 0) { cx.fail("C09", subj, cls, "inserting a new key into a full set reported success"); }
            } else {
                auto mr          = m.insert(key);
                long const moffs = long(std::distance(m.begin(), mr.first));
                long const voffs = voff(v, pos);
                if (!hinted && inserted != (mr.second ? 1 : 0)) {
                    cx.fail("C09", subj, cls, cat("inserted flag: tetl=", inserted, " model=", mr.second ? 1 : 0));
                }
                if (voffs != moffs) {
                    cx.fail("C09", subj, cls,
                        cat("returned iterator: tetl=", voffs == -1000 ? std::string("<not an iterator into the set>") : cat("begin+", voffs),
                            " model=begin+", moffs));
                }
            }
            break;
        }
        case ins_range: {
            auto const& src = pool()[std::size_t(a.a)];
            bool dup        = false;
            for (int x : src) { dup = dup || m.count(x) != 0; }
            cls = src.empty() ? "empty-range" : (dup ? "range-with-present-keys" : "range");
            {
                SourceRange<T> r(src);
                v.insert(r.first(), r.last());
                if (!r.unchanged()) { cx.fail("C09", subj, cls, "insert(first,last) changed its source range"); }
                if (!r.blk.intact()) { cx.fail("C02", subj, "canary", "wrote outside the source range"); }
            }
            m.insert(src.begin(), src.end());
            break;
        }
        case erase_key: {
            cls = key_class(m, a.a);
            T const x(a.a);
            ri = long(v.erase(x));
            rm = long(m.erase(a.a));
            break;
        }
        case erase_it: {
            cls      = a.a + 1 == int(m.size()) ? "last" : "not-last";
            auto it  = v.erase(v.begin() + a.a);
            ri       = voff(v, it);
            auto mit = m.erase(std::next(m.begin(), a.a));
            rm       = long(std::distance(m.begin(), mit));
            break;
        }
        case erase_cit: {
            if constexpr (Flat) {
                cls      = a.a + 1 == int(m.size()) ? "last" : "not-last";
                auto it  = v.erase(v.cbegin() + a.a);
                ri       = voff(v, it);
                auto mit = m.erase(std::next(m.begin(), a.a));
                rm       = long(std::distance(m.begin(), mit));
            }
            break;
        }
        case erase_range: {
            int const len = a.b - a.a;
            cls           = cat(len == 0 ? "empty-range" : (len == 1 ? "one-element" : "several-elements"), (len > 0 && a.b == int(m.size())) ? "+to-end" : "");
            if constexpr (Flat) {
                auto it = v.erase(v.cbegin() + a.a, v.cbegin() + a.b);
                ri      = voff(v, it);
            } else {
                auto it = v.erase(v.begin() + a.a, v.begin() + a.b);
                ri      = voff(v, it);
            }
            auto mit = m.erase(std::next(m.begin(), a.a), std::next(m.begin(), a.b));
            rm       = long(std::distance(m.begin(), mit));
            break;
        }
        case clear_k: {
            v.clear();
            m.clear();
            break;
        }
        case self_copy_assign: {
            cls      = "self";
            V& alias = v;
            v        = alias;
            if (std::size_t(v.size()) != m.size()) {
                cx.fail("C03", subj, "self-assignment-changes-value", cat("size after s = s: tetl=", v.size(), " before=", m.size()));
                check_lifetimes<T>(cx, subj, s.lo(), s.hi(), v.size());
                return;
            }
            break;
        }
        case self_swap:
        case self_swap_free: {
            cls = "self";
            if (a.k == self_swap) {
                v.swap(v);
            } else {
                using etl::swap;
                swap(v, v);
            }
            if (std::size_t(v.size()) != m.size()) {
                cx.fail("C03", subj, "self-swap-changes-value", cat("size after swapping s with itself: tetl=", v.size(), " before=", m.size()));
                check_lifetimes<T>(cx, subj, s.lo(), s.hi(), v.size());
                return;
            }
            break;
        }
        case copy_construct: {
            {
                V copy(static_cast<V const&>(v));
                same(cx, subj, cls, copy, m, "copy");
                // independence: mutate the copy, the source must not change
                copy.clear();
                if constexpr (N > 0) { copy.emplace(K); }
                if (!same(cx, subj, cls, v, m, "source after mutating its copy")) { return; }
            }
            alignas(V) unsigned char tmp[sizeof(V)];
            std::memset(tmp, 0x5A, sizeof tmp);
            V* t = ::new (static_cast<void*>(tmp)) V(static_cast<V const&>(v));
            reconstruct(s, [&](void* at) { return ::new (at) V(static_cast<V const&>(*t)); });
            t->~V();
            check_scratch<T>(cx, subj, tmp, tmp + sizeof tmp, "a destroyed copy");
            break;
        }
        case move_construct: {
            alignas(V) unsigned char tmp[sizeof(V)];
            std::memset(tmp, 0x5A, sizeof tmp);
            V* t = ::new (static_cast<void*>(tmp)) V(std::move(v));
            same(cx, subj, cls, *t, m, "moved-to object");
            // the source only has to stay a valid object
            if (std::size_t(v.size()) > N) { cx.fail("C03", subj, "moved-from-invalid", cat("moved-from size ", v.size())); }
            v.clear();
            reconstruct(s, [&](void* at) { return ::new (at) V(std::move(*t)); });
            t->clear();
            t->~V();
            check_scratch<T>(cx, subj, tmp, tmp + sizeof tmp, "a destroyed moved-from object");
            break;
        }
        case ctor_range:
        case ctor_container: {
            auto const& src = pool()[std::size_t(a.a)];
            M fresh(src.begin(), src.end());
            bool const sorted = std::is_sorted(src.begin(), src.end(), MCmp{});
            cls               = cat(sorted ? "sorted" : "unsorted", fresh.size() != src.size() ? "+duplicates" : "");
            {
                SourceRange<T> r(src);
                if (a.k == ctor_range) {
                    reconstruct(s, [&](void* at) { return ::new (at) V(r.first(), r.last()); });
                } else {
                    if constexpr (Flat) {
                        C const c(r.first(), r.last());
                        reconstruct(s, [&](void* at) { return ::new (at) V(c); });
                    }
                }
                if (!r.unchanged()) { cx.fail("C09", subj, cls, "the constructor changed its source range"); }
                if (!r.blk.intact()) { cx.fail("C02", subj, "canary", "wrote outside the source range"); }
            }
            m = std::move(fresh);
            break;
        }
        case ctor_su_container:
        case ctor_su_range:
        case replace_k: {
            if constexpr (Flat) {
                auto const keys = mask_keys(unsigned(a.a), K, desc);
                cls             = keys.empty() ? "empty-container" : "general";
                if (a.k == ctor_su_container) {
                    C c = container_of(keys);
                    reconstruct(s, [&](void* at) { return ::new (at) V(etl::sorted_unique, c); });
                } else if (a.k == ctor_su_range) {
                    SourceRange<T> r(keys);
                    reconstruct(s, [&](void* at) { return ::new (at) V(etl::sorted_unique, r.first(), r.last()); });
                } else {
                    C c = container_of(keys);
                    v.replace(std::move(c));
                    if (c.size() > N) { cx.fail("C03", subj, "moved-from-invalid", cat("moved-from container size ", c.size())); }
                }
                m = M(keys.begin(), keys.end());
            }
            break;
        }
        case extract_k:
        case extract_replace: {
            if constexpr (Flat) {
                cls = m.empty() ? "empty-set" : "non-empty-set";
                {
                    C c = std::move(v).extract();
                    if (!same_container(cx, subj, cls, c, m, "extracted container")) { return; }
                    // [flat.set.modifiers]: *this is emptied
                    if (!v.empty() || v.size() != 0) {
                        cx.fail("C09", subj, cls, cat("the set still holds ", v.size(), " element(s) after extract()"));
                        return;
                    }
                    if (a.k == extract_replace) {
                        v.replace(std::move(c));
                    } else {
                        m.clear();
                    }
                }
            }
            break;
        }
        case erase_if_mask: {
            if constexpr (Flat) {
                unsigned const mask = unsigned(a.a);
                bool any            = false;
                bool every          = !m.empty();
                for (int x : m) {
                    any   = any || in_mask(mask, x);
                    every = every && in_mask(mask, x);
                }
                cls = !any ? "matches-none" : (every ? "matches-all" : "matches-some");
                ri  = long(etl::erase_if(v, [&](T const& e) { return in_mask(mask, value_of(e)); }));
                rm  = long(std::erase_if(m, [&](int e) { return in_mask(mask, e); }));
            }
            break;
        }
        case full_probe: {
            if constexpr (probes) {
                // a new key does not fit: the backing container's contract must stop the call
                // before anything is modified (checked build only; the call is not made elsewhere)
                cls             = "full+new";
                int const key   = a.a;
                mc::Trap const t = mc::guarded([&] {
                    if (a.b == 0) {
                        (void)v.emplace(key);
                    } else if (a.b == 1) {
                        int const x = key;
                        (void)v.insert(x);
                    } else if (a.b == 2) {
                        int x = key;
                        (void)v.insert(std::move(x));
                    } else {
                        int const x = key;
                        (void)v.insert(v.cbegin(), x);
                    }
                });
                if (t != mc::Trap::assert_fired) {
                    cx.fail("C09", subj, cls, cat("no contract failure was reported (", mc::trap_name(t), "); set size is now ", v.size()));
                    s.dead = true; // the object may have overflowed its storage: do not touch it again
                    return;
                }
            }
            break;
        }
        case swap_member:
        case swap_free: {
            if (a.k == swap_member) {
                v.swap(*p->v);
            } else {
                using etl::swap;
                swap(v, *p->v);
            }
            m.swap(p->m);
            check_other = true;
            break;
        }
        case copy_assign: {
            V& ret = (v = static_cast<V const&>(*p->v));
            if (&ret != &v) { cx.fail("C09", subj, cls, "operator= did not return *this"); }
            m           = p->m;
            check_other = true;
            break;
        }
        case move_assign: {
            v = std::move(*p->v);
            m = p->m;
            if (std::size_t(p->v->size()) > N) { cx.fail("C03", subj, "moved-from-invalid", cat("moved-from size ", p->v->size())); }
            // moved-from source: only required to be valid; normalise it
            p->v->clear();
            p->m.clear();
            check_other = true;
            break;
        }
        case relational: {
            V const& x = v;
            V const& y = *p->v;
            M const& mx = m;
            M const& my = p->m;
            cls         = mx == my ? "equal" : (mx.size() == my.size() ? "same-size" : "different-size");
            cx.eq("C09", subj, cls, "==", bool(x == y), mx == my);
            cx.eq("C09", subj, cls, "!=", bool(x != y), mx != my);
            cx.eq("C09", subj, cls, "<", bool(x < y), mx < my);
            cx.eq("C09", subj, cls, "<=", bool(x <= y), mx <= my);
            cx.eq("C09", subj, cls, ">", bool(x > y), mx > my);
            cx.eq("C09", subj, cls, ">=", bool(x >= y), mx >= my);
            break;
        }
        default: break;
        }
        if (ri != rm) {
            cx.fail("C09", subj, cls,
                cat("returned position/count: tetl=", ri == -1000 ? std::string("<not an iterator into the set>") : cat(ri), " model=", rm));
        }
        same(cx, subj, cls, *s.v, s.m, "after the operation");
        if (std::size_t(s.v->max_size()) != N) { cx.fail("C09", subj, cls, cat("max_size() = ", s.v->max_size())); }
        check_lifetimes<T>(cx, subj, s.lo(), s.hi(), s.v->size()); // C03: as many live keys as the set says it holds
        if (check_other && p != nullptr) {
            same(cx, subj, cls, *p->v, p->m, "other operand after the operation");
            check_lifetimes<T>(cx, subj, p->lo(), p->hi(), p->v->size());
        }
    }

    void observe(State const& st, Cx& cx) const { check_observers<T, K, Cmp, true>(cx, family(), *st.v, st.m, N); }

    std::string key(State const& st) const
    {
        std::string k;
        for (int x : st.m) { k += char('0' + x); }
        k += '|';
        if constexpr (RawKey && trivial) {
            k.append(reinterpret_cast<char const*>(st.v), sizeof(V));
        } else {
            k += obs(st);
        }
        return k;
    }
    std::string obs(State const& st) const
    {
        std::string o = cat(st.v->size(), ":");
        auto const n  = std::min<std::size_t>(st.v->size(), N);
        for (std::size_t i = 0; i < n; ++i) { o += cat(value_of(*(st.v->begin() + i)), ","); }
        return o;
    }
    void retire(State& st, Cx& cx) const
    {
        if (st.dead) { return; }
        st.v->~V();
        st.dead = true;
        if constexpr (mc::is_tracked_v<T>) {
            auto const subj = cat(family(), "::~", family());
            for (auto const& e : registry().take_errors()) { cx.fail("C03", subj, "lifetime:" + e, e); }
            auto const live = registry().live_in(st.lo(), st.hi());
            if (live != 0) {
                cx.fail("C03", subj, "leak", cat(live, " element(s) still alive after the owner was destroyed"));
                registry().forget_range(st.lo(), st.hi());
            }
        }
    }
};

template <typename Sys>
void explore(mc::Reporter& r, int seqLen, std::size_t maxPartners)
{
    Sys sys{seqLen};
    mc::ExploreLimits lim;
    lim.max_states   = 3000000;
    lim.max_depth    = 1000;
    lim.max_partners = maxPartners;
    mc::Explorer<Sys> ex(sys, r, lim);
    ex.run();
}

// =======================================================================================
// flat_multiset: construction from every container of length <= L over {1..K}
// =======================================================================================
template <typename C, typename T>
C fill_container(std::vector<int> const& keys)
{
    C c{};
    for (int k : keys) {
        if constexpr (requires { c.emplace_back(k); }) {
            c.emplace_back(k);
        } else {
            (void)c.try_emplace_back(k);
        }
    }
    return c;
}

template <typename T, typename C, typename Cmp, int K, bool WithReverse>
void multiset_sweep(mc::Reporter& r, std::string const& cfg, int maxLen, std::size_t cap)
{
    using MS            = etl::flat_multiset<T, C, Cmp>;
    constexpr bool desc = CmpInfo<Cmp>::desc;
    using MCmp          = std::conditional_t<desc, std::greater<int>, std::less<int>>;
    std::string const subj_c  = "flat_multiset::flat_multiset(container)";
    std::string const subj_se = "flat_multiset::flat_multiset(sorted_equivalent,container)";
    std::string kase;
    Cx cx{r, [&] { return kase; }};
    auto read = [](auto const& ms) {
        std::vector<int> o;
        for (auto it = ms.begin(); it != ms.end(); ++it) { o.push_back(value_of(*it)); }
        return o;
    };
    // default construction
    {
        kase         = cat(cfg, ": default construction");
        mc::Trap t   = mc::guarded([&] {
            MS ms;
            MS ms2{Cmp{}};
            if (!ms.empty() || ms.size() != 0 || ms.begin() != ms.end() || !ms2.empty()) {
                cx.fail("C09", "flat_multiset::flat_multiset()", "general", "a default-constructed flat_multiset is not empty");
            }
            if (std::size_t(ms.max_size()) != cap) { cx.fail("C09", "flat_multiset::max_size", "general", cat("max_size() = ", ms.max_size())); }
        });
        if (t != mc::Trap::none) { cx.fail(t == mc::Trap::assert_fired ? "C05" : "C02", "flat_multiset::flat_multiset()", mc::trap_name(t), mc::describe_trap(t)); }
        drain_registry<T>(cx, "flat_multiset::flat_multiset()");
    }
    auto const& pl = seqs(K, maxLen);
    std::size_t done = 0;
    for (auto const& src : pl) {
        if (src.size() > cap) { continue; }
        if ((++done & 1023) == 0 && r.deadline_passed()) {
            r.not_exhaustive("deadline");
            break;
        }
        std::vector<int> want = src;
        std::stable_sort(want.begin(), want.end(), MCmp{});
        bool const sorted = want == src;
        bool const dups   = std::set<int>(src.begin(), src.end()).size() != src.size();
        auto const cls    = cat(src.empty() ? "empty" : (sorted ? "sorted" : "unsorted"), dups ? "+duplicates" : "");
        kase              = cat(cfg, ": flat_multiset(container ", mc::show_seq(src), ")");
        auto const san0   = mc::san_hits();
        std::string subj  = subj_c;
        mc::Trap t        = mc::guarded([&] {
            {
                MS ms(fill_container<C, T>(src));
                MS const& cms = ms;
                auto const got = read(cms);
                r.outcome(mc::hash_str(mc::show_seq(got)));
                if (got != want) { cx.fail("C09", subj, cls, cat("iteration: tetl=", mc::show_seq(got), " expected=", mc::show_seq(want))); }
                if (read(ms) != got) { cx.fail("C09", "flat_multiset::begin/end", cls, "const and non-const iteration differ"); }
                std::vector<int> viac;
                for (auto it = cms.cbegin(); it != cms.cend(); ++it) { viac.push_back(value_of(*it)); }
                if (viac != got) { cx.fail("C09", "flat_multiset::begin/end", cls, "cbegin..cend differs from begin..end"); }
                Cmp const cmp{};
                for (std::size_t i = 0; i + 1 < got.size(); ++i) {
                    if (cmp(*(cms.begin() + (i + 1)), *(cms.begin() + i))) {
                        cx.fail("C09", "flat_multiset::<invariant>", "weakly-ascending", cat("not weakly ascending under the comparator: ", mc::show_seq(got)));
                        break;
                    }
                }
                cx.eq("C09", "flat_multiset::size", cls, "size()", std::size_t(cms.size()), src.size());
                cx.eq("C09", "flat_multiset::empty", cls, "empty()", cms.empty(), src.empty());
                cx.eq("C09", "flat_multiset::max_size", cls, "max_size()", std::size_t(cms.max_size()), cap);
                if constexpr (WithReverse) {
                    std::vector<int> const rwant(got.rbegin(), got.rend());
                    std::vector<int> a, b, c;
                    for (auto it = cms.rbegin(); it != cms.rend(); ++it) { a.push_back(value_of(*it)); }
                    for (auto it = cms.crbegin(); it != cms.crend(); ++it) { b.push_back(value_of(*it)); }
                    for (auto it = ms.rbegin(); it != ms.rend(); ++it) { c.push_back(value_of(*it)); }
                    if (a != rwant || b != rwant || c != rwant) { cx.fail("C09", "flat_multiset::rbegin/rend", cls, "reverse iteration is not the reverse of forward iteration"); }
                }
            }
            drain_registry<T>(cx, subj);
            if (sorted) {
                subj = subj_se;
                {
                    MS ms(etl::sorted_equivalent, fill_container<C, T>(src));
                    auto const got = read(ms);
                    if (got != src) { cx.fail("C09", subj, cls, cat("iteration: tetl=", mc::show_seq(got), " expected=", mc::show_seq(src))); }
                }
                drain_registry<T>(cx, subj);
                r.count("evaluations");
            }
        });
        if (t != mc::Trap::none) {
            cx.fail(t == mc::Trap::assert_fired || t == mc::Trap::exception_raised ? "C05" : "C02", subj,
                t == mc::Trap::assert_fired ? "handler-on-valid-call" : mc::trap_name(t), mc::describe_trap(t));
            if constexpr (mc::is_tracked_v<T>) {
                (void)registry().take_errors();
                registry().slots.clear();
            }
        } else if (mc::san_hits() != san0) {
            cx.fail("C02", subj, "sanitizer-report", "ASan/UBSan reported during this valid call (see job log)");
        }
        if constexpr (mc::is_tracked_v<T>) {
            if (registry().live_count() != 0) {
                cx.fail("C03", subj_c, "leak", cat(registry().live_count(), " element(s) alive after every object was destroyed"));
                registry().slots.clear();
            }
        }
        r.count("evaluations");
        if (!sorted) { r.count("distinct_nontrivial"); }
        if (r.wants_sample() || (done % 997) == 0) { r.sample(kase); }
    }
    r.count("configurations");
}

// =======================================================================================
// flat_set over an inplace_vector: inplace_vector has no emplace(pos)/erase (API gap), so only
// flat_set(sorted_unique, container) and the observers can be instantiated; every subset of the
// universe that fits is constructed and looked up
// =======================================================================================
template <typename T, std::size_t N, typename Cmp, int K>
void inplace_lookup_sweep(mc::Reporter& r, std::string const& cfg)
{
    using C             = etl::inplace_vector<T, N>;
    using V             = etl::flat_set<T, C, Cmp>;
    constexpr bool desc = CmpInfo<Cmp>::desc;
    using M             = std::set<int, std::conditional_t<desc, std::greater<int>, std::less<int>>>;
    std::string kase;
    Cx cx{r, [&] { return kase; }};
    for (unsigned mask = 0; mask < (1U << K); ++mask) {
        if (popcount(mask) > int(N)) { continue; }
        auto const keys = mask_keys(mask, K, desc);
        kase            = cat(cfg, ": flat_set(sorted_unique, container ", mc::show_seq(keys), ") => <observers>");
        M const m(keys.begin(), keys.end());
        auto const san0 = mc::san_hits();
        mc::Trap t      = mc::guarded([&] {
            V v(etl::sorted_unique, fill_container<C, T>(keys));
            check_observers<T, K, Cmp, false>(cx, "flat_set", v, m, N);
            std::string o;
            for (auto it = v.begin(); it != v.end(); ++it) { o += char('0' + value_of(*it)); }
            r.outcome(mc::hash_str(o));
        });
        if (t != mc::Trap::none) {
            cx.fail(t == mc::Trap::assert_fired || t == mc::Trap::exception_raised ? "C05" : "C02", "flat_set::<observers>",
                cat("observer-", mc::trap_name(t)), mc::describe_trap(t));
        } else if (mc::san_hits() != san0) {
            cx.fail("C02", "flat_set::<observers>", "sanitizer-report", "ASan/UBSan reported inside an observer");
        }
        r.count("evaluations", std::uint64_t(K + 2) * 8);
        if (mask != 0) { r.count("distinct_nontrivial"); }
        if (r.wants_sample()) { r.sample(kase); }
    }
    r.count("configurations");
}

// ---------------------------------------------------------------------------------------
// job table helpers
// ---------------------------------------------------------------------------------------
template <bool Flat, typename T, std::size_t N, typename Cmp, int K, bool RawKey = false>
void add_set(mc::Main& m, std::vector<std::string> tiers, int seqLen, std::size_t maxPartners = 100000)
{
    using Sys = SetSys<Flat, T, N, Cmp, K, RawKey>;
    m.job(cat(Sys{seqLen}.name(), "/k", K, "/len", seqLen, RawKey ? "/rawkey" : ""), tiers,
        [=](mc::Reporter& r) { explore<Sys>(r, seqLen, maxPartners); });
}

template <typename T, std::size_t N, typename Cmp, int K>
void add_multiset(mc::Main& m, std::vector<std::string> tiers, int maxLen)
{
    auto const cfg = cat("flat_multiset<", tname<T>(), ",static_vector<", N, ">,", CmpInfo<Cmp>::name(), ">");
    m.job(cat(cfg, "/k", K, "/len", maxLen), tiers,
        [=](mc::Reporter& r) { multiset_sweep<T, etl::static_vector<T, N>, Cmp, K, true>(r, cfg, maxLen, N); });
}
template <typename T, std::size_t N, typename Cmp, int K>
void add_multiset_inplace(mc::Main& m, std::vector<std::string> tiers, int maxLen)
{
    auto const cfg = cat("flat_multiset<", tname<T>(), ",inplace_vector<", N, ">,", CmpInfo<Cmp>::name(), ">");
    m.job(cat(cfg, "/k", K, "/len", maxLen), tiers,
        [=](mc::Reporter& r) { multiset_sweep<T, etl::inplace_vector<T, N>, Cmp, K, false>(r, cfg, maxLen, N); });
}
template <typename T, std::size_t N, typename Cmp, int K>
void add_inplace_lookup(mc::Main& m, std::vector<std::string> tiers)
{
    auto const cfg = cat("flat_set<", tname<T>(), ",inplace_vector<", N, ">,", CmpInfo<Cmp>::name(), ">");
    m.job(cat(cfg, "/k", K, "/lookups"), tiers, [=](mc::Reporter& r) { inplace_lookup_sweep<T, N, Cmp, K>(r, cfg); });
}

} // namespace

int main(int argc, char** argv)
{
    mc::Main m(argc, argv);
    std::vector<std::string> const both{"quick", "thorough"};
    std::vector<std::string> const th{"thorough"};
    using L  = etl::less<int>;
    using G  = etl::greater<int>;
    using LT = etl::less<>;
    using GT = etl::greater<>;
    using LTr = etl::less<TCM>;
    using GTr = etl::greater<TCM>;
    constexpr bool S = false; // static_set
    constexpr bool F = true;  // flat_set
    // (MC_PART splits the instantiations over several binaries so that they compile in parallel;
    //  parts 12-14 hold the configurations that only the thorough tier runs)
#if !defined(MC_PART) || MC_PART == 1
    add_set<S, int, 0, L, 6>(m, both, 2);
    add_set<S, int, 1, L, 6>(m, both, 2);
    add_set<S, int, 3, L, 6>(m, both, 3);
    add_set<S, int, 4, L, 6>(m, both, 3);
#endif
#if !defined(MC_PART) || MC_PART == 2
    add_set<S, int, 1, G, 6>(m, both, 2);
    add_set<S, int, 3, G, 6>(m, both, 3);
    add_set<S, int, 4, G, 6>(m, both, 3);
#endif
#if !defined(MC_PART) || MC_PART == 3
    add_set<S, int, 0, LT, 6>(m, both, 2);
    add_set<S, int, 1, LT, 6>(m, both, 2);
    add_set<S, int, 3, LT, 6>(m, both, 3);
    add_set<S, int, 4, LT, 6>(m, both, 3);
#endif
#if !defined(MC_PART) || MC_PART == 4
    add_set<S, int, 4, GT, 6>(m, both, 3);
    add_set<S, int, 3, L, 4, true>(m, both, 2, 400);
#endif
#if !defined(MC_PART) || MC_PART == 5
    add_set<F, int, 0, L, 6>(m, both, 2);
    add_set<F, int, 1, L, 6>(m, both, 2);
    add_set<F, int, 3, L, 6>(m, both, 3);
    add_set<F, int, 4, L, 6>(m, both, 3);
#endif
#if !defined(MC_PART) || MC_PART == 6
    add_set<F, int, 1, G, 6>(m, both, 2);
    add_set<F, int, 3, G, 6>(m, both, 3);
    add_set<F, int, 4, G, 6>(m, both, 3);
#endif
#if !defined(MC_PART) || MC_PART == 7
    add_set<F, int, 0, LT, 6>(m, both, 2);
    add_set<F, int, 1, LT, 6>(m, both, 2);
    add_set<F, int, 3, LT, 6>(m, both, 3);
    add_set<F, int, 4, LT, 6>(m, both, 3);
#endif
#if !defined(MC_PART) || MC_PART == 8
    add_set<F, int, 4, GT, 6>(m, both, 3);
    add_set<F, int, 3, L, 4, true>(m, both, 2, 400);
#endif
#if !defined(MC_PART) || MC_PART == 9
    // tracked keys (lifetime registry, C03)
    add_set<S, TCM, 3, LTr, 5>(m, both, 3);
    add_set<S, TCM, 4, GTr, 5>(m, both, 2);
    add_set<S, TCM, 3, LT, 5>(m, both, 2);
#endif
#if !defined(MC_PART) || MC_PART == 10
    add_set<F, TCM, 3, LTr, 5>(m, both, 3);
    add_set<F, TCM, 4, GTr, 5>(m, both, 2);
    add_set<F, TCM, 3, LT, 5>(m, both, 2);
#endif
#if !defined(MC_PART) || MC_PART == 11
    add_multiset<int, 4, L, 6>(m, both, 4);
    add_multiset<int, 4, G, 6>(m, both, 4);
    add_multiset<int, 4, LT, 6>(m, both, 4);
    add_multiset<int, 1, L, 6>(m, both, 1);
    add_multiset<int, 0, L, 6>(m, both, 0);
    add_multiset<TCM, 4, LTr, 4>(m, both, 4);
    add_multiset<TCM, 3, GTr, 4>(m, both, 3);
    add_multiset_inplace<int, 4, L, 6>(m, both, 4);
    add_multiset_inplace<int, 4, G, 6>(m, both, 4);
    add_inplace_lookup<int, 4, L, 6>(m, both);
    add_inplace_lookup<int, 4, G, 6>(m, both);
    add_inplace_lookup<int, 4, LT, 6>(m, both);
    add_inplace_lookup<int, 4, GT, 6>(m, both);
#endif
#if !defined(MC_PART) || MC_PART == 12
    add_set<S, int, 5, L, 7>(m, th, 3);
    add_set<S, int, 5, GT, 7>(m, th, 3);
    add_set<S, int, 4, G, 5, true>(m, th, 2, 600);
    add_set<S, TCM, 4, LTr, 6>(m, th, 3);
#endif
#if !defined(MC_PART) || MC_PART == 13
    add_set<F, int, 5, L, 7>(m, th, 3);
    add_set<F, int, 5, GT, 7>(m, th, 3);
    add_set<F, int, 4, G, 5, true>(m, th, 2, 600);
    add_set<F, TCM, 4, LTr, 6>(m, th, 3);
#endif
#if !defined(MC_PART) || MC_PART == 14
    add_multiset<int, 6, L, 6>(m, th, 6);
    add_multiset<int, 6, G, 6>(m, th, 6);
    add_multiset<int, 8, L, 3>(m, th, 8);
    add_multiset<TCM, 5, LTr, 5>(m, th, 5);
    add_multiset_inplace<int, 6, L, 6>(m, th, 6);
    add_inplace_lookup<int, 6, LT, 8>(m, th);
#endif
    return m.run();
}
