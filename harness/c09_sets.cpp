// C09: static_set / flat_set explored to a fixed point in lock-step with std::set<int,Cmp>
// (the model always holds plain ints; Tracked keys map to their value), flat_multiset
// construction swept over every container of bounded length, and flat_set over an
// inplace_vector (which has no positional insert/erase) checked on the lookup half.
//
// Key universe {1..K}; lookups additionally use 0 and K+1 (absent, before/after everything).
// Also reports C03 (lifetime registry, Tracked keys), C05 (handler on a valid call) and C02
// (sanitizer/crash) through the explorer.
//
// Round 2 widened the configurations (parts 15-22 of the job table):
//  * comparators whose equivalence classes are larger than identity (keys ordered by key/2), plain
//    and transparent, and a comparator whose direction is run-time state (flat_set only);
//  * Tracked move-only / copy-only keys; flat_set over an unbounded, always-reallocating heap
//    vector (HeapVec); flat_multiset over the same, with equivalence comparators and all key kinds;
//  * capacities 6-8 with universe capacity+2, fill/clear/refill histories keyed on raw bytes;
//  * a heterogeneous key type that converts to ANOTHER key than it compares as; dereference of
//    the iterators returned by insert/erase/find;
//  * relational operators and observers over stale storage for all ordered pairs of subsets.
#include "explore.hpp"
#include "tracked.hpp"

#include <etl/flat_set.hpp>
#include <etl/functional.hpp>
#include <etl/inplace_vector.hpp>
#include <etl/set.hpp>
#include <etl/utility.hpp>
#include <etl/vector.hpp>

#include <algorithm>
#include <iterator>
#include <memory>
#include <set>
#include <type_traits>
#include <vector>

using mc::cat;
using mc::Cx;
using mc::registry;
using mc::value_of;

namespace {

using TCM = mc::Tracked<mc::copy_move>;
using TMO = mc::Tracked<mc::move_only>;
using TCO = mc::Tracked<mc::copy_only>;
using TR3 = mc::Tracked<mc::rule3>; // defaulted (trivial) copy assignment, user-provided copy constructor + destructor, no move members

template <typename T>
std::string tname()
{
    if constexpr (std::is_same_v<T, int>) {
        return "int";
    } else if constexpr (std::is_same_v<T, TMO>) {
        return "Tracked<move-only>";
    } else if constexpr (std::is_same_v<T, TCO>) {
        return "Tracked<copy-only>";
    } else if constexpr (std::is_same_v<T, TR3>) {
        return "Tracked<rule-of-3-violator>";
    } else {
        return "Tracked<copy+move>";
    }
}

// ---------------------------------------------------------------------------------------
// comparators: tetl side (template argument) -> model side (a comparator over int), name
// ---------------------------------------------------------------------------------------
// wrapper key for heterogeneous lookup through a transparent comparator
struct WKey {
    int v;
};
// heterogeneous key that is also implicitly convertible to int, but to ANOTHER value (v + 3): an
// implementation that converts the argument to key_type instead of handing it to the transparent
// comparator looks up the wrong key
struct CKey {
    int v;
    operator int() const { return v + 3; } // NOLINT
};
// heterogeneous key that is equivalent to SEVERAL distinct stored keys: PKey{h} matches every int x with x / 2 == h
// (added after seeded breakage c09_equal_range_single_search: equal_range(K) returned {lb, lb+1} "because keys are
// unique" - true for key_type, false for a transparent key that spans a run of stored keys)
struct PKey {
    int h;
};
inline bool operator<(PKey a, int b) { return a.h < b / 2; }
inline bool operator<(int a, PKey b) { return a / 2 < b.h; }
inline bool operator>(PKey a, int b) { return a.h > b / 2; }
inline bool operator>(int a, PKey b) { return a / 2 > b.h; }
inline bool operator<(WKey a, int b) { return a.v < b; }
inline bool operator<(int a, WKey b) { return a < b.v; }
inline bool operator>(WKey a, int b) { return a.v > b; }
inline bool operator>(int a, WKey b) { return a > b.v; }
inline bool operator<(CKey a, int b) { return a.v < b; }
inline bool operator<(int a, CKey b) { return a < b.v; }
inline bool operator>(CKey a, int b) { return a.v > b; }
inline bool operator>(int a, CKey b) { return a > b.v; }
template <int F, int G>
bool operator<(WKey a, mc::Tracked<F, G> const& b) { return a.v < b.value(); }
template <int F, int G>
bool operator<(mc::Tracked<F, G> const& a, WKey b) { return a.value() < b.v; }
template <int F, int G>
bool operator>(WKey a, mc::Tracked<F, G> const& b) { return a.v > b.value(); }
template <int F, int G>
bool operator>(mc::Tracked<F, G> const& a, WKey b) { return a.value() > b.v; }

// logical value of anything a comparator of this file may be handed
inline int hv(int x) { return x; }
inline int hv(long x) { return int(x); }
inline int hv(WKey k) { return k.v; }
inline int hv(CKey k) { return k.v; }
template <int F, int G>
int hv(mc::Tracked<F, G> const& t) { return t.value(); }

// comparators that induce equivalence classes larger than identity: keys are ordered by key/2, so
// {0,1}, {2,3}, {4,5}, ... are pairwise equivalent but not equal
struct HalfLess {
    template <typename A>
    bool operator()(A const& a, A const& b) const { return hv(a) / 2 < hv(b) / 2; }
};
struct HalfGreater {
    template <typename A>
    bool operator()(A const& a, A const& b) const { return hv(a) / 2 > hv(b) / 2; }
};
struct HalfLessT {
    using is_transparent = void;
    template <typename A, typename B>
    bool operator()(A const& a, B const& b) const { return hv(a) / 2 < hv(b) / 2; }
};
// stateful comparator: the direction is decided at run time by the object handed to a constructor
struct DirCmp {
    bool desc{false};
    template <typename A>
    bool operator()(A const& a, A const& b) const { return desc ? hv(b) < hv(a) : hv(a) < hv(b); }
};

template <typename Cmp>
struct CmpInfo;
template <typename U>
struct CmpInfo<etl::less<U>> {
    using model                    = std::less<int>;
    static constexpr bool stateful = false;
    static constexpr bool classes  = false; // equivalence == identity
    static model to_model(etl::less<U> const&) { return {}; }
    static std::string name() { return std::is_void_v<U> ? "less<>" : "less"; }
};
template <typename U>
struct CmpInfo<etl::greater<U>> {
    using model                    = std::greater<int>;
    static constexpr bool stateful = false;
    static constexpr bool classes  = false;
    static model to_model(etl::greater<U> const&) { return {}; }
    static std::string name() { return std::is_void_v<U> ? "greater<>" : "greater"; }
};
template <>
struct CmpInfo<HalfLess> {
    using model                    = HalfLess;
    static constexpr bool stateful = false;
    static constexpr bool classes  = true;
    static model to_model(HalfLess const&) { return {}; }
    static std::string name() { return "less-by-key/2"; }
};
template <>
struct CmpInfo<HalfGreater> {
    using model                    = HalfGreater;
    static constexpr bool stateful = false;
    static constexpr bool classes  = true;
    static model to_model(HalfGreater const&) { return {}; }
    static std::string name() { return "greater-by-key/2"; }
};
template <>
struct CmpInfo<HalfLessT> {
    using model                    = HalfLess;
    static constexpr bool stateful = false;
    static constexpr bool classes  = true;
    static model to_model(HalfLessT const&) { return {}; }
    static std::string name() { return "transparent-less-by-key/2"; }
};
template <>
struct CmpInfo<DirCmp> {
    using model                    = DirCmp;
    static constexpr bool stateful = true;
    static constexpr bool classes  = false;
    static model to_model(DirCmp const& c) { return c; }
    static std::string name() { return "run-time-direction"; }
};

// ---------------------------------------------------------------------------------------
// pools of external arguments (deterministic order, simplest first)
// ---------------------------------------------------------------------------------------
// all sequences of length <= L over {1..K}
inline std::vector<std::vector<int>> const& seqs(int K, int L)
{
    static std::map<std::pair<int, int>, std::vector<std::vector<int>>> cache;
    auto& p = cache[{K, L}];
    if (p.empty()) {
        p.push_back({});
        std::size_t lo = 0;
        for (int len = 1; len <= L; ++len) {
            std::size_t hi = p.size();
            for (std::size_t i = lo; i < hi; ++i) {
                for (int v = 1; v <= K; ++v) {
                    auto s = p[i];
                    s.push_back(v);
                    p.push_back(s);
                }
            }
            lo = hi;
        }
    }
    return p;
}

inline int popcount(unsigned m)
{
    int n = 0;
    for (; m != 0; m &= m - 1) { ++n; }
    return n;
}
inline bool in_mask(unsigned mask, int key) { return key >= 1 && key <= 30 && ((mask >> (key - 1)) & 1U) != 0; }

// keys of `mask` in the order of the (model) comparator; with a comparator that has equivalence
// classes the result is only "sorted unique" when no two keys of the mask are equivalent
template <typename MC>
std::vector<int> mask_keys(unsigned mask, int K, MC const& mc)
{
    std::vector<int> o;
    for (int k = 1; k <= K; ++k) {
        if (in_mask(mask, k)) { o.push_back(k); }
    }
    std::stable_sort(o.begin(), o.end(), mc);
    return o;
}
template <typename MC>
bool mask_unique(unsigned mask, int K, MC const& mc)
{
    auto const o = mask_keys(mask, K, mc);
    for (std::size_t i = 0; i + 1 < o.size(); ++i) {
        if (!mc(o[i], o[i + 1])) { return false; }
    }
    return true;
}

// class of a key relative to a model set (computed from the case, never from the result)
template <typename M>
std::string key_class(M const& m, int k)
{
    if (m.count(k) != 0) { return *m.find(k) == k ? "present" : "equivalent-not-equal"; }
    if (m.empty()) { return "absent+empty-set"; }
    return m.upper_bound(k) == m.end() ? "absent+no-successor" : "absent+successor";
}

// iterator (a pointer or a contiguous iterator) -> offset; -1000 when it does not point into
// [begin, end] of the container
template <typename B, typename IB, typename I>
long off_of(IB b, IB e, I it)
{
    auto const pb = reinterpret_cast<std::uintptr_t>(static_cast<B const*>(std::to_address(b)));
    auto const pe = reinterpret_cast<std::uintptr_t>(static_cast<B const*>(std::to_address(e)));
    auto const pi = reinterpret_cast<std::uintptr_t>(static_cast<B const*>(std::to_address(it)));
    if (pi < pb || pi > pe || ((pi - pb) % sizeof(B)) != 0) { return -1000; }
    return long((pi - pb) / sizeof(B));
}

template <typename T>
void drain_registry(Cx& cx, std::string const& subject)
{
    if constexpr (mc::is_tracked_v<T>) {
        for (auto const& e : registry().take_errors()) { cx.fail("C03", subject, "lifetime:" + e, e); }
    }
}

template <typename T>
void check_lifetimes(Cx& cx, std::string const& subject, void const* lo, void const* hi, std::size_t expected_live)
{
    if constexpr (mc::is_tracked_v<T>) {
        drain_registry<T>(cx, subject);
        auto const live = registry().live_in(lo, hi);
        if (live != expected_live) {
            cx.fail("C03", subject, "live-count", cat("live objects inside the owner: ", live, ", size() of the owner: ", expected_live));
        }
    }
}

// no object may stay alive inside a scratch buffer whose owner was destroyed
template <typename T>
void check_scratch(Cx& cx, std::string const& subject, void const* lo, void const* hi, char const* what)
{
    if constexpr (mc::is_tracked_v<T>) {
        auto const stray = registry().live_in(lo, hi);
        if (stray != 0) {
            cx.fail("C03", subject, "leak", cat(stray, " element(s) alive in ", what));
            registry().forget_range(lo, hi);
        }
    }
}

// an exact-size heap block holding T(src[i]); destroys the elements at scope exit
template <typename T>
struct SourceRange {
    mc::GuardedBlock<T> blk;
    std::vector<int> const& src;
    explicit SourceRange(std::vector<int> const& s) : blk(s.size()), src(s)
    {
        for (std::size_t i = 0; i < src.size(); ++i) { ::new (static_cast<void*>(blk.data() + i)) T(src[i]); }
    }
    SourceRange(SourceRange const&)            = delete;
    SourceRange& operator=(SourceRange const&) = delete;
    ~SourceRange()
    {
        for (std::size_t i = 0; i < src.size(); ++i) { blk.data()[i].~T(); }
    }
    T const* first() const { return blk.data(); }
    T const* last() const { return blk.data() + src.size(); }
    T* mfirst() { return blk.data(); }
    T* mlast() { return blk.data() + src.size(); }
    bool unchanged() const
    {
        for (std::size_t i = 0; i < src.size(); ++i) {
            if (value_of(blk.data()[i]) != src[i]) { return false; }
        }
        return true;
    }
};

// input iterator whose operator* yields an rvalue (what a set of move-only keys is filled from)
template <typename T>
struct MoveIt {
    using iterator_category = etl::input_iterator_tag;
    using value_type        = T;
    using difference_type   = std::ptrdiff_t;
    using pointer           = T*;
    using reference         = T&&;
    T* p;
    T&& operator*() const { return std::move(*p); }
    MoveIt& operator++()
    {
        ++p;
        return *this;
    }
    MoveIt operator++(int)
    {
        auto c = *this;
        ++p;
        return c;
    }
    friend bool operator==(MoveIt a, MoveIt b) { return a.p == b.p; }
    friend bool operator!=(MoveIt a, MoveIt b) { return a.p != b.p; }
};

// ---------------------------------------------------------------------------------------
// observers shared by every set-like type: iteration + the lookup family for every key
// ---------------------------------------------------------------------------------------
template <typename T, int K, typename Cmp, bool WithReverse, typename V, typename M>
void check_observers(Cx& cx, std::string const& fam, V& v, M const& m, std::size_t cap)
{
    constexpr bool transparent = etl::detail::is_transparent_v<Cmp>;
    V const& cv                = v;
    std::vector<int> const seq(m.begin(), m.end());
    auto const sub = [&](char const* f) { return cat(fam, "::", f); };
    std::string const g = "general";

    cx.eq("C09", sub("size"), g, "size()", std::size_t(cv.size()), m.size());
    cx.eq("C09", sub("empty"), g, "empty()", cv.empty(), m.empty());
    cx.eq("C09", sub("max_size"), g, "max_size()", std::size_t(cv.max_size()), cap);
    if constexpr (requires { cv.full(); }) { cx.eq("C09", sub("full"), g, "full()", cv.full(), m.size() == cap); }
    cx.eq("C09", sub("begin/end"), g, "end()-begin()", long(cv.end() - cv.begin()), long(m.size()));
    cx.eq("C09", sub("begin/end"), g, "cend()-cbegin()", long(cv.cend() - cv.cbegin()), long(m.size()));
    cx.eq("C09", sub("begin/end"), g, "non-const end()-begin()", long(v.end() - v.begin()), long(m.size()));
    if (std::size_t(cv.size()) != m.size() || std::size_t(cv.end() - cv.begin()) != m.size()) { return; }

    // forward iteration, and the invariant: strictly ascending under the comparator
    {
        std::vector<int> got;
        for (auto it = cv.begin(); it != cv.end(); ++it) { got.push_back(value_of(*it)); }
        if (got != seq) { cx.fail("C09", sub("begin/end"), g, cat("iteration: tetl=", mc::show_seq(got), " model=", mc::show_seq(seq))); }
        std::vector<int> got2;
        for (auto& e : v) { got2.push_back(value_of(e)); }
        if (got2 != seq) { cx.fail("C09", sub("begin/end"), g, cat("non-const iteration: tetl=", mc::show_seq(got2), " model=", mc::show_seq(seq))); }
        auto const mcmp = m.key_comp();
        for (std::size_t i = 0; i + 1 < got.size(); ++i) {
            if (!mcmp(got[i], got[i + 1]) || mcmp(got[i + 1], got[i])) {
                cx.fail("C09", sub("<invariant>"), "strictly-ascending", cat("not strictly ascending under the comparator: ", mc::show_seq(got)));
                break;
            }
        }
    }
    if constexpr (WithReverse) {
        std::vector<int> const rseq(seq.rbegin(), seq.rend());
        std::vector<int> a, b, c;
        for (auto it = cv.rbegin(); it != cv.rend(); ++it) { a.push_back(value_of(*it)); }
        for (auto it = cv.crbegin(); it != cv.crend(); ++it) { b.push_back(value_of(*it)); }
        for (auto it = v.rbegin(); it != v.rend(); ++it) { c.push_back(value_of(*it)); }
        if (a != rseq) { cx.fail("C09", sub("rbegin/rend"), g, cat("const reverse iteration: tetl=", mc::show_seq(a), " model=", mc::show_seq(rseq))); }
        if (b != rseq) { cx.fail("C09", sub("rbegin/rend"), g, cat("crbegin..crend: tetl=", mc::show_seq(b), " model=", mc::show_seq(rseq))); }
        if (c != rseq) { cx.fail("C09", sub("rbegin/rend"), g, cat("non-const reverse iteration: tetl=", mc::show_seq(c), " model=", mc::show_seq(rseq))); }
    }

    // key_comp()/value_comp() order the keys like the comparator
    if constexpr (requires { cv.key_comp(); }) {
        auto const kc   = cv.key_comp();
        auto const vc   = cv.value_comp();
        auto const mcmp = m.key_comp();
        for (int a = 1; a <= 3; ++a) {
            for (int b = 1; b <= 3; ++b) {
                T const x(a);
                T const y(b);
                bool const want = mcmp(a, b);
                cx.eq("C09", sub("key_comp"), g, "key_comp()(a,b)", bool(kc(x, y)), want);
                cx.eq("C09", sub("value_comp"), g, "value_comp()(a,b)", bool(vc(x, y)), want);
            }
        }
    }

    auto const moff = [&](auto it) { return long(std::distance(m.begin(), it)); };
    auto const voff = [&](auto it) { return off_of<T>(cv.begin(), cv.end(), it); };
    std::size_t const n = m.size();
    for (int k = 0; k <= K + 1; ++k) {
        auto const cls     = key_class(m, k);
        long const w_find  = moff(m.find(k));
        long const w_lower = moff(m.lower_bound(k));
        long const w_upper = moff(m.upper_bound(k));
        auto const w_count = std::size_t(m.count(k));
        // one lambda per key form: key_type, and (transparent comparators) long / WKey
        auto const all = [&](auto const& key, char const* form) {
            auto const s = [&](char const* f) { return cat(fam, "::", f, "(", form, ")"); };
            {
                auto it = v.find(key);
                cx.eq("C09", s("find"), cls, "find, non-const", voff(it), w_find);
                // the element found is the stored one (an equivalent key is not written over it)
                if (w_find < long(n) && voff(it) == w_find) { cx.eq("C09", s("find"), cls, "*find", value_of(*it), seq[std::size_t(w_find)]); }
            }
            {
                auto it = cv.find(key);
                cx.eq("C09", s("find"), cls, "find, const", voff(it), w_find);
            }
            cx.eq("C09", s("contains"), cls, "contains", bool(cv.contains(key)), w_count == 1);
            cx.eq("C09", s("count"), cls, "count", std::size_t(cv.count(key)), w_count);
            {
                auto it = v.lower_bound(key);
                cx.eq("C09", s("lower_bound"), cls, "lower_bound, non-const", voff(it), w_lower);
            }
            {
                auto it = cv.lower_bound(key);
                cx.eq("C09", s("lower_bound"), cls, "lower_bound, const", voff(it), w_lower);
            }
            {
                auto it = v.upper_bound(key);
                cx.eq("C09", s("upper_bound"), cls, "upper_bound, non-const", voff(it), w_upper);
            }
            {
                auto it = cv.upper_bound(key);
                cx.eq("C09", s("upper_bound"), cls, "upper_bound, const", voff(it), w_upper);
            }
            // static_set::equal_range is declared to return a single iterator and its body does not
            // compile (API gap): only a pair-returning equal_range is exercised
            using er_t = decltype(cv.equal_range(key));
            if constexpr (!std::is_convertible_v<er_t, T const*>) {
                {
                    auto pr = v.equal_range(key);
                    cx.eq("C09", s("equal_range"), cls, "equal_range.first, non-const", voff(pr.first), w_lower);
                    cx.eq("C09", s("equal_range"), cls, "equal_range.second, non-const", voff(pr.second), w_upper);
                }
                {
                    auto pr = cv.equal_range(key);
                    cx.eq("C09", s("equal_range"), cls, "equal_range.first, const", voff(pr.first), w_lower);
                    cx.eq("C09", s("equal_range"), cls, "equal_range.second, const", voff(pr.second), w_upper);
                }
            }
        };
        {
            T const key(k);
            all(key, "key");
        }
        if constexpr (transparent) {
            if constexpr (std::is_same_v<T, int>) {
                long const lk = k;
                all(lk, "K=long");
            }
            WKey const wk{k};
            all(wk, "K=wrapper");
            if constexpr (std::is_same_v<T, int>) {
                CKey const ck{k};
                all(ck, "K=convertible-to-another-key");
            }
        }
    }
    // a key spanning a run of stored keys (only comparators that order ints by value: less<> / greater<>)
    if constexpr (transparent && std::is_same_v<T, int> && !CmpInfo<Cmp>::classes && requires(Cmp c, int x, PKey pk) { c(x, pk); c(pk, x); }) {
        auto const mcmp = m.key_comp();
        for (int h = 0; h <= (K + 1) / 2; ++h) {
            long lower = 0, upper = 0;
            for (int x : seq) {
                bool const before = mcmp(x, 2 * h) && mcmp(x, 2 * h + 1);
                bool const after  = mcmp(2 * h, x) && mcmp(2 * h + 1, x);
                if (before) { ++lower; }
                if (!after) { ++upper; }
            }
            std::string const cls = upper - lower >= 2 ? "key_spans_several_elements" : (upper - lower == 1 ? "key_present" : "key_absent");
            auto const s          = [&](char const* f) { return cat(fam, "::", f, "(K=class-key)"); };
            PKey const key{h};
            auto const in_run = [&](long o) { return upper > lower ? (o >= lower && o < upper) : o == long(n); };
            if (!in_run(voff(v.find(key)))) { cx.fail("C09", s("find"), cls, cat("find, non-const: offset ", voff(v.find(key)), " is not inside the run [", lower, ",", upper, ")")); }
            if (!in_run(voff(cv.find(key)))) { cx.fail("C09", s("find"), cls, cat("find, const: offset ", voff(cv.find(key)), " is not inside the run [", lower, ",", upper, ")")); }
            cx.eq("C09", s("contains"), cls, "contains", bool(cv.contains(key)), upper > lower);
            // count(K) of a unique-key container: std returns the length of the run
            cx.eq("C09", s("count"), cls, "count", long(cv.count(key)), upper - lower);
            cx.eq("C09", s("lower_bound"), cls, "lower_bound, non-const", voff(v.lower_bound(key)), lower);
            cx.eq("C09", s("lower_bound"), cls, "lower_bound, const", voff(cv.lower_bound(key)), lower);
            cx.eq("C09", s("upper_bound"), cls, "upper_bound, non-const", voff(v.upper_bound(key)), upper);
            cx.eq("C09", s("upper_bound"), cls, "upper_bound, const", voff(cv.upper_bound(key)), upper);
            using er_t = decltype(cv.equal_range(key));
            if constexpr (!std::is_convertible_v<er_t, T const*>) {
                auto pr = v.equal_range(key);
                cx.eq("C09", s("equal_range"), cls, "equal_range.first, non-const", voff(pr.first), lower);
                cx.eq("C09", s("equal_range"), cls, "equal_range.second, non-const", voff(pr.second), upper);
                auto cpr = cv.equal_range(key);
                cx.eq("C09", s("equal_range"), cls, "equal_range.first, const", voff(cpr.first), lower);
                cx.eq("C09", s("equal_range"), cls, "equal_range.second, const", voff(cpr.second), upper);
            }
        }
    }
    drain_registry<T>(cx, sub("<observers>"));
}

// ---------------------------------------------------------------------------------------
// actions
// ---------------------------------------------------------------------------------------
enum Kind : int {
    ins_l,
    ins_r,
    emplace_k,
    ins_hint_l,
    ins_hint_r,
    emplace_hint_k,
    ins_range,
    erase_key,
    erase_it,
    erase_cit,
    erase_range,
    clear_k,
    self_copy_assign,
    self_swap,
    self_swap_free,
    copy_construct,
    move_construct,
    ctor_range,
    ctor_container,
    ctor_su_container,
    ctor_su_range,
    extract_k,
    extract_replace,
    replace_k,
    erase_if_mask,
    full_probe,
    ctor_comp,          // flat_set(comp)                          (stateful comparator)
    ctor_range_comp,    // flat_set(first,last,comp)
    ctor_su_range_comp, // flat_set(sorted_unique,first,last,comp)
    refill,             // clear() and insert the same keys again, in reverse order
    // binary
    swap_member,
    swap_free,
    copy_assign,
    move_assign,
    relational,
};

struct Action {
    int k, a, b, c;
};

// =======================================================================================
// static_set<T,N,Cmp>  (Flat = false)   /   flat_set<T, Container, Cmp>  (Flat = true)
// Container: etl::static_vector<T,N> (CK = sv) or std::vector<T> (CK = stdvec, unbounded: N is
// then only a number larger than the universe)
// =======================================================================================
enum ContKind : int { sv = 0, heapvec = 1 };

// An unbounded sequence container with pointer iterators over exact-size heap storage: every
// growth reallocates (so an iterator the adaptor keeps across an insertion dangles, and ASan sees
// it), nothing of static_vector's extras (full(), capacity()) exists.  std::vector itself cannot be
// used: etl::lower_bound / etl::distance reject iterators that carry the std:: category tags (API gap).
template <typename T>
struct HeapVec {
    using value_type             = T;
    using size_type              = std::size_t;
    using difference_type        = std::ptrdiff_t;
    using reference              = T&;
    using const_reference        = T const&;
    using pointer                = T*;
    using const_pointer          = T const*;
    using iterator               = T*;
    using const_iterator         = T const*;
    using reverse_iterator       = etl::reverse_iterator<iterator>;
    using const_reverse_iterator = etl::reverse_iterator<const_iterator>;
    static constexpr size_type limit = size_type(1) << 20;
    std::vector<T> d;

    HeapVec() = default;
    template <typename It>
    HeapVec(It first, It last) : d(first, last)
    {
        d.shrink_to_fit();
    }
    HeapVec(HeapVec const& o) : d(o.d) { d.shrink_to_fit(); }
    HeapVec(HeapVec&& o) noexcept : d(std::move(o.d)) { o.d.clear(); }
    HeapVec& operator=(HeapVec const& o)
    {
        if (this != &o) {
            std::vector<T> n(o.d);
            n.shrink_to_fit();
            d.swap(n);
        }
        return *this;
    }
    HeapVec& operator=(HeapVec&& o) noexcept
    {
        if (this != &o) {
            d = std::move(o.d);
            o.d.clear();
        }
        return *this;
    }
    iterator begin() noexcept { return d.data(); }
    const_iterator begin() const noexcept { return d.data(); }
    const_iterator cbegin() const noexcept { return d.data(); }
    iterator end() noexcept { return d.data() + d.size(); }
    const_iterator end() const noexcept { return d.data() + d.size(); }
    const_iterator cend() const noexcept { return d.data() + d.size(); }
    reverse_iterator rbegin() noexcept { return reverse_iterator(end()); }
    const_reverse_iterator rbegin() const noexcept { return const_reverse_iterator(end()); }
    const_reverse_iterator crbegin() const noexcept { return const_reverse_iterator(end()); }
    reverse_iterator rend() noexcept { return reverse_iterator(begin()); }
    const_reverse_iterator rend() const noexcept { return const_reverse_iterator(begin()); }
    const_reverse_iterator crend() const noexcept { return const_reverse_iterator(begin()); }
    bool empty() const noexcept { return d.empty(); }
    size_type size() const noexcept { return d.size(); }
    size_type max_size() const noexcept { return limit; }
    T* data() noexcept { return d.data(); }
    T const* data() const noexcept { return d.data(); }
    template <typename... A>
    iterator emplace(const_iterator pos, A&&... a)
    {
        auto const off = pos - cbegin();
        std::vector<T> n;
        n.reserve(d.size() + 1);
        for (difference_type i = 0; i < off; ++i) { n.push_back(std::move(d[std::size_t(i)])); }
        n.emplace_back(std::forward<A>(a)...);
        for (auto i = std::size_t(off); i < d.size(); ++i) { n.push_back(std::move(d[i])); }
        d.swap(n);
        return begin() + off;
    }
    template <typename... A>
    reference emplace_back(A&&... a)
    {
        return *emplace(cend(), std::forward<A>(a)...);
    }
    iterator erase(const_iterator pos) { return erase(pos, pos + 1); }
    iterator erase(const_iterator first, const_iterator last)
    {
        auto const off = first - cbegin();
        auto const cnt = last - first;
        if (cnt != 0) {
            std::vector<T> n;
            n.reserve(d.size() - std::size_t(cnt));
            for (std::size_t i = 0; i < d.size(); ++i) {
                if (difference_type(i) < off || difference_type(i) >= off + cnt) { n.push_back(std::move(d[i])); }
            }
            d.swap(n);
        }
        return begin() + off;
    }
    void clear() noexcept { std::vector<T>().swap(d); }
    void swap(HeapVec& o) noexcept { d.swap(o.d); }
    friend void swap(HeapVec& a, HeapVec& b) noexcept { a.swap(b); }
};

template <bool Flat, typename T, std::size_t N, typename Cmp, int K, bool RawKey = false, int CK = sv>
struct SetSys {
    static constexpr bool bounded = CK == sv;
    static_assert(Flat || bounded);
    static_assert(bounded || N > std::size_t(K));
    using C      = std::conditional_t<bounded, etl::static_vector<T, N>, HeapVec<T>>;
    using V      = std::conditional_t<Flat, etl::flat_set<T, C, Cmp>, etl::static_set<T, N, Cmp>>;
    using Action = ::Action;
    using CI     = CmpInfo<Cmp>;
    static constexpr bool stateful = CI::stateful;
    static constexpr bool trivial  = std::is_trivially_copyable_v<T> && bounded;
    static constexpr bool copyable = std::is_copy_constructible_v<T>;
    // static_vector's move assignment is constrained on is_assignable<T&, T&>: over move-only elements
    // it does not exist, and with it go swap / operator=(&&) / replace of the sets (API gap)
    static constexpr bool cont_assignable = std::is_move_assignable_v<C>;
    using MCmp                     = typename CI::model;
    using M                        = std::set<int, MCmp>;
    static constexpr unsigned all_masks = 1U << K;
#if defined(MC_FLAVOUR_CHK)
    static constexpr bool probes = Flat && bounded && std::is_same_v<T, int> && N > 0;
#else
    static constexpr bool probes = false;
#endif
    // masks of keys handed to erase_if / replace / the sorted_unique constructors: every subset of
    // the universe up to K = 8; for larger universes the subsets with at most two keys and those
    // that lack at most two keys (plus, for containers, what still fits)
    static bool mask_enumerated(unsigned mask)
    {
        if constexpr (K <= 8) {
            return true;
        } else {
            int const pc = popcount(mask);
            return pc <= 2 || pc >= K - 2;
        }
    }
    static std::size_t cap()
    {
        if constexpr (bounded) {
            return N;
        } else {
            return std::size_t(C::limit);
        }
    }

    struct State {
        alignas(alignof(V) > 16 ? alignof(V) : 16) unsigned char buf[sizeof(V) + 32];
        V* v;
        M m;
        bool dead{false};
        explicit State(unsigned char poison)
        {
            std::memset(buf, poison, sizeof buf);
            v = ::new (static_cast<void*>(buf)) V; // default-initialisation
        }
        State(State const&)            = delete;
        State& operator=(State const&) = delete;
        ~State()
        {
            if (!dead) { v->~V(); }
        }
        void const* lo() const { return buf; }
        void const* hi() const { return buf + sizeof buf; }
    };

    int seq_len;
    explicit SetSys(int seqLen) : seq_len(seqLen) { }

    std::string family() const { return Flat ? "flat_set" : "static_set"; }
    std::string name() const
    {
        if constexpr (Flat && !bounded) {
            return cat("flat_set<", tname<T>(), ",heap_vector,", CmpInfo<Cmp>::name(), ">");
        } else if constexpr (Flat) {
            return cat("flat_set<", tname<T>(), ",static_vector<", N, ">,", CmpInfo<Cmp>::name(), ">");
        } else {
            return cat("static_set<", tname<T>(), ",", N, ",", CmpInfo<Cmp>::name(), ">");
        }
    }
    std::vector<std::vector<int>> const& pool() const { return seqs(K, seq_len); }

    std::string subject(Action const& a) const
    {
        auto const f = family();
        switch (a.k) {
        case ins_l: return f + "::insert(const&)";
        case ins_r: return f + "::insert(&&)";
        case emplace_k: return f + "::emplace";
        case ins_hint_l: return f + "::insert(hint,const&)";
        case ins_hint_r: return f + "::insert(hint,&&)";
        case emplace_hint_k: return f + "::emplace_hint";
        case ins_range: return f + "::insert(first,last)";
        case erase_key: return f + "::erase(key)";
        case erase_it: return f + "::erase(iterator)";
        case erase_cit: return f + "::erase(const_iterator)";
        case erase_range: return f + "::erase(first,last)";
        case clear_k: return f + "::clear";
        case self_copy_assign: return f + "::operator=(const&)";
        case self_swap: return f + "::swap";
        case self_swap_free: return cat("swap(", f, "&,", f, "&)");
        case copy_construct: return cat(f, "::", f, "(const&)");
        case move_construct: return cat(f, "::", f, "(&&)");
        case ctor_range: return cat(f, "::", f, "(first,last)");
        case ctor_container: return cat(f, "::", f, "(container)");
        case ctor_su_container: return cat(f, "::", f, "(sorted_unique,container)");
        case ctor_su_range: return cat(f, "::", f, "(sorted_unique,first,last)");
        case extract_k: return f + "::extract";
        case extract_replace: return f + "::extract";
        case replace_k: return f + "::replace";
        case erase_if_mask: return cat("erase_if(", f, "&,pred)");
        case full_probe: return f + "::emplace";
        case ctor_comp: return cat(f, "::", f, "(comp)");
        case ctor_range_comp: return cat(f, "::", f, "(first,last,comp)");
        case ctor_su_range_comp: return cat(f, "::", f, "(sorted_unique,first,last,comp)");
        case refill: return f + "::clear";
        case swap_member: return f + "::swap";
        case swap_free: return cat("swap(", f, "&,", f, "&)");
        case copy_assign: return f + "::operator=(const&)";
        case move_assign: return f + "::operator=(&&)";
        case relational: return f + "::<relational operators>";
        default: return f + "::?";
        }
    }

    std::string show(Action const& a) const
    {
        auto const sq = [&](int i) { return mc::show_seq(pool()[std::size_t(i)]); };
        // stateless comparators: keys in comparator order; run-time direction: ascending here, handed
        // over in the order of the comparator in force
        auto const mk  = [&](int mask) { return cat(mc::show_seq(mask_keys(unsigned(mask), K, MCmp{})), stateful ? " (in comparator order)" : ""); };
        auto const dir = [](int d) { return d != 0 ? "descending" : "ascending"; };
        switch (a.k) {
        case ins_l: return cat("insert(const& ", a.a, ")");
        case ins_r: return cat("insert(&& ", a.a, ")");
        case emplace_k: return cat("emplace(", a.a, ")");
        case ins_hint_l: return cat("insert(begin+", a.a, ", const& ", a.b, ")");
        case ins_hint_r: return cat("insert(begin+", a.a, ", && ", a.b, ")");
        case emplace_hint_k: return cat("emplace_hint(begin+", a.a, ", ", a.b, ")");
        case ins_range: return cat("insert(first,last over ", sq(a.a), ")");
        case erase_key: return a.b ? cat("erase(*find(", a.a, ")) [reference to the stored key]") : cat("erase(key ", a.a, ")");
        case erase_it: return cat("erase(begin+", a.a, ")");
        case erase_cit: return cat("erase(cbegin+", a.a, ")");
        case erase_range: return cat("erase(begin+", a.a, ", begin+", a.b, ")");
        case clear_k: return "clear()";
        case self_copy_assign: return "s = s";
        case self_swap: return "s.swap(s)";
        case self_swap_free: return "swap(s, s)";
        case copy_construct: return "s = copy-constructed from s";
        case move_construct: return "s = move-constructed from s";
        case ctor_range: return cat("s = set(first,last over ", sq(a.a), ")");
        case ctor_container: return cat("s = set(container ", sq(a.a), ")");
        case ctor_su_container: return cat("s = set(sorted_unique, container ", mk(a.a), ")");
        case ctor_su_range: return cat("s = set(sorted_unique, first,last over ", mk(a.a), ")");
        case extract_k: return "move(s).extract()";
        case extract_replace: return "c = move(s).extract(); s.replace(move(c))";
        case replace_k: return cat("replace(container ", mk(a.a), ")");
        case erase_if_mask: return cat("erase_if(s, key in ", mk(a.a), ")");
        case full_probe: {
            char const* forms[] = {"emplace", "insert(const&)", "insert(&&)", "insert(begin, const&)"};
            return cat(forms[a.b], " of new key ", a.a, " into the full set");
        }
        case ctor_comp: return cat("s = set(comp ", dir(a.a), ")");
        case ctor_range_comp: return cat("s = set(first,last over ", sq(a.a), ", comp ", dir(a.b), ")");
        case ctor_su_range_comp: return cat("s = set(sorted_unique, first,last over ", mk(a.a), ", comp ", dir(a.b), ")");
        case refill: return "keys = contents; clear(); insert(&&) the keys again in reverse order";
        case swap_member: return "s.swap(other)";
        case swap_free: return "swap(s, other)";
        case copy_assign: return "s = other";
        case move_assign: return "s = move(other)";
        case relational: return "s <=> other (==,!=,<,<=,>,>=)";
        default: return "?";
        }
    }

    void unary(State const& st, std::vector<Action>& out) const
    {
        M const& m      = st.m;
        auto const mcmp = m.key_comp();
        int const s     = int(m.size());
        int const n     = bounded ? int(N) : 1000000;
        for (int k = 1; k <= K; ++k) {
            bool const present = m.count(k) != 0; // an equivalent key is in the set
            // static_set reports failure for a new key in a full set: valid in every state.
            // flat_set over a fixed-capacity container: a new key needs room (container precondition).
            bool const valid = !Flat || present || s < n;
            if (valid) {
                if constexpr (copyable) { out.push_back({ins_l, k, 0, 0}); }
                out.push_back({ins_r, k, 0, 0});
                // static_set::emplace requires a copy constructible key (API gap for move-only keys)
                if constexpr (Flat || copyable) { out.push_back({emplace_k, k, 0, 0}); }
                if constexpr (Flat) {
                    for (int p = 0; p <= s; ++p) {
                        if constexpr (copyable) { out.push_back({ins_hint_l, p, k, 0}); }
                        out.push_back({ins_hint_r, p, k, 0});
                        out.push_back({emplace_hint_k, p, k, 0});
                    }
                }
            } else if constexpr (probes) {
                for (int form = 0; form < 4; ++form) { out.push_back({full_probe, k, form, 0}); }
            }
        }
        for (int k = 0; k <= K + 1; ++k) {
            out.push_back({erase_key, k, 0, 0});
            // the key is a REFERENCE to the stored element: s.erase(*it) (added after seeded breakage
            // c09_erase_key_alias_loop: a loop re-read `key` after the first erase had shifted the elements)
            out.push_back({erase_key, k, 1, 0});
        }
        for (int p = 0; p < s; ++p) {
            out.push_back({erase_it, p, 0, 0});
            if constexpr (Flat) { out.push_back({erase_cit, p, 0, 0}); }
        }
        for (int f = 0; f <= s; ++f) {
            for (int l = f; l <= s; ++l) { out.push_back({erase_range, f, l, 0}); }
        }
        out.push_back({clear_k, 0, 0, 0});
        if (s > 0) { out.push_back({refill, 0, 0, 0}); }
        auto const& pl = pool();
        for (int i = 0; i < int(pl.size()); ++i) {
            auto const& q = pl[std::size_t(i)];
            M u           = m;
            u.insert(q.begin(), q.end());
            if (int(u.size()) <= n) { out.push_back({ins_range, i, 0, 0}); }
            if (int(q.size()) <= n) {
                out.push_back({ctor_range, i, 0, 0});
                if constexpr (Flat && copyable) { out.push_back({ctor_container, i, 0, 0}); }
                if constexpr (Flat && stateful) {
                    out.push_back({ctor_range_comp, i, 0, 0});
                    out.push_back({ctor_range_comp, i, 1, 0});
                }
            }
        }
        if constexpr (Flat) {
            for (unsigned mask = 0; mask < all_masks; ++mask) {
                if (!mask_enumerated(mask)) { continue; }
                if (popcount(mask) <= n) {
                    // a container handed over as "sorted unique" must be that under the comparator in force
                    if constexpr (cont_assignable) {
                        if (mask_unique(mask, K, mcmp)) { out.push_back({replace_k, int(mask), 0, 0}); }
                    }
                    if (mask_unique(mask, K, MCmp{})) {
                        out.push_back({ctor_su_container, int(mask), 0, 0});
                        // (static_vector's range constructor only takes pointers: no moving iterator)
                        if constexpr (copyable) { out.push_back({ctor_su_range, int(mask), 0, 0}); }
                    }
                    if constexpr (stateful) {
                        out.push_back({ctor_su_range_comp, int(mask), 0, 0});
                        out.push_back({ctor_su_range_comp, int(mask), 1, 0});
                    }
                }
                out.push_back({erase_if_mask, int(mask), 0, 0});
            }
            out.push_back({extract_k, 0, 0, 0});
            if constexpr (cont_assignable) { out.push_back({extract_replace, 0, 0, 0}); }
            if constexpr (stateful) {
                out.push_back({ctor_comp, 0, 0, 0});
                out.push_back({ctor_comp, 1, 0, 0});
            }
        }
        if constexpr (copyable) { out.push_back({self_copy_assign, 0, 0, 0}); }
        if constexpr (cont_assignable) {
            out.push_back({self_swap, 0, 0, 0});
            out.push_back({self_swap_free, 0, 0, 0});
        }
        if constexpr (copyable) { out.push_back({copy_construct, 0, 0, 0}); }
        out.push_back({move_construct, 0, 0, 0});
    }

    void binary(std::vector<Action>& out) const
    {
        if constexpr (cont_assignable) {
            out.push_back({swap_member, 0, 0, 0});
            out.push_back({swap_free, 0, 0, 0});
        }
        if constexpr (copyable) { out.push_back({copy_assign, 0, 0, 0}); }
        if constexpr (cont_assignable) { out.push_back({move_assign, 0, 0, 0}); }
        out.push_back({relational, 0, 0, 0});
    }

    template <typename I>
    static long voff(V const& v, I it) { return off_of<T>(v.begin(), v.end(), it); }

    // content + size of the implementation equal the model (iteration order = comparator order)
    bool same(Cx& cx, std::string const& subj, std::string const& cls, V const& v, M const& m, char const* what) const
    {
        if (std::size_t(v.size()) != m.size()) {
            cx.fail("C09", subj, cls, cat(what, ": size tetl=", v.size(), " model=", m.size(), " (model ", mc::show_seq(m), ")"));
            return false;
        }
        std::size_t i = 0;
        for (int want : m) {
            int const got = value_of(*(v.begin() + i));
            if (got != want) {
                cx.fail("C09", subj, cls, cat(what, ": element ", i, " tetl=", got, " model=", want, " (model ", mc::show_seq(m), ")"));
                return false;
            }
            ++i;
        }
        return true;
    }

    bool same_container(Cx& cx, std::string const& subj, std::string const& cls, C const& c, M const& m, char const* what) const
    {
        std::vector<int> got;
        for (std::size_t i = 0; i < c.size() && i < std::min<std::size_t>(N, 64); ++i) { got.push_back(value_of(c.data()[i])); }
        std::vector<int> const want(m.begin(), m.end());
        if (c.size() != m.size() || got != want) {
            cx.fail("C09", subj, cls, cat(what, ": tetl=", mc::show_seq(got), " (size ", c.size(), ") model=", mc::show_seq(want)));
            return false;
        }
        return true;
    }

    // destroys the current object and constructs a new one in the state's (re-poisoned) storage
    template <typename Make>
    void reconstruct(State& s, Make&& make) const
    {
        s.v->~V();
        std::memset(s.buf, 0xAA, sizeof s.buf);
        s.v = make(static_cast<void*>(s.buf));
    }

    C container_of(std::vector<int> const& keys) const
    {
        C c;
        for (int k : keys) { c.emplace_back(k); }
        return c;
    }

    void apply(State& s, Action const& a, State* p, Cx& cx)
    {
        V& v             = *s.v;
        M& m             = s.m;
        auto const subj  = subject(a);
        std::string cls  = "general";
        long ri          = -2; // returned position / count, implementation
        long rm          = -2; // ... model
        bool check_other = false;
        bool const full  = bounded && m.size() == N;

        switch (a.k) {
        case ins_l:
        case ins_r:
        case emplace_k:
        case ins_hint_l:
        case ins_hint_r:
        case emplace_hint_k: {
            bool const hinted  = a.k == ins_hint_l || a.k == ins_hint_r || a.k == emplace_hint_k;
            int const key      = hinted ? a.b : a.a;
            bool const present = m.count(key) != 0;
            // "equivalent": the comparator calls the stored key and the new one equivalent, but they differ
            cls                = cat(full ? "full+" : "", present ? (*m.find(key) == key ? "duplicate" : "equivalent") : "new");
            long inserted      = -1;
            T const* pos       = nullptr;
            if constexpr (Flat) {
                if (hinted) {
                    auto hint = v.cbegin() + a.a;
                    if (a.k == ins_hint_l) {
                        if constexpr (copyable) {
                            T const x(key);
                            auto it = v.insert(hint, x);
                            pos     = std::to_address(it);
                        }
                    } else if (a.k == ins_hint_r) {
                        T x(key);
                        auto it = v.insert(hint, std::move(x));
                        pos     = std::to_address(it);
                    } else {
                        auto it = v.emplace_hint(hint, key);
                        pos     = std::to_address(it);
                    }
                }
            }
            if (!hinted) {
                if (a.k == ins_l) {
                    if constexpr (copyable) {
                        T const x(key);
                        auto r   = v.insert(x);
                        pos      = std::to_address(r.first);
                        inserted = r.second ? 1 : 0;
                    }
                } else if (a.k == ins_r) {
                    T x(key);
                    auto r   = v.insert(std::move(x));
                    pos      = std::to_address(r.first);
                    inserted = r.second ? 1 : 0;
                } else {
                    if constexpr (Flat || copyable) {
                        auto r   = v.emplace(key);
                        pos      = std::to_address(r.first);
                        inserted = r.second ? 1 : 0;
                    }
                }
            }
            if (full && !present) {
                // only static_set gets here: failure must be reported, the set stays as it was
                if (inserted != 0) { cx.fail("C09", subj, cls, "inserting a new key into a full set reported success"); }
            } else {
                auto mr          = m.insert(key);
                long const moffs = long(std::distance(m.begin(), mr.first));
                long const voffs = voff(v, pos);
                if (!hinted && inserted != (mr.second ? 1 : 0)) {
                    cx.fail("C09", subj, cls, cat("inserted flag: tetl=", inserted, " model=", mr.second ? 1 : 0));
                }
                if (voffs != moffs) {
                    cx.fail("C09", subj, cls,
                        cat("returned iterator: tetl=", voffs == -1000 ? std::string("<not an iterator into the set>") : cat("begin+", voffs),
                            " model=begin+", moffs));
                } else if (value_of(*pos) != *mr.first) {
                    // the element the result points at is the one that was in the set first
                    cx.fail("C09", subj, cls, cat("element the returned iterator points at: tetl=", value_of(*pos), " model=", *mr.first));
                }
            }
            break;
        }
        case ins_range: {
            auto const& src = pool()[std::size_t(a.a)];
            bool dup        = false;
            for (int x : src) { dup = dup || m.count(x) != 0; }
            cls = src.empty() ? "empty-range" : (dup ? "range-with-present-keys" : "range");
            {
                SourceRange<T> r(src);
                if constexpr (copyable) {
                    v.insert(r.first(), r.last());
                    if (!r.unchanged()) { cx.fail("C09", subj, cls, "insert(first,last) changed its source range"); }
                } else {
                    v.insert(MoveIt<T>{r.mfirst()}, MoveIt<T>{r.mlast()});
                }
                if (!r.blk.intact()) { cx.fail("C02", subj, "canary", "wrote outside the source range"); }
            }
            m.insert(src.begin(), src.end());
            break;
        }
        case erase_key: {
            cls = key_class(m, a.a);
            T const x(a.a);
            if (a.b == 1) {
                auto const it = v.find(x);
                if (it != v.end()) {
                    cls += "+own_element";
                    ri = long(v.erase(*it)); // std::set::erase(*it) erases that one element
                } else {
                    ri = long(v.erase(x));
                }
            } else {
                ri = long(v.erase(x));
            }
            rm = long(m.erase(a.a));
            break;
        }
        case erase_it: {
            cls      = a.a + 1 == int(m.size()) ? "last" : "not-last";
            auto it  = v.erase(v.begin() + a.a);
            ri       = voff(v, it);
            auto mit = m.erase(std::next(m.begin(), a.a));
            rm       = long(std::distance(m.begin(), mit));
            if (ri == rm && mit != m.end()) { cx.eq("C09", subj, cls, "element behind the erased one (through the returned iterator)", value_of(*it), *mit); }
            break;
        }
        case erase_cit: {
            if constexpr (Flat) {
                cls      = a.a + 1 == int(m.size()) ? "last" : "not-last";
                auto it  = v.erase(v.cbegin() + a.a);
                ri       = voff(v, it);
                auto mit = m.erase(std::next(m.begin(), a.a));
                rm       = long(std::distance(m.begin(), mit));
                if (ri == rm && mit != m.end()) { cx.eq("C09", subj, cls, "element behind the erased one (through the returned iterator)", value_of(*it), *mit); }
            }
            break;
        }
        case erase_range: {
            int const len = a.b - a.a;
            cls           = cat(len == 0 ? "empty-range" : (len == 1 ? "one-element" : "several-elements"), (len > 0 && a.b == int(m.size())) ? "+to-end" : "");
            if constexpr (Flat) {
                auto it = v.erase(v.cbegin() + a.a, v.cbegin() + a.b);
                ri      = voff(v, it);
            } else {
                auto it = v.erase(v.begin() + a.a, v.begin() + a.b);
                ri      = voff(v, it);
            }
            auto mit = m.erase(std::next(m.begin(), a.a), std::next(m.begin(), a.b));
            rm       = long(std::distance(m.begin(), mit));
            if (ri == rm && mit != m.end()) {
                int const behind = value_of(*(v.begin() + ri));
                cx.eq("C09", subj, cls, "element behind the erased range (through the returned position)", behind, *mit);
            }
            break;
        }
        case clear_k: {
            v.clear();
            m.clear();
            break;
        }
        case refill: {
            // fill - clear - refill: the same keys go back in, in the opposite order, over the slots
            // the cleared elements left behind
            cls = "refill-after-clear";
            std::vector<int> const keys(m.begin(), m.end());
            v.clear();
            if (!v.empty() || v.size() != 0 || v.begin() != v.end()) { cx.fail("C09", subj, cls, cat("size() after clear(): ", v.size())); }
            for (auto it = keys.rbegin(); it != keys.rend(); ++it) {
                T x(*it);
                auto r = v.insert(std::move(x));
                if (!r.second) { cx.fail("C09", family() + "::insert(&&)", cls, cat("insert of ", *it, " into the cleared set reported a duplicate")); }
            }
            break;
        }
        case self_copy_assign: {
            if constexpr (copyable) {
                cls      = "self";
                V& alias = v;
                v        = alias;
                if (std::size_t(v.size()) != m.size()) {
                    cx.fail("C03", subj, "self-assignment-changes-value", cat("size after s = s: tetl=", v.size(), " before=", m.size()));
                    check_lifetimes<T>(cx, subj, s.lo(), s.hi(), v.size());
                    return;
                }
            }
            break;
        }
        case self_swap:
        case self_swap_free: {
            cls = "self";
            if constexpr (cont_assignable) {
                if (a.k == self_swap) {
                    v.swap(v);
                } else {
                    using etl::swap;
                    swap(v, v);
                }
            }
            if (std::size_t(v.size()) != m.size()) {
                cx.fail("C03", subj, "self-swap-changes-value", cat("size after swapping s with itself: tetl=", v.size(), " before=", m.size()));
                check_lifetimes<T>(cx, subj, s.lo(), s.hi(), v.size());
                return;
            }
            break;
        }
        case copy_construct: {
            if constexpr (copyable) {
                {
                    V copy(static_cast<V const&>(v));
                    same(cx, subj, cls, copy, m, "copy");
                    // independence: mutate the copy, the source must not change
                    copy.clear();
                    if constexpr (N > 0) { copy.emplace(K); }
                    if (!same(cx, subj, cls, v, m, "source after mutating its copy")) { return; }
                }
                alignas(V) unsigned char tmp[sizeof(V)];
                std::memset(tmp, 0x5A, sizeof tmp);
                V* t = ::new (static_cast<void*>(tmp)) V(static_cast<V const&>(v));
                reconstruct(s, [&](void* at) { return ::new (at) V(static_cast<V const&>(*t)); });
                t->~V();
                check_scratch<T>(cx, subj, tmp, tmp + sizeof tmp, "a destroyed copy");
            }
            break;
        }
        case move_construct: {
            alignas(V) unsigned char tmp[sizeof(V)];
            std::memset(tmp, 0x5A, sizeof tmp);
            V* t = ::new (static_cast<void*>(tmp)) V(std::move(v));
            same(cx, subj, cls, *t, m, "moved-to object");
            // the source only has to stay a valid object
            if (std::size_t(v.size()) > cap()) { cx.fail("C03", subj, "moved-from-invalid", cat("moved-from size ", v.size())); }
            v.clear();
            reconstruct(s, [&](void* at) { return ::new (at) V(std::move(*t)); });
            t->clear();
            t->~V();
            check_scratch<T>(cx, subj, tmp, tmp + sizeof tmp, "a destroyed moved-from object");
            break;
        }
        case ctor_range:
        case ctor_range_comp:
        case ctor_container: {
            auto const& src = pool()[std::size_t(a.a)];
            // constructors without a comparator argument value-initialise it
            MCmp mcmp{};
            if constexpr (stateful) {
                if (a.k == ctor_range_comp) { mcmp = MCmp{a.b != 0}; }
            }
            M fresh(src.begin(), src.end(), mcmp);
            bool const sorted = std::is_sorted(src.begin(), src.end(), mcmp);
            cls               = cat(sorted ? "sorted" : "unsorted", fresh.size() != src.size() ? "+duplicates" : "");
            {
                SourceRange<T> r(src);
                if (a.k == ctor_range) {
                    if constexpr (copyable) {
                        reconstruct(s, [&](void* at) { return ::new (at) V(r.first(), r.last()); });
                    } else {
                        reconstruct(s, [&](void* at) { return ::new (at) V(MoveIt<T>{r.mfirst()}, MoveIt<T>{r.mlast()}); });
                    }
                } else if (a.k == ctor_range_comp) {
                    if constexpr (Flat && stateful) {
                        Cmp const comp{a.b != 0};
                        reconstruct(s, [&](void* at) { return ::new (at) V(r.first(), r.last(), comp); });
                    }
                } else {
                    if constexpr (Flat && copyable) {
                        C const c(r.first(), r.last());
                        reconstruct(s, [&](void* at) { return ::new (at) V(c); });
                    }
                }
                if constexpr (copyable) {
                    if (!r.unchanged()) { cx.fail("C09", subj, cls, "the constructor changed its source range"); }
                }
                if (!r.blk.intact()) { cx.fail("C02", subj, "canary", "wrote outside the source range"); }
            }
            m = std::move(fresh);
            break;
        }
        case ctor_comp: {
            if constexpr (Flat && stateful) {
                cls = a.a != 0 ? "descending" : "ascending";
                Cmp const comp{a.a != 0};
                reconstruct(s, [&](void* at) { return ::new (at) V(comp); });
                m = M(MCmp{a.a != 0});
            }
            break;
        }
        case ctor_su_container:
        case ctor_su_range:
        case ctor_su_range_comp:
        case replace_k: {
            if constexpr (Flat) {
                // replace keeps the comparator in force; the other constructors value-initialise it
                MCmp mcmp{};
                if (a.k == replace_k) { mcmp = m.key_comp(); }
                if constexpr (stateful) {
                    if (a.k == ctor_su_range_comp) { mcmp = MCmp{a.b != 0}; }
                }
                auto const keys = mask_keys(unsigned(a.a), K, mcmp);
                cls             = keys.empty() ? "empty-container" : "general";
                if (a.k == ctor_su_container) {
                    C c = container_of(keys);
                    if constexpr (copyable) {
                        reconstruct(s, [&](void* at) { return ::new (at) V(etl::sorted_unique, c); });
                    } else {
                        reconstruct(s, [&](void* at) { return ::new (at) V(etl::sorted_unique, std::move(c)); });
                    }
                } else if (a.k == ctor_su_range) {
                    SourceRange<T> r(keys);
                    if constexpr (copyable) {
                        reconstruct(s, [&](void* at) { return ::new (at) V(etl::sorted_unique, r.first(), r.last()); });
                    }
                } else if (a.k == ctor_su_range_comp) {
                    if constexpr (stateful) {
                        SourceRange<T> r(keys);
                        Cmp const comp{a.b != 0};
                        reconstruct(s, [&](void* at) { return ::new (at) V(etl::sorted_unique, r.first(), r.last(), comp); });
                    }
                } else {
                    if constexpr (cont_assignable) {
                        C c = container_of(keys);
                        v.replace(std::move(c));
                        if (c.size() > cap()) { cx.fail("C03", subj, "moved-from-invalid", cat("moved-from container size ", c.size())); }
                    }
                }
                m = M(keys.begin(), keys.end(), mcmp);
            }
            break;
        }
        case extract_k:
        case extract_replace: {
            if constexpr (Flat) {
                cls = m.empty() ? "empty-set" : "non-empty-set";
                {
                    C c = std::move(v).extract();
                    if (!same_container(cx, subj, cls, c, m, "extracted container")) { return; }
                    // [flat.set.modifiers]: *this is emptied
                    if (!v.empty() || v.size() != 0) {
                        cx.fail("C09", subj, cls, cat("the set still holds ", v.size(), " element(s) after extract()"));
                        return;
                    }
                    if (a.k == extract_replace) {
                        if constexpr (cont_assignable) { v.replace(std::move(c)); }
                    } else {
                        m.clear();
                    }
                }
            }
            break;
        }
        case erase_if_mask: {
            if constexpr (Flat) {
                unsigned const mask = unsigned(a.a);
                bool any            = false;
                bool every          = !m.empty();
                for (int x : m) {
                    any   = any || in_mask(mask, x);
                    every = every && in_mask(mask, x);
                }
                cls = !any ? "matches-none" : (every ? "matches-all" : "matches-some");
                ri  = long(etl::erase_if(v, [&](T const& e) { return in_mask(mask, value_of(e)); }));
                rm  = long(std::erase_if(m, [&](int e) { return in_mask(mask, e); }));
            }
            break;
        }
        case full_probe: {
            if constexpr (probes) {
                // a new key does not fit: the backing container's contract must stop the call
                // before anything is modified (checked build only; the call is not made elsewhere)
                cls             = "full+new";
                int const key   = a.a;
                mc::Trap const t = mc::guarded([&] {
                    if (a.b == 0) {
                        (void)v.emplace(key);
                    } else if (a.b == 1) {
                        int const x = key;
                        (void)v.insert(x);
                    } else if (a.b == 2) {
                        int x = key;
                        (void)v.insert(std::move(x));
                    } else {
                        int const x = key;
                        (void)v.insert(v.cbegin(), x);
                    }
                });
                if (t != mc::Trap::assert_fired) {
                    cx.fail("C09", subj, cls, cat("no contract failure was reported (", mc::trap_name(t), "); set size is now ", v.size()));
                    s.dead = true; // the object may have overflowed its storage: do not touch it again
                    return;
                }
            }
            break;
        }
        case swap_member:
        case swap_free: {
            if constexpr (cont_assignable) {
                if (a.k == swap_member) {
                    v.swap(*p->v);
                } else {
                    using etl::swap;
                    swap(v, *p->v);
                }
                m.swap(p->m);
                check_other = true;
            }
            break;
        }
        case copy_assign: {
            if constexpr (copyable) {
                V& ret = (v = static_cast<V const&>(*p->v));
                if (&ret != &v) { cx.fail("C09", subj, cls, "operator= did not return *this"); }
                m           = p->m;
                check_other = true;
            }
            break;
        }
        case move_assign: {
            if constexpr (cont_assignable) {
                v = std::move(*p->v);
                m = p->m;
                if (std::size_t(p->v->size()) > cap()) { cx.fail("C03", subj, "moved-from-invalid", cat("moved-from size ", p->v->size())); }
                // moved-from source: only required to be valid; normalise it
                p->v->clear();
                p->m.clear();
                check_other = true;
            }
            break;
        }
        case relational: {
            V const& x = v;
            V const& y = *p->v;
            M const& mx = m;
            M const& my = p->m;
            {
                // strict prefix: the shorter operand's end() is reached while everything before it is equal
                std::vector<int> const sx(mx.begin(), mx.end());
                std::vector<int> const sy(my.begin(), my.end());
                auto const common = std::min(sx.size(), sy.size());
                bool const prefix = sx.size() != sy.size() && std::equal(sx.begin(), sx.begin() + long(common), sy.begin());
                cls               = mx == my ? "equal" : (mx.size() == my.size() ? "same-size" : (prefix ? "different-size+prefix" : "different-size"));
            }
            cx.eq("C09", subj, cls, "==", bool(x == y), mx == my);
            cx.eq("C09", subj, cls, "!=", bool(x != y), mx != my);
            cx.eq("C09", subj, cls, "<", bool(x < y), mx < my);
            cx.eq("C09", subj, cls, "<=", bool(x <= y), mx <= my);
            cx.eq("C09", subj, cls, ">", bool(x > y), mx > my);
            cx.eq("C09", subj, cls, ">=", bool(x >= y), mx >= my);
            break;
        }
        default: break;
        }
        if (ri != rm) {
            cx.fail("C09", subj, cls,
                cat("returned position/count: tetl=", ri == -1000 ? std::string("<not an iterator into the set>") : cat(ri), " model=", rm));
        }
        same(cx, subj, cls, *s.v, s.m, "after the operation");
        if (std::size_t(s.v->max_size()) != cap()) { cx.fail("C09", subj, cls, cat("max_size() = ", s.v->max_size())); }
        if constexpr (stateful) {
            // the comparator in force is part of the value: constructors store it, swap exchanges it,
            // assignment copies it, clear/extract/replace keep it
            if (s.v->key_comp().desc != s.m.key_comp().desc) {
                cx.fail("C09", subj, "comparator-state", cat("key_comp() direction: tetl=", s.v->key_comp().desc ? "descending" : "ascending", " model=", s.m.key_comp().desc ? "descending" : "ascending"));
            }
            // (the comparator of a moved-from set is unspecified: not compared after move assignment)
            if (check_other && p != nullptr && a.k != move_assign && p->v->key_comp().desc != p->m.key_comp().desc) {
                cx.fail("C09", subj, "comparator-state", "key_comp() direction of the other operand differs from the model");
            }
        }
        check_lifetimes<T>(cx, subj, s.lo(), s.hi(), s.v->size()); // C03: as many live keys as the set says it holds
        if (check_other && p != nullptr) {
            same(cx, subj, cls, *p->v, p->m, "other operand after the operation");
            check_lifetimes<T>(cx, subj, p->lo(), p->hi(), p->v->size());
        }
    }

    void observe(State const& st, Cx& cx) const { check_observers<T, K, Cmp, bounded>(cx, family(), *st.v, st.m, cap()); }

    std::string key(State const& st) const
    {
        std::string k;
        for (int x : st.m) { k += char('0' + x); }
        if constexpr (stateful) { k += st.m.key_comp().desc ? 'v' : '^'; }
        k += '|';
        if constexpr (RawKey && trivial) {
            k.append(reinterpret_cast<char const*>(st.v), sizeof(V));
        } else {
            k += obs(st);
        }
        return k;
    }
    std::string obs(State const& st) const
    {
        std::string o = cat(st.v->size(), ":");
        if constexpr (stateful) { o += st.v->key_comp().desc ? "v:" : "^:"; }
        auto const n  = std::min<std::size_t>(st.v->size(), std::min<std::size_t>(N, 64));
        for (std::size_t i = 0; i < n; ++i) { o += cat(value_of(*(st.v->begin() + i)), ","); }
        return o;
    }
    void retire(State& st, Cx& cx) const
    {
        if (st.dead) { return; }
        st.v->~V();
        st.dead = true;
        if constexpr (mc::is_tracked_v<T>) {
            auto const subj = cat(family(), "::~", family());
            for (auto const& e : registry().take_errors()) { cx.fail("C03", subj, "lifetime:" + e, e); }
            auto const live = registry().live_in(st.lo(), st.hi());
            if (live != 0) {
                cx.fail("C03", subj, "leak", cat(live, " element(s) still alive after the owner was destroyed"));
                registry().forget_range(st.lo(), st.hi());
            }
        }
    }
};

template <typename Sys>
void explore(mc::Reporter& r, int seqLen, std::size_t maxPartners)
{
    Sys sys{seqLen};
    mc::ExploreLimits lim;
    lim.max_states   = 3000000;
    lim.max_depth    = 1000;
    lim.max_partners = maxPartners;
    mc::Explorer<Sys> ex(sys, r, lim);
    ex.run();
}

// =======================================================================================
// flat_multiset: construction from every container of length <= L over {1..K}
// =======================================================================================
template <typename C, typename T>
C fill_container(std::vector<int> const& keys)
{
    C c{};
    for (int k : keys) {
        if constexpr (requires { c.emplace_back(k); }) {
            c.emplace_back(k);
        } else {
            (void)c.try_emplace_back(k);
        }
    }
    return c;
}

template <typename T, typename C, typename Cmp, int K, bool WithReverse>
void multiset_sweep(mc::Reporter& r, std::string const& cfg, int maxLen, std::size_t cap)
{
    using MS                = etl::flat_multiset<T, C, Cmp>;
    using MCmp              = typename CmpInfo<Cmp>::model;
    constexpr bool classes  = CmpInfo<Cmp>::classes;
    std::string const subj_c  = "flat_multiset::flat_multiset(container)";
    std::string const subj_se = "flat_multiset::flat_multiset(sorted_equivalent,container)";
    std::string kase;
    Cx cx{r, [&] { return kase; }};
    auto read = [](auto const& ms) {
        std::vector<int> o;
        for (auto it = ms.begin(); it != ms.end(); ++it) { o.push_back(value_of(*it)); }
        return o;
    };
    // default construction, construction from a comparator
    {
        kase         = cat(cfg, ": default construction");
        mc::Trap t   = mc::guarded([&] {
            MS ms;
            MS ms2{Cmp{}};
            MS const& cms2 = ms2;
            if (!ms.empty() || ms.size() != 0 || ms.begin() != ms.end() || !ms2.empty()) {
                cx.fail("C09", "flat_multiset::flat_multiset()", "general", "a default-constructed flat_multiset is not empty");
            }
            if (cms2.size() != 0 || cms2.begin() != cms2.end() || cms2.cbegin() != cms2.cend()) {
                cx.fail("C09", "flat_multiset::flat_multiset(comp)", "general", "a flat_multiset constructed from a comparator is not empty");
            }
            if constexpr (WithReverse) {
                if (cms2.rbegin() != cms2.rend() || cms2.crbegin() != cms2.crend() || ms2.rbegin() != ms2.rend()) {
                    cx.fail("C09", "flat_multiset::rbegin/rend", "empty", "rbegin() != rend() on an empty flat_multiset");
                }
            }
            if (std::size_t(ms.max_size()) != cap) { cx.fail("C09", "flat_multiset::max_size", "general", cat("max_size() = ", ms.max_size())); }
            if (std::size_t(cms2.max_size()) != cap) { cx.fail("C09", "flat_multiset::max_size", "general", cat("max_size() = ", cms2.max_size())); }
        });
        if (t != mc::Trap::none) { cx.fail(t == mc::Trap::assert_fired ? "C05" : "C02", "flat_multiset::flat_multiset()", mc::trap_name(t), mc::describe_trap(t)); }
        drain_registry<T>(cx, "flat_multiset::flat_multiset()");
    }
    auto const& pl = seqs(K, maxLen);
    std::size_t done = 0;
    for (auto const& src : pl) {
        if (src.size() > cap) { continue; }
        if ((++done & 1023) == 0 && r.deadline_passed()) {
            r.not_exhaustive("deadline");
            break;
        }
        // expected: the same elements (as a multiset, by identity), weakly ascending under the comparator.
        // Where equivalence is identity that is exactly the sorted sequence; with larger equivalence
        // classes the order inside a class is unspecified (sort is not required to be stable)
        std::vector<int> want = src;
        std::stable_sort(want.begin(), want.end(), MCmp{});
        std::vector<int> by_value = src;
        std::sort(by_value.begin(), by_value.end());
        bool const sorted = std::is_sorted(src.begin(), src.end(), MCmp{});
        bool const dups   = std::set<int>(src.begin(), src.end()).size() != src.size();
        bool equiv        = false;
        for (std::size_t i = 0; i + 1 < want.size(); ++i) { equiv = equiv || (want[i] != want[i + 1] && !MCmp{}(want[i], want[i + 1])); }
        auto const cls    = cat(src.empty() ? "empty" : (sorted ? "sorted" : "unsorted"), dups ? "+duplicates" : "", equiv ? "+equivalent-keys" : "");
        kase              = cat(cfg, ": flat_multiset(container ", mc::show_seq(src), ")");
        auto const san0   = mc::san_hits();
        std::string subj  = subj_c;
        mc::Trap t        = mc::guarded([&] {
            {
                MS ms(fill_container<C, T>(src));
                MS const& cms = ms;
                auto const got = read(cms);
                r.outcome(mc::hash_str(mc::show_seq(got)));
                if constexpr (!classes) {
                    if (got != want) { cx.fail("C09", subj, cls, cat("iteration: tetl=", mc::show_seq(got), " expected=", mc::show_seq(want))); }
                } else {
                    auto gv = got;
                    std::sort(gv.begin(), gv.end());
                    if (gv != by_value) { cx.fail("C09", subj, cls, cat("not the elements of the container: tetl=", mc::show_seq(got), " container=", mc::show_seq(src))); }
                }
                if (read(ms) != got) { cx.fail("C09", "flat_multiset::begin/end", cls, "const and non-const iteration differ"); }
                std::vector<int> viac;
                for (auto it = cms.cbegin(); it != cms.cend(); ++it) { viac.push_back(value_of(*it)); }
                if (viac != got) { cx.fail("C09", "flat_multiset::begin/end", cls, "cbegin..cend differs from begin..end"); }
                for (std::size_t i = 0; i + 1 < got.size(); ++i) {
                    if (MCmp{}(got[i + 1], got[i])) {
                        cx.fail("C09", "flat_multiset::<invariant>", "weakly-ascending", cat("not weakly ascending under the comparator: ", mc::show_seq(got)));
                        break;
                    }
                }
                cx.eq("C09", "flat_multiset::size", cls, "size()", std::size_t(cms.size()), src.size());
                cx.eq("C09", "flat_multiset::empty", cls, "empty()", cms.empty(), src.empty());
                cx.eq("C09", "flat_multiset::max_size", cls, "max_size()", std::size_t(cms.max_size()), cap);
                cx.eq("C09", "flat_multiset::begin/end", cls, "end()-begin()", long(cms.end() - cms.begin()), long(src.size()));
                if constexpr (WithReverse) {
                    std::vector<int> const rwant(got.rbegin(), got.rend());
                    std::vector<int> a, b, c;
                    for (auto it = cms.rbegin(); it != cms.rend(); ++it) { a.push_back(value_of(*it)); }
                    for (auto it = cms.crbegin(); it != cms.crend(); ++it) { b.push_back(value_of(*it)); }
                    for (auto it = ms.rbegin(); it != ms.rend(); ++it) { c.push_back(value_of(*it)); }
                    if (a != rwant || b != rwant || c != rwant) { cx.fail("C09", "flat_multiset::rbegin/rend", cls, "reverse iteration is not the reverse of forward iteration"); }
                }
                // the implicit special members carry the sequence over unchanged (each only where the
                // container provides it: static_vector over move-only elements has no move assignment,
                // inplace_vector no copy assignment - API gaps)
                {
                    MS mv(std::move(ms));
                    if (read(mv) != got) { cx.fail("C09", "flat_multiset::flat_multiset(&&)", cls, cat("move-constructed: ", mc::show_seq(read(mv)), " source was ", mc::show_seq(got))); }
                    if constexpr (std::is_move_assignable_v<MS>) {
                        MS as;
                        as = std::move(mv);
                        if (read(as) != got) { cx.fail("C09", "flat_multiset::operator=(&&)", cls, cat("move-assigned: ", mc::show_seq(read(as)), " source was ", mc::show_seq(got))); }
                        mv = std::move(as);
                        if (read(mv) != got) { cx.fail("C09", "flat_multiset::operator=(&&)", cls, cat("move-assigned back: ", mc::show_seq(read(mv)), " source was ", mc::show_seq(got))); }
                    }
                    if constexpr (std::conjunction_v<std::is_copy_constructible<T>, std::is_copy_constructible<MS>>) {
                        MS cp(static_cast<MS const&>(mv));
                        if (read(cp) != got || read(mv) != got) { cx.fail("C09", "flat_multiset::flat_multiset(const&)", cls, cat("copy: ", mc::show_seq(read(cp)), " source afterwards ", mc::show_seq(read(mv)))); }
                    }
                    if constexpr (std::conjunction_v<std::is_copy_constructible<T>, std::is_copy_assignable<MS>>) {
                        MS cas(fill_container<C, T>(cap > 0 ? std::vector<int>{K} : std::vector<int>{}));
                        cas = static_cast<MS const&>(mv);
                        if (read(cas) != got || read(mv) != got) { cx.fail("C09", "flat_multiset::operator=(const&)", cls, cat("copy-assigned: ", mc::show_seq(read(cas)), " source afterwards ", mc::show_seq(read(mv)))); }
                    }
                }
            }
            drain_registry<T>(cx, subj);
            if (sorted) {
                subj = subj_se;
                {
                    MS ms(etl::sorted_equivalent, fill_container<C, T>(src));
                    auto const got = read(ms);
                    if (got != src) { cx.fail("C09", subj, cls, cat("iteration: tetl=", mc::show_seq(got), " expected=", mc::show_seq(src))); }
                    cx.eq("C09", "flat_multiset::size", cls, "size() after sorted_equivalent construction", std::size_t(ms.size()), src.size());
                }
                drain_registry<T>(cx, subj);
                r.count("evaluations");
            }
        });
        if (t != mc::Trap::none) {
            cx.fail(t == mc::Trap::assert_fired || t == mc::Trap::exception_raised ? "C05" : "C02", subj,
                t == mc::Trap::assert_fired ? "handler-on-valid-call" : mc::trap_name(t), mc::describe_trap(t));
            if constexpr (mc::is_tracked_v<T>) {
                (void)registry().take_errors();
                registry().slots.clear();
            }
        } else if (mc::san_hits() != san0) {
            cx.fail("C02", subj, "sanitizer-report", "ASan/UBSan reported during this valid call (see job log)");
        }
        if constexpr (mc::is_tracked_v<T>) {
            if (registry().live_count() != 0) {
                cx.fail("C03", subj_c, "leak", cat(registry().live_count(), " element(s) alive after every object was destroyed"));
                registry().slots.clear();
            }
        }
        r.count("evaluations");
        if (!sorted) { r.count("distinct_nontrivial"); }
        if (r.wants_sample() || (done % 997) == 0) { r.sample(kase); }
    }
    r.count("configurations");
}

// =======================================================================================
// flat_set over an inplace_vector: inplace_vector has no emplace(pos)/erase (API gap), so only
// flat_set(sorted_unique, container) and the observers can be instantiated; every subset of the
// universe that fits is constructed and looked up
// =======================================================================================
template <typename T, std::size_t N, typename Cmp, int K>
void inplace_lookup_sweep(mc::Reporter& r, std::string const& cfg)
{
    using C             = etl::inplace_vector<T, N>;
    using V             = etl::flat_set<T, C, Cmp>;
    using MCmp = typename CmpInfo<Cmp>::model;
    using M    = std::set<int, MCmp>;
    std::string kase;
    Cx cx{r, [&] { return kase; }};
    for (unsigned mask = 0; mask < (1U << K); ++mask) {
        if (popcount(mask) > int(N) || !mask_unique(mask, K, MCmp{})) { continue; }
        auto const keys = mask_keys(mask, K, MCmp{});
        kase            = cat(cfg, ": flat_set(sorted_unique, container ", mc::show_seq(keys), ") => <observers>");
        M const m(keys.begin(), keys.end());
        auto const san0 = mc::san_hits();
        mc::Trap t      = mc::guarded([&] {
            V v(etl::sorted_unique, fill_container<C, T>(keys));
            check_observers<T, K, Cmp, false>(cx, "flat_set", v, m, N);
            std::string o;
            for (auto it = v.begin(); it != v.end(); ++it) { o += char('0' + value_of(*it)); }
            r.outcome(mc::hash_str(o));
        });
        if (t != mc::Trap::none) {
            cx.fail(t == mc::Trap::assert_fired || t == mc::Trap::exception_raised ? "C05" : "C02", "flat_set::<observers>",
                cat("observer-", mc::trap_name(t)), mc::describe_trap(t));
        } else if (mc::san_hits() != san0) {
            cx.fail("C02", "flat_set::<observers>", "sanitizer-report", "ASan/UBSan reported inside an observer");
        }
        r.count("evaluations", std::uint64_t(K + 2) * 8);
        if (mask != 0) { r.count("distinct_nontrivial"); }
        if (r.wants_sample()) { r.sample(kase); }
    }
    r.count("configurations");
}

// =======================================================================================
// relational operators (etl::equal / etl::lexicographical_compare underneath) and the observers on
// sets whose storage holds STALE elements behind end(): every subset of the universe that fits is
// built in every "stale mode" (what was in the storage before), then all ordered pairs are compared
// =======================================================================================
inline char const* stale_mode_name(int mode)
{
    switch (mode) {
    case 0: return "fresh over 0xAA bytes";
    case 1: return "filled with the largest keys, clear()";
    case 2: return "filled with the smallest keys, erase(begin,end)";
    case 3: return "fresh over 0x7F bytes";
    case 4: return "filled with the largest keys, erase(begin) until empty";
    default: return "filled with the smallest keys, erase(key) from the largest down";
    }
}

template <bool Flat, std::size_t N, typename Cmp, int K>
void stale_relational_sweep(mc::Reporter& r, std::string const& cfg, int modes)
{
    using C    = etl::static_vector<int, N>;
    using V    = std::conditional_t<Flat, etl::flat_set<int, C, Cmp>, etl::static_set<int, N, Cmp>>;
    using MCmp = typename CmpInfo<Cmp>::model;
    using M    = std::set<int, MCmp>;
    std::string const fam = Flat ? "flat_set" : "static_set";
    struct Obj {
        alignas(alignof(V) > 16 ? alignof(V) : 16) unsigned char buf[sizeof(V) + 32];
        V* v{nullptr};
        M m;
        unsigned mask{0};
        int mode{0};
        Obj() = default;
        Obj(Obj const&)            = delete;
        Obj& operator=(Obj const&) = delete;
        ~Obj()
        {
            if (v != nullptr) { v->~V(); }
        }
    };
    std::string kase;
    Cx cx{r, [&] { return kase; }};
    auto const describe = [&](Obj const& o) { return cat(mc::show_seq(o.m), " [", stale_mode_name(o.mode), "]"); };
    std::vector<std::unique_ptr<Obj>> objs;
    for (int mode = 0; mode < modes; ++mode) {
        for (unsigned mask = 0; mask < (1U << K); ++mask) {
            if (popcount(mask) > int(N) || !mask_unique(mask, K, MCmp{})) { continue; }
            auto o  = std::make_unique<Obj>();
            o->mask = mask;
            o->mode = mode;
            std::memset(o->buf, mode == 3 ? 0x7F : 0xAA, sizeof o->buf);
            bool ok = true;
            kase    = cat(cfg, ": build ", mc::show_seq(mask_keys(mask, K, MCmp{})), " [", stale_mode_name(mode), "]");
            mc::Trap t = mc::guarded([&] {
                o->v = ::new (static_cast<void*>(o->buf)) V;
                V& v = *o->v;
                if (mode != 0 && mode != 3) {
                    // fill to capacity: the N largest (modes 1, 4) or the N smallest (2, 5) pairwise inequivalent keys
                    bool const largest = mode == 1 || mode == 4;
                    M fill;
                    for (int i = 0; i < K && fill.size() < N; ++i) { fill.insert(largest ? K - i : 1 + i); }
                    for (int k : fill) { (void)v.insert(int(k)); }
                    if (std::size_t(v.size()) != fill.size()) { ok = false; }
                    if (mode == 1) {
                        v.clear();
                    } else if (mode == 2) {
                        if constexpr (Flat) {
                            (void)v.erase(v.cbegin(), v.cend());
                        } else {
                            (void)v.erase(v.begin(), v.end());
                        }
                    } else if (mode == 4) {
                        while (!v.empty()) { (void)v.erase(v.begin()); }
                    } else {
                        for (auto it = fill.rbegin(); it != fill.rend(); ++it) { (void)v.erase(*it); }
                    }
                    if (!v.empty()) { ok = false; }
                }
                for (int k : mask_keys(mask, K, MCmp{})) {
                    auto res = v.insert(int(k));
                    ok       = ok && res.second;
                    o->m.insert(k);
                }
                if (std::size_t(v.size()) != o->m.size()) { ok = false; }
            });
            if (t != mc::Trap::none) {
                cx.fail(t == mc::Trap::assert_fired || t == mc::Trap::exception_raised ? "C05" : "C02", cat(fam, "::insert(&&)"),
                    t == mc::Trap::assert_fired ? "handler-on-valid-call" : mc::trap_name(t), mc::describe_trap(t));
                (void)o.release();
                continue;
            }
            if (!ok) {
                // (already a violation of the explored configurations; reported here with its own class)
                cx.fail("C09", cat(fam, "::insert(&&)"), "refill-after-clear", "filling, emptying and refilling the set did not produce the expected sizes / inserted flags");
                continue;
            }
            // observers on the refilled object
            kase            = cat(cfg, ": ", describe(*o), " => <observers>");
            auto const san0 = mc::san_hits();
            mc::Trap to     = mc::guarded([&] { check_observers<int, K, Cmp, true>(cx, fam, *o->v, o->m, N); });
            if (to != mc::Trap::none) {
                cx.fail(to == mc::Trap::assert_fired || to == mc::Trap::exception_raised ? "C05" : "C02", cat(fam, "::<observers>"), cat("observer-", mc::trap_name(to)),
                    mc::describe_trap(to));
            } else if (mc::san_hits() != san0) {
                cx.fail("C02", cat(fam, "::<observers>"), "sanitizer-report", "ASan/UBSan reported inside an observer");
            }
            r.count("evaluations", std::uint64_t(K + 2) * 8);
            objs.push_back(std::move(o));
        }
    }
    std::string const subj = fam + "::<relational operators>";
    std::uint64_t pairs    = 0;
    for (std::size_t i = 0; i < objs.size(); ++i) {
        if ((i & 15) == 0 && r.deadline_passed()) {
            r.not_exhaustive("deadline");
            break;
        }
        Obj const& a = *objs[i];
        std::vector<int> const sx(a.m.begin(), a.m.end());
        auto const san0 = mc::san_hits();
        std::size_t j   = 0;
        mc::Trap t      = mc::guarded([&] {
            for (j = 0; j < objs.size(); ++j) {
                Obj const& b = *objs[j];
                std::vector<int> const sy(b.m.begin(), b.m.end());
                auto const common = std::min(sx.size(), sy.size());
                bool const prefix = sx.size() != sy.size() && std::equal(sx.begin(), sx.begin() + long(common), sy.begin());
                bool const stale  = (a.mode != 0 && a.mode != 3) || (b.mode != 0 && b.mode != 3);
                auto const cls    = cat(sx == sy ? "equal" : (sx.size() == sy.size() ? "same-size" : (prefix ? "different-size+prefix" : "different-size")),
                    stale ? "+stale-storage" : "");
                kase              = cat(cfg, ": ", describe(a), " <=> ", describe(b));
                V const& x        = *a.v;
                V const& y        = *b.v;
                // reference: std::set's operators = std::equal / std::lexicographical_compare with == and < of the keys
                cx.eq("C09", subj, cls, "==", bool(x == y), a.m == b.m);
                cx.eq("C09", subj, cls, "!=", bool(x != y), a.m != b.m);
                cx.eq("C09", subj, cls, "<", bool(x < y), a.m < b.m);
                cx.eq("C09", subj, cls, "<=", bool(x <= y), a.m <= b.m);
                cx.eq("C09", subj, cls, ">", bool(x > y), a.m > b.m);
                cx.eq("C09", subj, cls, ">=", bool(x >= y), a.m >= b.m);
                ++pairs;
                if (prefix) { r.count("distinct_nontrivial"); }
            }
        });
        if (t != mc::Trap::none) {
            cx.fail(t == mc::Trap::assert_fired || t == mc::Trap::exception_raised ? "C05" : "C02", subj, t == mc::Trap::assert_fired ? "handler-on-valid-call" : mc::trap_name(t),
                mc::describe_trap(t));
        } else if (mc::san_hits() != san0) {
            cx.fail("C02", subj, "sanitizer-report", "ASan/UBSan reported inside a relational operator");
        }
        if (r.wants_sample() || (i % 499) == 0) { r.sample(kase); }
    }
    r.count("evaluations", pairs * 6);
    r.outcome(mc::hash_str(cat(pairs)));
    r.count("configurations");
}

// ---------------------------------------------------------------------------------------
// job table helpers
// ---------------------------------------------------------------------------------------
template <bool Flat, typename T, std::size_t N, typename Cmp, int K, bool RawKey = false, int CK = sv>
void add_set(mc::Main& m, std::vector<std::string> tiers, int seqLen, std::size_t maxPartners = 100000)
{
    using Sys = SetSys<Flat, T, N, Cmp, K, RawKey, CK>;
    m.job(cat(Sys{seqLen}.name(), "/k", K, "/len", seqLen, RawKey ? "/rawkey" : ""), tiers,
        [=](mc::Reporter& r) { explore<Sys>(r, seqLen, maxPartners); });
}

template <typename T, std::size_t N, typename Cmp, int K>
void add_multiset(mc::Main& m, std::vector<std::string> tiers, int maxLen)
{
    auto const cfg = cat("flat_multiset<", tname<T>(), ",static_vector<", N, ">,", CmpInfo<Cmp>::name(), ">");
    m.job(cat(cfg, "/k", K, "/len", maxLen), tiers,
        [=](mc::Reporter& r) { multiset_sweep<T, etl::static_vector<T, N>, Cmp, K, true>(r, cfg, maxLen, N); });
}
template <typename T, std::size_t N, typename Cmp, int K>
void add_multiset_inplace(mc::Main& m, std::vector<std::string> tiers, int maxLen)
{
    auto const cfg = cat("flat_multiset<", tname<T>(), ",inplace_vector<", N, ">,", CmpInfo<Cmp>::name(), ">");
    m.job(cat(cfg, "/k", K, "/len", maxLen), tiers,
        [=](mc::Reporter& r) { multiset_sweep<T, etl::inplace_vector<T, N>, Cmp, K, false>(r, cfg, maxLen, N); });
}
template <typename T, typename Cmp, int K>
void add_multiset_heapvec(mc::Main& m, std::vector<std::string> tiers, int maxLen)
{
    auto const cfg = cat("flat_multiset<", tname<T>(), ",heap_vector,", CmpInfo<Cmp>::name(), ">");
    m.job(cat(cfg, "/k", K, "/len", maxLen), tiers,
        [=](mc::Reporter& r) { multiset_sweep<T, HeapVec<T>, Cmp, K, true>(r, cfg, maxLen, HeapVec<T>::limit); });
}
template <bool Flat, std::size_t N, typename Cmp, int K>
void add_stale(mc::Main& m, std::vector<std::string> tiers, int modes)
{
    auto const cfg = Flat ? cat("flat_set<int,static_vector<", N, ">,", CmpInfo<Cmp>::name(), ">") : cat("static_set<int,", N, ",", CmpInfo<Cmp>::name(), ">");
    m.job(cat(cfg, "/k", K, "/stale-relational/modes", modes), tiers, [=](mc::Reporter& r) { stale_relational_sweep<Flat, N, Cmp, K>(r, cfg, modes); });
}
template <typename T, std::size_t N, typename Cmp, int K>
void add_inplace_lookup(mc::Main& m, std::vector<std::string> tiers)
{
    auto const cfg = cat("flat_set<", tname<T>(), ",inplace_vector<", N, ">,", CmpInfo<Cmp>::name(), ">");
    m.job(cat(cfg, "/k", K, "/lookups"), tiers, [=](mc::Reporter& r) { inplace_lookup_sweep<T, N, Cmp, K>(r, cfg); });
}

} // namespace

int main(int argc, char** argv)
{
    mc::Main m(argc, argv);
    std::vector<std::string> const both{"quick", "thorough"};
    std::vector<std::string> const th{"thorough"};
    using L  = etl::less<int>;
    using G  = etl::greater<int>;
    using LT = etl::less<>;
    using GT = etl::greater<>;
    using LTr = etl::less<TCM>;
    using GTr = etl::greater<TCM>;
    constexpr bool S = false; // static_set
    constexpr bool F = true;  // flat_set
    // (MC_PART splits the instantiations over several binaries so that they compile in parallel;
    //  parts 12-14 hold the configurations that only the thorough tier runs)
#if !defined(MC_PART) || MC_PART == 1
    add_set<S, int, 0, L, 6>(m, both, 2);
    add_set<S, int, 1, L, 6>(m, both, 2);
    add_set<S, int, 3, L, 6>(m, both, 3);
    add_set<S, int, 4, L, 6>(m, both, 3);
#endif
#if !defined(MC_PART) || MC_PART == 2
    add_set<S, int, 1, G, 6>(m, both, 2);
    add_set<S, int, 3, G, 6>(m, both, 3);
    add_set<S, int, 4, G, 6>(m, both, 3);
#endif
#if !defined(MC_PART) || MC_PART == 3
    add_set<S, int, 0, LT, 6>(m, both, 2);
    add_set<S, int, 1, LT, 6>(m, both, 2);
    add_set<S, int, 3, LT, 6>(m, both, 3);
    add_set<S, int, 4, LT, 6>(m, both, 3);
#endif
#if !defined(MC_PART) || MC_PART == 4
    add_set<S, int, 4, GT, 6>(m, both, 3);
    add_set<S, int, 3, L, 4, true>(m, both, 2, 400);
#endif
#if !defined(MC_PART) || MC_PART == 5
    add_set<F, int, 0, L, 6>(m, both, 2);
    add_set<F, int, 1, L, 6>(m, both, 2);
    add_set<F, int, 3, L, 6>(m, both, 3);
    add_set<F, int, 4, L, 6>(m, both, 3);
#endif
#if !defined(MC_PART) || MC_PART == 6
    add_set<F, int, 1, G, 6>(m, both, 2);
    add_set<F, int, 3, G, 6>(m, both, 3);
    add_set<F, int, 4, G, 6>(m, both, 3);
#endif
#if !defined(MC_PART) || MC_PART == 7
    add_set<F, int, 0, LT, 6>(m, both, 2);
    add_set<F, int, 1, LT, 6>(m, both, 2);
    add_set<F, int, 3, LT, 6>(m, both, 3);
    add_set<F, int, 4, LT, 6>(m, both, 3);
#endif
#if !defined(MC_PART) || MC_PART == 8
    add_set<F, int, 4, GT, 6>(m, both, 3);
    add_set<F, int, 3, L, 4, true>(m, both, 2, 400);
#endif
#if !defined(MC_PART) || MC_PART == 9
    // tracked keys (lifetime registry, C03)
    add_set<S, TCM, 3, LTr, 5>(m, both, 3);
    add_set<S, TCM, 4, GTr, 5>(m, both, 2);
    add_set<S, TCM, 3, LT, 5>(m, both, 2);
#endif
#if !defined(MC_PART) || MC_PART == 10
    add_set<F, TCM, 3, LTr, 5>(m, both, 3);
    add_set<F, TCM, 4, GTr, 5>(m, both, 2);
    add_set<F, TCM, 3, LT, 5>(m, both, 2);
#endif
#if !defined(MC_PART) || MC_PART == 11
    add_multiset<int, 4, L, 6>(m, both, 4);
    add_multiset<int, 4, G, 6>(m, both, 4);
    add_multiset<int, 4, LT, 6>(m, both, 4);
    add_multiset<int, 1, L, 6>(m, both, 1);
    add_multiset<int, 0, L, 6>(m, both, 0);
    add_multiset<TCM, 4, LTr, 4>(m, both, 4);
    add_multiset<TCM, 3, GTr, 4>(m, both, 3);
    add_multiset_inplace<int, 4, L, 6>(m, both, 4);
    add_multiset_inplace<int, 4, G, 6>(m, both, 4);
    add_inplace_lookup<int, 4, L, 6>(m, both);
    add_inplace_lookup<int, 4, G, 6>(m, both);
    add_inplace_lookup<int, 4, LT, 6>(m, both);
    add_inplace_lookup<int, 4, GT, 6>(m, both);
#endif
#if !defined(MC_PART) || MC_PART == 12
    add_set<S, int, 5, L, 7>(m, th, 3);
    add_set<S, int, 5, GT, 7>(m, th, 3);
    add_set<S, int, 4, G, 5, true>(m, th, 2, 600);
    add_set<S, TCM, 4, LTr, 6>(m, th, 3);
#endif
#if !defined(MC_PART) || MC_PART == 13
    add_set<F, int, 5, L, 7>(m, th, 3);
    add_set<F, int, 5, GT, 7>(m, th, 3);
    add_set<F, int, 4, G, 5, true>(m, th, 2, 600);
    add_set<F, TCM, 4, LTr, 6>(m, th, 3);
#endif
#if !defined(MC_PART) || MC_PART == 14
    add_multiset<int, 6, L, 6>(m, th, 6);
    add_multiset<int, 6, G, 6>(m, th, 6);
    add_multiset<int, 8, L, 3>(m, th, 8);
    add_multiset<TCM, 5, LTr, 5>(m, th, 5);
    add_multiset_inplace<int, 6, L, 6>(m, th, 6);
    add_inplace_lookup<int, 6, LT, 8>(m, th);
#endif
    // ---- round 2 ---------------------------------------------------------------------------
    using LMo = etl::less<TMO>;
    using LCo = etl::less<TCO>;
    using GMo = etl::greater<TMO>;
    using GCo = etl::greater<TCO>;
#if !defined(MC_PART) || MC_PART == 15
    // comparators with equivalence classes {0,1},{2,3},... and a comparator whose direction is run-time state
    add_set<S, int, 3, HalfLess, 6>(m, both, 2);
    add_set<F, int, 3, HalfLess, 6>(m, both, 2);
    add_set<S, int, 3, HalfLessT, 6>(m, both, 2);
    add_set<F, int, 3, HalfLessT, 6>(m, both, 2);
    add_set<F, int, 3, DirCmp, 4>(m, both, 2);
#endif
#if !defined(MC_PART) || MC_PART == 16
    // move-only / copy-only tracked keys; std::vector as an unbounded container; stale storage
    add_set<S, TMO, 3, LMo, 4>(m, both, 2);
    add_set<F, TMO, 3, LMo, 4>(m, both, 2);
    add_set<S, TCO, 3, LCo, 4>(m, both, 2);
    add_set<F, TCO, 3, LCo, 4>(m, both, 2);
    add_set<F, int, 1000, LT, 5, false, heapvec>(m, both, 2);
    add_stale<S, 4, L, 6>(m, both, 6);
    add_stale<F, 4, L, 6>(m, both, 6);
    add_multiset_heapvec<int, L, 5>(m, both, 5);
    add_multiset<int, 4, HalfLess, 6>(m, both, 4);
    add_multiset<TMO, 4, LMo, 4>(m, both, 4);
    add_multiset<TCO, 4, LCo, 4>(m, both, 4);
    add_set<S, TR3, 3, etl::less<TR3>, 4>(m, both, 2);
    add_set<F, TR3, 3, etl::less<TR3>, 4>(m, both, 2);
    add_multiset<TR3, 4, etl::less<TR3>, 4>(m, both, 4);
#endif
#if !defined(MC_PART) || MC_PART == 17
    // capacity boundaries of static_set beyond 5, key universe = capacity + 2
    add_set<S, int, 6, L, 8>(m, th, 2, 300);
    add_set<S, int, 7, G, 9>(m, th, 2, 300);
    add_set<S, int, 8, LT, 10>(m, th, 2, 300);
#endif
#if !defined(MC_PART) || MC_PART == 18
    add_set<F, int, 6, L, 8>(m, th, 2, 300);
    add_set<F, int, 8, GT, 10>(m, th, 2, 200);
#endif
#if !defined(MC_PART) || MC_PART == 19
    // fill / clear / refill histories keyed on the raw object bytes (stale storage is part of the state)
    add_set<S, int, 4, L, 6, true>(m, th, 2, 300);
    add_set<F, int, 4, L, 6, true>(m, th, 2, 300);
#endif
#if !defined(MC_PART) || MC_PART == 20
    add_set<S, int, 4, HalfGreater, 8>(m, th, 3);
    add_set<F, int, 4, HalfGreater, 8>(m, th, 3);
    add_set<F, int, 4, DirCmp, 6>(m, th, 3);
    add_set<S, TCM, 3, HalfLess, 6>(m, th, 2);
    add_set<F, TCM, 3, HalfLess, 6>(m, th, 2);
#endif
#if !defined(MC_PART) || MC_PART == 21
    add_set<S, TMO, 4, GMo, 6>(m, th, 3);
    add_set<F, TMO, 4, GMo, 6>(m, th, 3);
    add_set<S, TCO, 4, GCo, 6>(m, th, 3);
    add_set<F, TCO, 4, GCo, 6>(m, th, 3);
    add_set<F, int, 1000, L, 7, false, heapvec>(m, th, 3);
    add_set<F, int, 1000, HalfLessT, 6, false, heapvec>(m, th, 2);
#endif
#if !defined(MC_PART) || MC_PART == 22
    add_stale<S, 6, L, 8>(m, th, 6);
    add_stale<F, 6, G, 8>(m, th, 6);
    add_stale<S, 8, LT, 9>(m, th, 3);
    add_stale<F, 4, HalfLess, 7>(m, th, 6);
    add_multiset_heapvec<int, G, 6>(m, th, 6);
    add_multiset<int, 6, HalfGreater, 6>(m, th, 6);
    add_multiset<TMO, 5, GMo, 5>(m, th, 5);
    add_multiset<TCO, 5, GCo, 5>(m, th, 5);
    add_multiset<TCM, 4, HalfLess, 5>(m, th, 4);
    add_multiset_inplace<int, 5, HalfLess, 6>(m, th, 5);
    add_inplace_lookup<int, 4, HalfLessT, 7>(m, th);
#endif
    return m.run();
}
