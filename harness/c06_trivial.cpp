// C06, part "trivial": the algorithms over TRIVIALLY COPYABLE element types through raw (const and non-const)
// pointers - the combination for which an implementation may take a memcmp / memmove / memset shortcut, and which
// the tagged element type E of the other parts (not trivially copyable) can never reach.
//   element types: signed char, int, double, a padded struct (quick); unsigned char, short, unsigned, long long,
//                  float (thorough, -DMC_PART=2)
//   alphabets are chosen so that the order of the object representation differs from the order of the values
//   (negative numbers, values >= 0x100 on a little-endian machine, -0.0 / +0.0 / NaN, a struct whose padding
//   byte differs between the two ranges): a byte-wise comparison, a byte count that forgets sizeof(T), or a
//   memset of a multi-byte value gives a different answer than the element-wise algorithm
//   one range : find count search_n min_element max_element minmax_element is_sorted is_sorted_until adjacent_find
//               lower_bound upper_bound binary_search equal_range (sorted inputs) accumulate
//               fill fill_n replace remove unique reverse rotate sort stable_sort iota(int types)
//               copy copy_n copy_backward move move_backward reverse_copy rotate_copy remove_copy unique_copy
//               copy/move to the left and copy_backward/move_backward to the right within the buffer
//   two ranges: equal(3,4) mismatch(3,4) lexicographical_compare search find_end find_first_of is_permutation
//               swap_ranges, merge includes set_union set_intersection set_difference (sorted inputs)
// Everything is compared with libstdc++ element for element (unstable sort: sorted + same multiset).
#include "c06_common.hpp"

#include <cmath>
#include <limits>

using namespace c06;

namespace {

/// trivially copyable, with one byte of padding after `b`; compared member-wise
struct P {
    short a{0};
    signed char b{0};
    P() = default;
    constexpr P(int x, int y) : a(static_cast<short>(x)), b(static_cast<signed char>(y)) { }
    explicit constexpr P(int x) : a(static_cast<short>(x)), b(static_cast<signed char>(x >> 16)) { }
    friend bool operator==(P const& x, P const& y) { return x.a == y.a && x.b == y.b; }
    friend bool operator!=(P const& x, P const& y) { return !(x == y); }
    friend bool operator<(P const& x, P const& y) { return x.a < y.a || (x.a == y.a && x.b < y.b); }
};
static_assert(sizeof(P) == 4 && std::is_trivially_copyable_v<P>);
void observe(Obs& o, P const& p)
{
    o.num(p.a);
    o.num(p.b);
}
std::string show(P const& p) { return cat("{", int(p.a), ",", int(p.b), "}"); }
std::string show(double d)
{
    if (d != d) { return "nan"; }
    if (d == 0.0) { return std::signbit(d) ? "-0.0" : "0.0"; }
    return std::to_string(d);
}
template <typename T>
    requires std::is_integral_v<T>
std::string show(T v)
{
    return std::to_string(static_cast<long long>(v));
}

/// eq: alphabet for the algorithms that only use ==; ord: alphabet for the ones that use < (a strict weak order);
/// absent: a value that never occurs
template <typename T>
struct Alpha;
template <>
struct Alpha<signed char> {
    static constexpr char const* name = "signed_char";
    static constexpr signed char eq[3]  = {-1, 0, 1};
    static constexpr signed char ord[3] = {-1, 0, 1};
    static constexpr signed char absent = 7;
};
template <>
struct Alpha<unsigned char> {
    static constexpr char const* name = "unsigned_char";
    static constexpr unsigned char eq[3]  = {0, 1, 200};
    static constexpr unsigned char ord[3] = {0, 1, 200};
    static constexpr unsigned char absent = 7;
};
template <>
struct Alpha<short> {
    static constexpr char const* name = "short";
    static constexpr short eq[3]  = {-1, 1, 256};
    static constexpr short ord[3] = {-1, 1, 256};
    static constexpr short absent = 7;
};
template <>
struct Alpha<int> {
    static constexpr char const* name = "int";
    static constexpr int eq[3]  = {-1, 1, 256};
    static constexpr int ord[3] = {-1, 1, 256};
    static constexpr int absent = 7;
};
template <>
struct Alpha<unsigned> {
    static constexpr char const* name = "unsigned";
    static constexpr unsigned eq[3]  = {1u, 256u, 0xFFFFFFFFu};
    static constexpr unsigned ord[3] = {1u, 256u, 0xFFFFFFFFu};
    static constexpr unsigned absent = 7;
};
template <>
struct Alpha<long long> {
    static constexpr char const* name = "long_long";
    static constexpr long long eq[3]  = {-1, 1, 1LL << 32};
    static constexpr long long ord[3] = {-1, 1, 1LL << 32};
    static constexpr long long absent = 7;
};
template <>
struct Alpha<double> {
    static constexpr char const* name = "double";
    static inline double const eq[3]  = {0.0, -0.0, std::numeric_limits<double>::quiet_NaN()};
    static inline double const ord[3] = {-1.0, -0.0, 0.0};
    static constexpr double absent    = 7.0;
};
template <>
struct Alpha<float> {
    static constexpr char const* name = "float";
    static inline float const eq[3]  = {0.0f, -0.0f, std::numeric_limits<float>::quiet_NaN()};
    static inline float const ord[3] = {-1.0f, -0.0f, 0.0f};
    static constexpr float absent    = 7.0f;
};
template <>
struct Alpha<P> {
    static constexpr char const* name = "padded_struct";
    static constexpr P eq[3]  = {P{-1, 1}, P{1, -1}, P{256, 0}};
    static constexpr P ord[3] = {P{-1, 1}, P{1, -1}, P{256, 0}};
    static constexpr P absent = P{7, 7};
};

template <typename T>
std::vector<T> values(ISeq const& idx, T const (&alpha)[3])
{
    std::vector<T> v;
    v.reserve(idx.size());
    for (int i : idx) { v.push_back(alpha[i]); }
    return v;
}
template <typename T>
std::string vshow(std::vector<T> const& v)
{
    std::string o = "[";
    for (std::size_t i = 0; i < v.size(); ++i) {
        if (i != 0) { o += ","; }
        o += show(v[i]);
    }
    return o + "]";
}

/// gives the padding byte of every P in the block a chosen value (the two ranges of a case get different ones)
template <typename T>
void poke(Buf<T>& b, unsigned char pattern)
{
    if constexpr (std::is_same_v<T, P>) {
        for (auto* p = b.lo(); p != b.hi(); ++p) { reinterpret_cast<unsigned char*>(p)[3] = pattern; }
    } else {
        (void)b;
        (void)pattern;
    }
}

/// source ranges are handed over as T const* (CP) or T* (MP): shortcuts are often selected on the exact pointer type
struct MP {
    static constexpr char const* name = "T*";
    template <typename T>
    static T* at(Buf<T>& b, std::size_t i)
    {
        return b.b() + i;
    }
};
struct CP {
    static constexpr char const* name = "T const*";
    template <typename T>
    static T const* at(Buf<T>& b, std::size_t i)
    {
        return b.b() + i;
    }
};

template <typename T>
bool is_nan(T const& v)
{
    if constexpr (std::is_floating_point_v<T>) {
        return v != v;
    } else {
        return false;
    }
}
template <typename T>
bool has_nan(std::vector<T> const& v)
{
    return std::any_of(v.begin(), v.end(), [](T const& x) { return is_nan(x); });
}

// ------------------------------------------------------------------------------------------
// one range, equality alphabet
// ------------------------------------------------------------------------------------------
template <typename T, typename S>
void one_eq(Ctx& c, std::vector<T> const& a)
{
    using A       = Alpha<T>;
    auto const n  = a.size();
    bool const nt = n >= 2;
    std::string const fl = cat(A::name, " ", S::name);
    auto cls   = [&] { return cat(len_class(n), "+", A::name); };
    auto kase0 = [&] { return cat(fl, " a=", vshow(a)); };

    T const probes[4] = {A::eq[0], A::eq[1], A::eq[2], A::absent};
    for (T const& value : probes) {
        auto kase = [&] { return cat(fl, " a=", vshow(a), " value=", show(value)); };
        if (c.want("find(first,last,value)")) {
            c.run("find(first,last,value)", nt, [&](auto lib, Obs& o) {
                Buf<T> X(a);
                poke(X, 0x11);
                auto it = C06_ALG(find)(lib, S::at(X, 0), S::at(X, n), value);
                o.num(it - X.b());
                o.buf(X);
            }, cls, kase);
        }
        if (c.want("count(first,last,value)")) {
            c.run("count(first,last,value)", nt, [&](auto lib, Obs& o) {
                Buf<T> X(a);
                poke(X, 0x11);
                o.num(static_cast<long>(C06_ALG(count)(lib, S::at(X, 0), S::at(X, n), value)));
            }, cls, kase);
        }
        if (c.want("search_n(first,last,count,value)")) {
            for (int cnt = 0; cnt <= static_cast<int>(n) + 1; ++cnt) {
                c.run("search_n(first,last,count,value)", nt, [&](auto lib, Obs& o) {
                    Buf<T> X(a);
                    poke(X, 0x11);
                    auto it = C06_ALG(search_n)(lib, S::at(X, 0), S::at(X, n), cnt, value);
                    o.num(it - X.b());
                }, cls, [&] { return cat(fl, " a=", vshow(a), " count=", cnt, " value=", show(value)); });
            }
        }
        if constexpr (std::is_same_v<S, MP>) {
            if (c.want("fill(first,last,value)")) {
                c.run("fill(first,last,value)", nt, [&](auto lib, Obs& o) {
                    Buf<T> X(a);
                    C06_ALG(fill)(lib, X.b(), X.e(), value);
                    o.buf(X);
                }, cls, kase);
            }
            if (c.want("fill_n(first,count,value)")) {
                for (int cnt = -1; cnt <= static_cast<int>(n); ++cnt) {
                    c.run("fill_n(first,count,value)", nt, [&](auto lib, Obs& o) {
                        Buf<T> X(a);
                        auto it = C06_ALG(fill_n)(lib, X.b(), cnt, value);
                        o.num(it - X.b());
                        o.buf(X);
                    }, cls, [&] { return cat(fl, " a=", vshow(a), " count=", cnt, " value=", show(value)); });
                }
            }
            if (c.want("remove(first,last,value)")) {
                auto const keep = n - static_cast<std::size_t>(std::count(a.begin(), a.end(), value));
                c.run("remove(first,last,value)", nt, [&](auto lib, Obs& o) {
                    Buf<T> X(a);
                    auto it = C06_ALG(remove)(lib, X.b(), X.e(), value);
                    o.num(it - X.b());
                    o.buf(X, 0, keep);
                }, cls, kase);
            }
            if (c.want("replace(first,last,old,new)")) {
                c.run("replace(first,last,old,new)", nt, [&](auto lib, Obs& o) {
                    Buf<T> X(a);
                    C06_ALG(replace)(lib, X.b(), X.e(), value, A::absent);
                    o.buf(X);
                }, cls, kase);
            }
        }
        if (c.want("remove_copy(first,last,d_first,value)")) {
            auto const keep = n - static_cast<std::size_t>(std::count(a.begin(), a.end(), value));
            c.run("remove_copy(first,last,d_first,value)", nt, [&](auto lib, Obs& o) {
                Buf<T> X(a);
                Buf<T> D(keep, A::absent);
                auto it = C06_ALG(remove_copy)(lib, S::at(X, 0), S::at(X, n), D.b(), value);
                o.num(it - D.b());
                o.buf(D);
            }, cls, kase);
        }
    }
    if (c.want("adjacent_find(first,last)")) {
        c.run("adjacent_find(first,last)", nt, [&](auto lib, Obs& o) {
            Buf<T> X(a);
            poke(X, 0x11);
            // the padding of neighbouring elements differs
            if constexpr (std::is_same_v<T, P>) {
                for (std::size_t i = 0; i < n; i += 2) { reinterpret_cast<unsigned char*>(X.b() + i)[3] = 0x22; }
            }
            auto it = C06_ALG(adjacent_find)(lib, S::at(X, 0), S::at(X, n));
            o.num(it - X.b());
        }, cls, kase0);
    }
    // copying algorithms: source a, destination an exact-size block
    auto copier = [&](char const* subject, std::size_t dsize, auto call) {
        if (!c.want(subject)) { return; }
        c.run(subject, nt, [&](auto lib, Obs& o) {
            Buf<T> X(a);
            Buf<T> D(dsize, A::absent);
            poke(X, 0x11);
            poke(D, 0x22);
            auto it = call(lib, X, D);
            o.num(it - D.b());
            o.buf(D);
            o.buf(X);
        }, cls, kase0);
    };
    copier("copy(first,last,d_first)", n, [&](auto lib, auto& X, auto& D) { return C06_ALG(copy)(lib, S::at(X, 0), S::at(X, n), D.b()); });
    copier("copy_backward(first,last,d_last)", n, [&](auto lib, auto& X, auto& D) { return C06_ALG(copy_backward)(lib, S::at(X, 0), S::at(X, n), D.e()); });
    copier("reverse_copy(first,last,d_first)", n, [&](auto lib, auto& X, auto& D) { return C06_ALG(reverse_copy)(lib, S::at(X, 0), S::at(X, n), D.b()); });
    if constexpr (std::is_same_v<S, MP>) {
        copier("move(first,last,d_first)", n, [&](auto lib, auto& X, auto& D) { return C06_ALG(move)(lib, X.b(), X.e(), D.b()); });
        copier("move_backward(first,last,d_last)", n, [&](auto lib, auto& X, auto& D) { return C06_ALG(move_backward)(lib, X.b(), X.e(), D.e()); });
    }
    for (std::size_t k = 0; k <= n; ++k) {
        auto kkase = [&] { return cat(fl, " a=", vshow(a), " k=", k); };
        if (c.want("copy_n(first,count,result)")) {
            c.run("copy_n(first,count,result)", nt, [&](auto lib, Obs& o) {
                Buf<T> X(a);
                Buf<T> D(k, A::absent);
                auto it = C06_ALG(copy_n)(lib, S::at(X, 0), static_cast<int>(k), D.b());
                o.num(it - D.b());
                o.buf(D);
            }, cls, kkase);
        }
        if (c.want("rotate_copy(first,n_first,last,d_first)")) {
            c.run("rotate_copy(first,n_first,last,d_first)", nt, [&](auto lib, Obs& o) {
                Buf<T> X(a);
                Buf<T> D(n, A::absent);
                auto it = C06_ALG(rotate_copy)(lib, S::at(X, 0), S::at(X, k), S::at(X, n), D.b());
                o.num(it - D.b());
                o.buf(D);
            }, cls, kkase);
        }
        if constexpr (std::is_same_v<S, MP>) {
            if (c.want("rotate(first,n_first,last)")) {
                c.run("rotate(first,n_first,last)", nt, [&](auto lib, Obs& o) {
                    Buf<T> X(a);
                    auto it = C06_ALG(rotate)(lib, X.b(), X.b() + k, X.e());
                    o.num(it - X.b());
                    o.buf(X);
                }, cls, kkase);
            }
            if (k >= 1) {
                // overlapping: to the left by k, to the right by k (trivially copyable: the moved-from source keeps its value,
                // but only the destination is specified for move/move_backward)
                if (c.want("copy(first,last,d_first) overlapping left")) {
                    c.run("copy(first,last,d_first) overlapping left", nt, [&](auto lib, Obs& o) {
                        Buf<T> X(a);
                        auto it = C06_ALG(copy)(lib, S::at(X, k), S::at(X, n), X.b());
                        o.num(it - X.b());
                        o.buf(X);
                    }, cls, kkase);
                }
                if (c.want("move(first,last,d_first) overlapping left")) {
                    c.run("move(first,last,d_first) overlapping left", nt, [&](auto lib, Obs& o) {
                        Buf<T> X(a);
                        auto it = C06_ALG(move)(lib, X.b() + k, X.e(), X.b());
                        o.num(it - X.b());
                        o.buf(X, 0, n - k);
                    }, cls, kkase);
                }
                if (c.want("copy_backward(first,last,d_last) overlapping right")) {
                    c.run("copy_backward(first,last,d_last) overlapping right", nt, [&](auto lib, Obs& o) {
                        Buf<T> X(a);
                        auto it = C06_ALG(copy_backward)(lib, S::at(X, 0), S::at(X, n - k), X.e());
                        o.num(it - X.b());
                        o.buf(X);
                    }, cls, kkase);
                }
                if (c.want("move_backward(first,last,d_last) overlapping right")) {
                    c.run("move_backward(first,last,d_last) overlapping right", nt, [&](auto lib, Obs& o) {
                        Buf<T> X(a);
                        auto it = C06_ALG(move_backward)(lib, X.b(), X.b() + (n - k), X.e());
                        o.num(it - X.b());
                        o.buf(X, k, n);
                    }, cls, kkase);
                }
            }
        }
    }
    if constexpr (std::is_same_v<S, MP>) {
        if (c.want("reverse(first,last)")) {
            c.run("reverse(first,last)", nt, [&](auto lib, Obs& o) {
                Buf<T> X(a);
                C06_ALG(reverse)(lib, X.b(), X.e());
                o.buf(X);
            }, cls, kase0);
        }
    }
}

// ------------------------------------------------------------------------------------------
// one range, ordering alphabet
// ------------------------------------------------------------------------------------------
template <typename T, typename S>
void one_ord(Ctx& c, std::vector<T> const& a)
{
    using A       = Alpha<T>;
    auto const n  = a.size();
    bool const nt = n >= 2;
    std::string const fl = cat(A::name, " ", S::name);
    auto cls   = [&] { return cat(len_class(n), "+", A::name); };
    auto kase0 = [&] { return cat(fl, " a=", vshow(a)); };

#define C06_T_ITER(NAME)                                                                                                        \
    if (c.want(#NAME "(first,last)")) {                                                                                         \
        c.run(#NAME "(first,last)", nt, [&](auto lib, Obs& o) {                                                                 \
            Buf<T> X(a);                                                                                                        \
            poke(X, 0x11);                                                                                                      \
            auto it = C06_ALG(NAME)(lib, S::at(X, 0), S::at(X, n));                                                             \
            o.num(it - X.b());                                                                                                  \
        }, cls, kase0);                                                                                                         \
    }
    C06_T_ITER(min_element)
    C06_T_ITER(max_element)
    C06_T_ITER(is_sorted_until)
#undef C06_T_ITER
    if (c.want("minmax_element(first,last)")) {
        c.run("minmax_element(first,last)", nt, [&](auto lib, Obs& o) {
            Buf<T> X(a);
            auto pr = C06_ALG(minmax_element)(lib, S::at(X, 0), S::at(X, n));
            o.num(pr.first - X.b());
            o.num(pr.second - X.b());
        }, cls, kase0);
    }
    if (c.want("is_sorted(first,last)")) {
        c.run("is_sorted(first,last)", nt, [&](auto lib, Obs& o) {
            Buf<T> X(a);
            o.num(C06_ALG(is_sorted)(lib, S::at(X, 0), S::at(X, n)));
        }, cls, kase0);
    }
    if constexpr (std::is_same_v<S, MP>) {
        if (c.want("unique(first,last)")) { // == is an equivalence relation on the ordering alphabets (no NaN)
            std::size_t k = 0;
            for (std::size_t i = 0; i < n; ++i) {
                if (i == 0 || !(a[i - 1] == a[i])) { ++k; }
            }
            c.run("unique(first,last)", nt, [&](auto lib, Obs& o) {
                Buf<T> X(a);
                auto it = C06_ALG(unique)(lib, X.b(), X.e());
                o.num(it - X.b());
                o.buf(X, 0, k);
            }, cls, kase0);
        }
        if (c.want("sort(first,last)")) {
            c.run("sort(first,last)", nt, [&](auto lib, Obs& o) {
                Buf<T> X(a);
                C06_ALG(sort)(lib, X.b(), X.e());
                o.num(std::is_sorted(X.b(), X.e()));
                o.bag(X); // equivalent elements that differ in representation (-0.0, 0.0) may come in any order
            }, cls, kase0);
        }
        if (c.want("stable_sort(first,last)")) {
            c.run("stable_sort(first,last)", nt, [&](auto lib, Obs& o) {
                Buf<T> X(a);
                C06_ALG(stable_sort)(lib, X.b(), X.e());
                o.buf(X);
            }, cls, kase0);
        }
        if constexpr (std::is_integral_v<T>) {
            if (c.want("iota(first,last,value)")) {
                c.run("iota(first,last,value)", nt, [&](auto lib, Obs& o) {
                    Buf<T> X(a);
                    C06_ALG(iota)(lib, X.b(), X.e(), A::ord[0]);
                    o.buf(X);
                }, cls, kase0);
            }
        }
    }
    if constexpr (std::is_arithmetic_v<T>) {
        // sum in a type that holds it: long long for the integers, double for the floating-point types
        using Acc = std::conditional_t<std::is_floating_point_v<T>, double, long long>;
        if (c.want("accumulate(first,last,init)")) {
            c.run("accumulate(first,last,init)", nt, [&](auto lib, Obs& o) {
                Buf<T> X(a);
                o.elem(C06_ALG(accumulate)(lib, S::at(X, 0), S::at(X, n), Acc{3}));
            }, cls, kase0);
        }
    }
    if (std::is_sorted(a.begin(), a.end())) {
        T const probes[4] = {A::ord[0], A::ord[1], A::ord[2], A::absent};
        for (T const& value : probes) {
            auto kase = [&] { return cat(fl, " a=", vshow(a), " value=", show(value)); };
#define C06_T_BS(NAME)                                                                                                          \
    if (c.want(#NAME "(first,last,value)")) {                                                                                   \
        c.run(#NAME "(first,last,value)", nt, [&](auto lib, Obs& o) {                                                           \
            Buf<T> X(a);                                                                                                        \
            auto it = C06_ALG(NAME)(lib, S::at(X, 0), S::at(X, n), value);                                                      \
            o.num(it - X.b());                                                                                                  \
        }, cls, kase);                                                                                                          \
    }
            C06_T_BS(lower_bound)
            C06_T_BS(upper_bound)
#undef C06_T_BS
            if (c.want("binary_search(first,last,value)")) {
                c.run("binary_search(first,last,value)", nt, [&](auto lib, Obs& o) {
                    Buf<T> X(a);
                    o.num(C06_ALG(binary_search)(lib, S::at(X, 0), S::at(X, n), value));
                }, cls, kase);
            }
            if (c.want("equal_range(first,last,value)")) {
                c.run("equal_range(first,last,value)", nt, [&](auto lib, Obs& o) {
                    Buf<T> X(a);
                    auto pr = C06_ALG(equal_range)(lib, S::at(X, 0), S::at(X, n), value);
                    o.num(pr.first - X.b());
                    o.num(pr.second - X.b());
                }, cls, kase);
            }
        }
    }
}

// ------------------------------------------------------------------------------------------
// two ranges
// ------------------------------------------------------------------------------------------
template <typename T, typename S>
void two_eq(Ctx& c, std::vector<T> const& a, std::vector<T> const& b)
{
    using A       = Alpha<T>;
    auto const n  = a.size();
    auto const m  = b.size();
    bool const nt = n >= 2 && m >= 1;
    std::string const fl = cat(A::name, " ", S::name);
    auto cls  = [&] { return cat(m == n ? len_class(n) : m < n ? "second_shorter" : "second_longer", "+", A::name); };
    auto kase = [&] { return cat(fl, " a=", vshow(a), " b=", vshow(b)); };

#define C06_T_TWO(SUBJ, ...)                                                                                                    \
    if (c.want(SUBJ)) {                                                                                                         \
        c.run(SUBJ, nt, [&](auto lib, Obs& o) {                                                                                 \
            Buf<T> X(a);                                                                                                        \
            Buf<T> Y(b);                                                                                                        \
            poke(X, 0x11);                                                                                                      \
            poke(Y, 0x22);                                                                                                      \
            auto f1 = S::at(X, 0);                                                                                              \
            auto l1 = S::at(X, n);                                                                                              \
            auto f2 = S::at(Y, 0);                                                                                              \
            auto l2 = S::at(Y, m);                                                                                              \
            (void)l2;                                                                                                           \
            __VA_ARGS__;                                                                                                        \
        }, cls, kase);                                                                                                          \
    }
    if (m >= n) {
        C06_T_TWO("equal(first1,last1,first2)", o.num(C06_ALG(equal)(lib, f1, l1, f2)))
        C06_T_TWO("mismatch(first1,last1,first2)", auto pr = C06_ALG(mismatch)(lib, f1, l1, f2); o.num(pr.first - X.b()); o.num(pr.second - Y.b()))
        if (!has_nan(a) && !has_nan(b)) { // is_permutation needs an equivalence relation
            C06_T_TWO("is_permutation(first1,last1,first2)", o.num(C06_ALG(is_permutation)(lib, f1, l1, f2)))
        }
        if constexpr (std::is_same_v<S, MP>) {
            C06_T_TWO("swap_ranges(first1,last1,first2)", auto it = C06_ALG(swap_ranges)(lib, f1, l1, f2); o.num(it - Y.b()); o.buf(X); o.buf(Y))
        }
    }
    C06_T_TWO("equal(first1,last1,first2,last2)", o.num(C06_ALG(equal)(lib, f1, l1, f2, l2)))
    C06_T_TWO("mismatch(first1,last1,first2,last2)", auto pr = C06_ALG(mismatch)(lib, f1, l1, f2, l2); o.num(pr.first - X.b()); o.num(pr.second - Y.b()))
    if (!has_nan(a) && !has_nan(b)) {
        C06_T_TWO("is_permutation(first1,last1,first2,last2)", o.num(C06_ALG(is_permutation)(lib, f1, l1, f2, l2)))
    }
    C06_T_TWO("search(first,last,s_first,s_last)", auto it = C06_ALG(search)(lib, f1, l1, f2, l2); o.num(it - X.b()))
    C06_T_TWO("find_end(first,last,s_first,s_last)", auto it = C06_ALG(find_end)(lib, f1, l1, f2, l2); o.num(it - X.b()))
    C06_T_TWO("find_first_of(first,last,s_first,s_last)", auto it = C06_ALG(find_first_of)(lib, f1, l1, f2, l2); o.num(it - X.b()))
#undef C06_T_TWO
}

template <typename T, typename S>
void two_ord(Ctx& c, std::vector<T> const& a, std::vector<T> const& b)
{
    using A       = Alpha<T>;
    auto const n  = a.size();
    auto const m  = b.size();
    bool const nt = n >= 1 && m >= 1 && n + m >= 3;
    std::string const fl = cat(A::name, " ", S::name);
    auto cls  = [&] { return cat(m == n ? len_class(n) : m < n ? "second_shorter" : "second_longer", "+", A::name); };
    auto kase = [&] { return cat(fl, " a=", vshow(a), " b=", vshow(b)); };

    if (c.want("lexicographical_compare(first1,last1,first2,last2)")) {
        c.run("lexicographical_compare(first1,last1,first2,last2)", nt, [&](auto lib, Obs& o) {
            Buf<T> X(a);
            Buf<T> Y(b);
            poke(X, 0x11);
            poke(Y, 0x22);
            o.num(C06_ALG(lexicographical_compare)(lib, S::at(X, 0), S::at(X, n), S::at(Y, 0), S::at(Y, m)));
        }, cls, kase);
    }
    if (!std::is_sorted(a.begin(), a.end()) || !std::is_sorted(b.begin(), b.end())) { return; }
    if (c.want("includes(first1,last1,first2,last2)")) {
        c.run("includes(first1,last1,first2,last2)", nt, [&](auto lib, Obs& o) {
            Buf<T> X(a);
            Buf<T> Y(b);
            o.num(C06_ALG(includes)(lib, S::at(X, 0), S::at(X, n), S::at(Y, 0), S::at(Y, m)));
        }, cls, kase);
    }
#define C06_T_SET(NAME)                                                                                                         \
    if (c.want(#NAME "(first1,last1,first2,last2,d_first)")) {                                                                  \
        std::vector<T> ref(n + m + 1, A::absent);                                                                               \
        auto const k = static_cast<std::size_t>(std::NAME(a.begin(), a.end(), b.begin(), b.end(), ref.begin()) - ref.begin());  \
        c.run(#NAME "(first1,last1,first2,last2,d_first)", nt, [&](auto lib, Obs& o) {                                          \
            Buf<T> X(a);                                                                                                        \
            Buf<T> Y(b);                                                                                                        \
            Buf<T> D(k, A::absent);                                                                                             \
            auto it = C06_ALG(NAME)(lib, S::at(X, 0), S::at(X, n), S::at(Y, 0), S::at(Y, m), D.b());                            \
            o.num(it - D.b());                                                                                                  \
            o.buf(D);                                                                                                           \
        }, cls, kase);                                                                                                          \
    }
    C06_T_SET(merge)
    C06_T_SET(set_union)
    C06_T_SET(set_intersection)
    C06_T_SET(set_difference)
#undef C06_T_SET
}

template <typename T>
void job_trivial(mc::Reporter& r, int qL, int qM, int tL, int tM)
{
    using A = Alpha<T>;
    Ctx c(r);
    auto const bd    = bounds(r, qL, qM, tL, tM);
    auto const pool  = make_ipool(bd.L, {0, 1, 2});
    auto const pool2 = make_ipool(bd.M, {0, 1, 2});
    r.count("sequences", 2 * pool.size() + 2 * pool.size() * pool2.size());
    for (auto const& ia : pool) {
        if (c.out_of_time()) { break; }
        auto const ae = values<T>(ia, A::eq);
        auto const ao = values<T>(ia, A::ord);
        one_eq<T, MP>(c, ae);
        one_eq<T, CP>(c, ae);
        one_ord<T, MP>(c, ao);
        one_ord<T, CP>(c, ao);
        for (auto const& ib : pool2) {
            auto const be = values<T>(ib, A::eq);
            auto const bo = values<T>(ib, A::ord);
            two_eq<T, MP>(c, ae, be);
            two_eq<T, CP>(c, ae, be);
            two_ord<T, CP>(c, ao, bo);
        }
    }
    r.sample(cat(A::name, ": every sequence of length 0..", bd.L, " over {", show(A::eq[0]), ",", show(A::eq[1]), ",", show(A::eq[2]),
        "} (== algorithms) and {", show(A::ord[0]), ",", show(A::ord[1]), ",", show(A::ord[2]), "} (< algorithms), second ranges of length 0..", bd.M,
        ", through T* and T const*; values absent from the alphabet: ", show(A::absent)));
}

} // namespace

int main(int argc, char** argv)
{
    mc::Main m(argc, argv);
    std::vector<std::string> const both{"quick", "thorough"};
#if !defined(MC_PART) || MC_PART == 1
    m.job("trivial/signed_char", both, [](mc::Reporter& r) { job_trivial<signed char>(r, 5, 3, 7, 4); });
    m.job("trivial/int", both, [](mc::Reporter& r) { job_trivial<int>(r, 5, 3, 7, 4); });
    m.job("trivial/double", both, [](mc::Reporter& r) { job_trivial<double>(r, 5, 3, 7, 4); });
    m.job("trivial/padded_struct", both, [](mc::Reporter& r) { job_trivial<P>(r, 5, 3, 7, 4); });
    m.job("sub/trivial/int", both, sub([](mc::Reporter& r) { job_trivial<int>(r, 5, 3, 7, 4); }));
#endif
#if defined(MC_PART) && MC_PART == 2
    m.job("trivial/unsigned_char", both, [](mc::Reporter& r) { job_trivial<unsigned char>(r, 5, 3, 7, 4); });
    m.job("trivial/short", both, [](mc::Reporter& r) { job_trivial<short>(r, 5, 3, 7, 4); });
    m.job("trivial/unsigned", both, [](mc::Reporter& r) { job_trivial<unsigned>(r, 5, 3, 7, 4); });
    m.job("trivial/long_long", both, [](mc::Reporter& r) { job_trivial<long long>(r, 5, 3, 7, 4); });
    m.job("trivial/float", both, [](mc::Reporter& r) { job_trivial<float>(r, 5, 3, 7, 4); });
    m.job("sub/trivial/signed_char", both, sub([](mc::Reporter& r) { job_trivial<signed char>(r, 5, 3, 7, 4); }));
#endif
    return m.run();
}
