// C20 round 2 (a)/(b): pair / tuple holding REFERENCES (X&, X const&, X&&), MOVE-ONLY elements and counted copyable
// elements through tuple_cat, apply, make_from_tuple, get, swap and structured bindings, for every value category of
// the tuple argument, compared with std::tuple / std::pair holding the very same element types.
//
// Tuple-like kinds K: tuple<X>, tuple<X&>, tuple<X const&>, tuple<X&&>, tuple<MoveOnly>, tuple<int,X>, pair<X,int>,
//   tuple<X,X&,MoveOnly>  (X counts its copy/move constructions and assignments and reads -1 once moved from).
// tuple_cat: 1 argument: all 8 kinds x {&, const&, &&, const&&}; 2 arguments: all ordered pairs of a 12-entry menu of
//   (kind, category); 3 arguments: all ordered triples of a 6-entry menu; 4 arguments: all 81 4-tuples of a 3-entry
//   menu.  A combination is executed when std::tuple_cat is well-formed for it (every result element constructible
//   from get<I>(forward<Tuple>(t))); then tetl must agree on: the result type, the element values, which source cell
//   every reference element of the result names, the number of copy / move constructions of X and MoveOnly, and the
//   state of every source element afterwards (a tuple passed as lvalue must be left untouched, an rvalue tuple must
//   have exactly its non-reference elements moved from).
// apply / make_from_tuple: all 8 kinds x 4 categories with a category-logging consumer and - where well-formed - with
//   a consumer that takes every element by value (copy/move counts, source state).
// get<I>: result types and referent identity on the 4 categories for the reference-holding kinds.
// swap: tuples / pairs of references swap their referents (values + counts vs std).
// Structured bindings of a pair: auto [a,b] / auto const& / auto&& from lvalue, const lvalue and rvalue pairs.
//
// API gaps (not exercised): tuple_cat() with no argument (tuple<> does not instantiate), structured bindings and
// free swap for tuple, tuple assignment.
#include "mc.hpp"

#include <etl/utility.hpp> // first (see c20_tuple_states.cpp)

#include <etl/functional.hpp>
#include <etl/tuple.hpp>

#include <string>
#include <tuple>
#include <type_traits>
#include <utility>
#include <vector>

using mc::cat;

namespace {

struct Counts {
    int x_copies{0}, x_moves{0}, x_copy_assigns{0}, x_move_assigns{0}, mo_moves{0};
    bool operator==(Counts const&) const = default;
};
Counts g;
std::string show(Counts const& c)
{
    return cat("X:copies=", c.x_copies, ",moves=", c.x_moves, ",copy_assigns=", c.x_copy_assigns, ",move_assigns=", c.x_move_assigns, " MoveOnly:moves=", c.mo_moves);
}

struct X {
    int v{0};
    X() = default;
    explicit X(int x) : v(x) { }
    X(X const& o) : v(o.v) { ++g.x_copies; }
    X(X&& o) noexcept : v(o.v)
    {
        ++g.x_moves;
        o.v = -1;
    }
    X& operator=(X const& o)
    {
        v = o.v;
        ++g.x_copy_assigns;
        return *this;
    }
    X& operator=(X&& o) noexcept
    {
        int const t = o.v; // (self-move safe)
        o.v         = -1;
        v           = t;
        ++g.x_move_assigns;
        return *this;
    }
};
struct MO {
    int v{0};
    explicit MO(int x) : v(x) { }
    MO(MO const&)            = delete;
    MO& operator=(MO const&) = delete;
    MO(MO&& o) noexcept : v(o.v)
    {
        ++g.mo_moves;
        o.v = -1;
    }
    MO& operator=(MO&& o) noexcept
    {
        v   = o.v;
        o.v = -1;
        return *this;
    }
};
int val(int x) { return x; }
int val(X const& x) { return x.v; }
int val(MO const& m) { return m.v; }

template <typename T>
std::string tn()
{
    std::string p = __PRETTY_FUNCTION__;
    auto b        = p.find("T = ");
    if (b == std::string::npos) { return p; }
    b += 4;
    auto e = p.find_first_of(";]", b);
    auto s = p.substr(b, e - b);
    for (auto const& [from, to] : {std::pair<std::string, std::string>{"{anonymous}::", ""}, {"(anonymous namespace)::", ""}}) {
        for (auto pos = s.find(from); pos != std::string::npos; pos = s.find(from, pos)) { s.replace(pos, from.size(), to); }
    }
    return s;
}

template <typename X_>
std::string catname()
{
    std::string s = std::is_const_v<std::remove_reference_t<X_>> ? "const" : "";
    s += std::is_lvalue_reference_v<X_> ? "&" : "&&";
    return s;
}

char const* cat_text(int c)
{
    static char const* n[] = {"&", "const&", "&&", "const&&"};
    return n[c];
}
template <int C, typename T>
decltype(auto) as_cat(T& x)
{
    if constexpr (C == 0) {
        return (x);
    } else if constexpr (C == 1) {
        return std::as_const(x);
    } else if constexpr (C == 2) {
        return std::move(x);
    } else {
        return std::move(std::as_const(x));
    }
}

// the two libraries behind one interface
struct EtlLib {
    static constexpr bool is_etl = true;
    template <typename... T>
    using tuple = etl::tuple<T...>;
    template <typename A, typename B>
    using pair = etl::pair<A, B>;
    template <std::size_t I, typename T>
    static decltype(auto) get(T&& t)
    {
        return etl::get<I>(std::forward<T>(t));
    }
    template <typename T>
    static constexpr std::size_t size = etl::tuple_size_v<std::remove_cvref_t<T>>;
    template <std::size_t I, typename T>
    using element = etl::tuple_element_t<I, std::remove_cvref_t<T>>;
    template <typename... T>
    static auto tuple_cat(T&&... t)
    {
        return etl::tuple_cat(std::forward<T>(t)...);
    }
    template <typename F, typename T>
    static decltype(auto) apply(F&& f, T&& t)
    {
        return etl::apply(std::forward<F>(f), std::forward<T>(t));
    }
    template <typename R, typename T>
    static R make_from_tuple(T&& t)
    {
        return etl::make_from_tuple<R>(std::forward<T>(t));
    }
};
struct StdLib {
    static constexpr bool is_etl = false;
    template <typename... T>
    using tuple = std::tuple<T...>;
    template <typename A, typename B>
    using pair = std::pair<A, B>;
    template <std::size_t I, typename T>
    static decltype(auto) get(T&& t)
    {
        return std::get<I>(std::forward<T>(t));
    }
    template <typename T>
    static constexpr std::size_t size = std::tuple_size_v<std::remove_cvref_t<T>>;
    template <std::size_t I, typename T>
    using element = std::tuple_element_t<I, std::remove_cvref_t<T>>;
    template <typename... T>
    static auto tuple_cat(T&&... t)
    {
        return std::tuple_cat(std::forward<T>(t)...);
    }
    template <typename F, typename T>
    static decltype(auto) apply(F&& f, T&& t)
    {
        return std::apply(std::forward<F>(f), std::forward<T>(t));
    }
    template <typename R, typename T>
    static R make_from_tuple(T&& t)
    {
        return std::make_from_tuple<R>(std::forward<T>(t));
    }
};

template <typename T>
struct to_std {
    using type = T;
};
template <typename... E>
struct to_std<etl::tuple<E...>> {
    using type = std::tuple<E...>;
};
template <typename A, typename B>
struct to_std<etl::pair<A, B>> {
    using type = std::pair<A, B>;
};
template <typename T>
using to_std_t = typename to_std<T>::type;

// ---------------------------------------------------------------------------------------
// holders: the cells a tuple-like refers to / is built from, and the tuple-like itself
// ---------------------------------------------------------------------------------------
enum Kind : int { k_x, k_xref, k_xcref, k_xrref, k_mo, k_int_x, k_pair_x_int, k_x_xref_mo, kind_count };
char const* kind_text(int k)
{
    static char const* n[] = {"tuple<X>", "tuple<X&>", "tuple<X const&>", "tuple<X&&>", "tuple<MoveOnly>", "tuple<int,X>", "pair<X,int>", "tuple<X,X&,MoveOnly>"};
    return n[k];
}

struct Cells {
    X a, b;
    explicit Cells(int base) : a(base + 1), b(base + 2) { }
};

template <typename L, int K>
struct kind_type;
template <typename L>
struct kind_type<L, k_x> {
    using type = typename L::template tuple<X>;
    static type make(Cells& c, int base) { return type(X(base + 5)); }
};
template <typename L>
struct kind_type<L, k_xref> {
    using type = typename L::template tuple<X&>;
    static type make(Cells& c, int) { return type(c.a); }
};
template <typename L>
struct kind_type<L, k_xcref> {
    using type = typename L::template tuple<X const&>;
    static type make(Cells& c, int) { return type(std::as_const(c.a)); }
};
template <typename L>
struct kind_type<L, k_xrref> {
    using type = typename L::template tuple<X&&>;
    static type make(Cells& c, int) { return type(std::move(c.a)); }
};
template <typename L>
struct kind_type<L, k_mo> {
    using type = typename L::template tuple<MO>;
    static type make(Cells&, int base) { return type(MO(base + 6)); }
};
template <typename L>
struct kind_type<L, k_int_x> {
    using type = typename L::template tuple<int, X>;
    static type make(Cells&, int base) { return type(base + 7, X(base + 8)); }
};
template <typename L>
struct kind_type<L, k_pair_x_int> {
    using type = typename L::template pair<X, int>;
    static type make(Cells&, int base) { return type(X(base + 5), base + 7); }
};
template <typename L>
struct kind_type<L, k_x_xref_mo> {
    using type = typename L::template tuple<X, X&, MO>;
    static type make(Cells& c, int base) { return type(X(base + 5), c.b, MO(base + 6)); }
};

template <typename L, int K>
struct Holder {
    using T = typename kind_type<L, K>::type;
    int idx;
    Cells cells;
    T t;
    explicit Holder(int i) : idx(i), cells(100 * (i + 1)), t(kind_type<L, K>::make(cells, 100 * (i + 1))) { }
    Holder(Holder const&)            = delete;
    Holder& operator=(Holder const&) = delete;

    // names the object at address p if it is one of this holder's cells or an element stored in its tuple
    std::string name_of(void const* p) const
    {
        if (p == &cells.a) { return cat("arg", idx, ".cell_a"); }
        if (p == &cells.b) { return cat("arg", idx, ".cell_b"); }
        auto const lo = reinterpret_cast<std::uintptr_t>(&t);
        auto const q  = reinterpret_cast<std::uintptr_t>(p);
        if (q >= lo && q < lo + sizeof(T)) { return cat("arg", idx, ".stored"); }
        return "";
    }
    // values of the source elements (referents for reference elements) and of the cells
    std::string state() const
    {
        std::string o = cat("arg", idx, "=(");
        [&]<std::size_t... I>(std::index_sequence<I...>) { ((o += (I ? "," : "") + std::to_string(val(L::template get<I>(t)))), ...); }(std::make_index_sequence<L::template size<T>>{});
        return o + cat(") cells=(", cells.a.v, ",", cells.b.v, ")");
    }
};

// ---------------------------------------------------------------------------------------
// tuple_cat
// ---------------------------------------------------------------------------------------
template <int K, int C>
struct Arg {
    static constexpr int kind = K;
    static constexpr int cat_ = C;
};

// the element types std::tuple_cat's result has for a list of tuple-like types
template <typename... Tuples>
using std_cat_result_t = decltype(std::tuple_cat(std::declval<Tuples>()...));

// is std::tuple_cat(args...) well-formed including its body: every element of every argument must be able to
// initialise the result element of the same type from get<I>(forward<Tuple>(t))
template <typename TupleRef>
constexpr bool arg_elements_constructible()
{
    using T = std::remove_cvref_t<TupleRef>;
    return []<std::size_t... I>(std::index_sequence<I...>) {
        return (std::is_constructible_v<std::tuple_element_t<I, T>, decltype(std::get<I>(std::declval<TupleRef>()))> && ...);
    }(std::make_index_sequence<std::tuple_size_v<T>>{});
}

template <typename L, typename R, typename... H>
std::string describe_result(R& r, H const&... holders)
{
    std::string o = "(";
    [&]<std::size_t... I>(std::index_sequence<I...>) {
        ((o += (I ? "," : "") + [&] {
            using E        = typename L::template element<I, R>;
            auto&& e       = L::template get<I>(r);
            std::string s  = std::to_string(val(e));
            if constexpr (std::is_reference_v<E>) {
                std::string who;
                ((who += holders.name_of(&e)), ...);
                s += "->" + (who.empty() ? std::string("?") : who);
            }
            return s;
        }()),
            ...);
    }(std::make_index_sequence<L::template size<R>>{});
    return o + ")";
}

template <typename L, typename... A>
struct CatRun {
    template <std::size_t... I>
    static std::string go(std::index_sequence<I...>)
    {
        std::tuple<Holder<L, A::kind>...> hs{static_cast<int>(I)...};
        g             = Counts{};
        auto r        = L::tuple_cat(as_cat<A::cat_>(std::get<I>(hs).t)...);
        Counts const c = g;
        std::string o = cat("result=", describe_result<L>(r, std::get<I>(hs)...), " | ", show(c), " | sources:");
        ((o += " " + std::get<I>(hs).state()), ...);
        return o;
    }
    static std::string run() { return go(std::make_index_sequence<sizeof...(A)>{}); }
    template <std::size_t... I>
    static auto type_probe(std::index_sequence<I...>) -> decltype(L::tuple_cat(as_cat<A::cat_>(std::declval<Holder<L, A::kind>&>().t)...));
    using result_type = decltype(type_probe(std::make_index_sequence<sizeof...(A)>{}));
};

struct Ck {
    mc::Reporter& r;
    std::uint64_t ev{0};
    void eq(std::string const& subj, std::string const& cls, std::string const& what, std::string const& got, std::string const& want)
    {
        ++ev;
        r.outcome(mc::hash_str(got));
        if (r.wants_sample()) { r.sample(cat(what, " -> ", got)); }
        if (got != want) { r.violation("C20", subj, cls, what, cat("tetl: ", got, " | std: ", want)); }
    }
    template <typename Got, typename Want>
    void type(std::string const& subj, std::string const& cls, std::string const& what)
    {
        ++ev;
        r.count("type_checks");
        if constexpr (!std::is_same_v<Got, Want>) { r.violation("C20", subj, cls, what, cat("type tetl=", tn<Got>(), " std=", tn<Want>())); }
    }
    void done()
    {
        r.count("evaluations", ev);
        r.count("distinct_nontrivial", ev);
    }
};

template <typename... A>
std::string args_text()
{
    std::string o;
    ((o += (o.empty() ? "" : ", ") + std::string(kind_text(A::kind)) + cat_text(A::cat_)), ...);
    return o;
}
template <typename... A>
std::string args_class()
{
    bool const lv  = ((A::cat_ == 0) || ...);
    bool const clv = ((A::cat_ == 1) || ...);
    bool const rv  = ((A::cat_ == 2) || ...);
    bool const crv = ((A::cat_ == 3) || ...);
    bool const ref = ((A::kind == k_xref || A::kind == k_xcref || A::kind == k_xrref || A::kind == k_x_xref_mo) || ...);
    bool const mo  = ((A::kind == k_mo || A::kind == k_x_xref_mo) || ...);
    bool const pr  = ((A::kind == k_pair_x_int) || ...);
    std::string o  = cat("args", sizeof...(A));
    if (lv) { o += "+lvalue"; }
    if (clv) { o += "+const_lvalue"; }
    if (rv) { o += "+rvalue"; }
    if (crv) { o += "+const_rvalue"; }
    if (ref) { o += "+ref_element"; }
    if (mo) { o += "+move_only"; }
    if (pr) { o += "+pair"; }
    return o;
}

template <typename... A>
void cat_case(Ck& ck)
{
    constexpr bool valid = (arg_elements_constructible<decltype(as_cat<A::cat_>(std::declval<typename kind_type<StdLib, A::kind>::type&>()))>() && ...);
    ck.r.count("tuple_cat_combinations");
    if constexpr (valid) {
        std::string const subj = sizeof...(A) == 1 ? "tuple_cat(X&&)" : "tuple_cat(Tuples&&...)";
        std::string const what = cat("tuple_cat(", args_text<A...>(), ")");
        ck.r.count("tuple_cat_executed");
        ck.type<to_std_t<typename CatRun<EtlLib, A...>::result_type>, typename CatRun<StdLib, A...>::result_type>(subj, args_class<A...>(), what + " result type");
        ck.eq(subj, args_class<A...>(), what, CatRun<EtlLib, A...>::run(), CatRun<StdLib, A...>::run());
    }
}

template <typename...>
struct TL { };

// all N-tuples over a menu
template <int N, typename Menu, typename... Chosen>
struct CatEnum;
template <int N, typename... M, typename... Chosen>
struct CatEnum<N, TL<M...>, Chosen...> {
    static void run(Ck& ck)
    {
        if constexpr (N == 0) {
            cat_case<Chosen...>(ck);
        } else {
            (CatEnum<N - 1, TL<M...>, Chosen..., M>::run(ck), ...);
        }
    }
};
// first argument fixed (to split the pairs over several jobs / translation units)
template <typename First, typename... M>
void cat_pairs_with_first(Ck& ck, TL<M...>)
{
    (cat_case<First, M>(ck), ...);
}

template <int K>
using AllCats = TL<Arg<K, 0>, Arg<K, 1>, Arg<K, 2>, Arg<K, 3>>;

using Menu2 = TL<Arg<k_x, 0>, Arg<k_x, 1>, Arg<k_x, 2>, Arg<k_xref, 0>, Arg<k_xref, 2>, Arg<k_xcref, 1>, Arg<k_xrref, 2>, Arg<k_mo, 2>, Arg<k_pair_x_int, 0>, Arg<k_pair_x_int, 2>,
    Arg<k_int_x, 3>, Arg<k_x_xref_mo, 2>>;
using Menu3 = TL<Arg<k_x, 0>, Arg<k_x, 2>, Arg<k_xref, 0>, Arg<k_mo, 2>, Arg<k_pair_x_int, 1>, Arg<k_xrref, 2>>;
using Menu4 = TL<Arg<k_x, 0>, Arg<k_mo, 2>, Arg<k_pair_x_int, 2>>;

// ---------------------------------------------------------------------------------------
// apply / make_from_tuple / get on every kind x category
// ---------------------------------------------------------------------------------------
struct LogSink {
    std::string text;
    template <typename... E>
    explicit LogSink(E&&... e)
    {
        ((text += (text.empty() ? "" : ",") + catname<E&&>() + ":" + std::to_string(val(e))), ...);
    }
};
template <typename... E>
struct ValueSink { // takes every element BY VALUE
    std::string text;
    explicit ValueSink(E... e)
    {
        ((text += (text.empty() ? "" : ",") + std::to_string(val(e))), ...);
    }
};

template <typename L, int K, int C>
struct AccessRun {
    using H  = Holder<L, K>;
    using T  = typename H::T;
    using TC = decltype(as_cat<C>(std::declval<T&>()));
    static constexpr std::size_t N = L::template size<T>;

    template <std::size_t... I>
    static constexpr bool by_value_ok(std::index_sequence<I...>)
    {
        return (std::is_constructible_v<std::remove_cvref_t<typename L::template element<I, T>>, decltype(L::template get<I>(std::declval<TC>()))> && ...);
    }
    static constexpr bool by_value_valid = by_value_ok(std::make_index_sequence<N>{});

    static std::string apply_log()
    {
        H h(0);
        g             = Counts{};
        std::string l;
        int const r = L::apply(
            [&](auto&&... e) {
                ((l += (l.empty() ? "" : ",") + catname<decltype(e)>() + ":" + std::to_string(val(e)) + "->" + h.name_of(&e)), ...);
                return 7;
            },
            as_cat<C>(h.t));
        return cat(r, " ", l, " | ", show(g), " | ", h.state());
    }
    static std::string mft_log()
    {
        H h(0);
        g            = Counts{};
        auto const s = L::template make_from_tuple<LogSink>(as_cat<C>(h.t));
        return cat(s.text, " | ", show(g), " | ", h.state());
    }
    template <std::size_t... I>
    static std::string apply_by_value(std::index_sequence<I...>)
    {
        H h(0);
        g = Counts{};
        std::string l;
        L::apply([&](std::remove_cvref_t<typename L::template element<I, T>>... e) { ((l += (l.empty() ? "" : ",") + std::to_string(val(e))), ...); }, as_cat<C>(h.t));
        return cat(l, " | ", show(g), " | ", h.state());
    }
    template <std::size_t... I>
    static std::string mft_by_value(std::index_sequence<I...>)
    {
        H h(0);
        g            = Counts{};
        auto const s = L::template make_from_tuple<ValueSink<std::remove_cvref_t<typename L::template element<I, T>>...>>(as_cat<C>(h.t));
        return cat(s.text, " | ", show(g), " | ", h.state());
    }
    template <std::size_t I>
    using get_type = decltype(L::template get<I>(std::declval<TC>()));
    template <std::size_t... I>
    static std::string get_identity(std::index_sequence<I...>)
    {
        H h(0);
        g = Counts{};
        std::string o;
        ((o += (o.empty() ? "" : ",") + [&] {
            auto&& e = L::template get<I>(as_cat<C>(h.t));
            return std::to_string(val(e)) + "->" + h.name_of(&e);
        }()),
            ...);
        return cat(o, " | ", show(g), " | ", h.state());
    }
};

template <int K, int C>
void access_case(Ck& ck)
{
    using E                = AccessRun<EtlLib, K, C>;
    using S                = AccessRun<StdLib, K, C>;
    using Seq              = std::make_index_sequence<S::N>;
    std::string const what = cat(kind_text(K), " as ", cat_text(C));
    bool const ref         = K == k_xref || K == k_xcref || K == k_xrref || K == k_x_xref_mo;
    bool const mo          = K == k_mo || K == k_x_xref_mo;
    std::string const cls  = cat("tuple_", cat_text(C), ref ? "+ref_element" : "", mo ? "+move_only" : "", K == k_pair_x_int ? "+pair" : "");
    std::string const fam  = K == k_pair_x_int ? "pair" : "tuple";
    ck.eq(cat("apply(F&&,", fam, ")"), cls, cat("apply(logger, ", what, ")"), E::apply_log(), S::apply_log());
    ck.eq(cat("make_from_tuple<T>(", fam, ")"), cls, cat("make_from_tuple<logger>(", what, ")"), E::mft_log(), S::mft_log());
    ck.eq(cat("get<I>(", fam, ")"), cls, cat("get<I>(", what, ") for every I: value and identity"), E::get_identity(Seq{}), S::get_identity(Seq{}));
    [&]<std::size_t... I>(std::index_sequence<I...>) {
        (ck.template type<typename E::template get_type<I>, typename S::template get_type<I>>(cat("get<I>(", fam, ")"), cls, cat("get<", I, ">(", what, ") type")), ...);
    }(Seq{});
    if constexpr (S::by_value_valid) {
        ck.eq(cat("apply(F&&,", fam, ")"), cls, cat("apply(consumer taking every element by value, ", what, ")"), E::apply_by_value(Seq{}), S::apply_by_value(Seq{}));
        ck.eq(cat("make_from_tuple<T>(", fam, ")"), cls, cat("make_from_tuple<constructor taking every element by value>(", what, ")"), E::mft_by_value(Seq{}), S::mft_by_value(Seq{}));
    } else {
        ck.r.count("by_value_not_well_formed_in_std");
    }
}
template <int K>
void access_kind(Ck& ck)
{
    access_case<K, 0>(ck);
    access_case<K, 1>(ck);
    access_case<K, 2>(ck);
    access_case<K, 3>(ck);
}

// ---------------------------------------------------------------------------------------
// swap of reference-holding tuples / pairs; structured bindings of pairs
// ---------------------------------------------------------------------------------------
template <typename L>
std::string swap_refs()
{
    std::string o;
    {
        X a(1), b(2), c(3), d(4);
        typename L::template tuple<X&, X&> t(a, b), u(c, d);
        g = Counts{};
        t.swap(u);
        o += cat("tuple<X&,X&>::swap: referents=(", a.v, ",", b.v, ",", c.v, ",", d.v, ") still bound=", &L::template get<0>(t) == &a && &L::template get<1>(u) == &d, " ", show(g));
        g = Counts{};
        t.swap(t);
        o += cat(" ; self swap: referents=(", a.v, ",", b.v, ") copies=", g.x_copies);
    }
    {
        X a(1), c(3);
        typename L::template pair<X&, int> p(a, 5), q(c, 6);
        g = Counts{};
        p.swap(q);
        o += cat(" ; pair<X&,int>::swap: referents=(", a.v, ",", c.v, ") seconds=(", p.second, ",", q.second, ") ", show(g));
        using std::swap;
        using etl::swap;
        g = Counts{};
        swap(p, q);
        o += cat(" ; swap(pair<X&,int>&,...): referents=(", a.v, ",", c.v, ") seconds=(", p.second, ",", q.second, ") ", show(g));
    }
    {
        X a(1);
        typename L::template tuple<X, X&> t(X(7), a), u(X(8), a); // both refer to the same object
        g = Counts{};
        t.swap(u);
        o += cat(" ; tuple<X,X&>::swap with a shared referent: (", L::template get<0>(t).v, ",", L::template get<0>(u).v, ",", a.v, ") ", show(g));
    }
    return o;
}

template <typename L>
std::string bindings()
{
    using P = typename L::template pair<X, X>;
    std::string o;
    {
        P p(X(1), X(2));
        g            = Counts{};
        auto [a, b]  = p; // copy
        o += cat("auto [a,b] = p: (", a.v, ",", b.v, ") source=(", p.first.v, ",", p.second.v, ") ", show(g));
        static_assert(std::is_same_v<decltype(a), X>);
    }
    {
        P p(X(1), X(2));
        g           = Counts{};
        auto [a, b] = std::move(p);
        o += cat(" ; auto [a,b] = move(p): (", a.v, ",", b.v, ") source=(", p.first.v, ",", p.second.v, ") ", show(g));
    }
    {
        P p(X(1), X(2));
        g             = Counts{};
        auto&& [a, b] = std::move(p);
        o += cat(" ; auto&& [a,b] = move(p): names the members=", &a == &p.first && &b == &p.second, " source=(", p.first.v, ",", p.second.v, ") ", show(g));
        static_assert(std::is_same_v<decltype(a), X>);
    }
    {
        P const p(X(1), X(2));
        g                 = Counts{};
        auto const& [a, b] = p;
        o += cat(" ; auto const& [a,b] = const p: names the members=", &a == &p.first && &b == &p.second, " ", show(g));
        static_assert(std::is_same_v<decltype(a), X const>);
        auto [c, d] = p; // copy of a const pair
        o += cat(" ; auto [c,d] = const p: (", c.v, ",", d.v, ") ", show(g));
    }
    {
        X x(5);
        typename L::template pair<X&, X const&> p(x, x);
        g            = Counts{};
        auto [a, b]  = p; // copies the pair of references, not the referent
        o += cat(" ; auto [a,b] = pair<X&,X const&>: alias the referent=", &a == &x && &b == &x, " ", show(g));
        static_assert(std::is_same_v<decltype(a), X&> && std::is_same_v<decltype(b), X const&>);
        auto&& [c, d] = std::move(p);
        o += cat(" ; auto&& [c,d] = move(pair<X&,X const&>): alias the referent=", &c == &x && &d == &x, " referent=", x.v, " ", show(g));
    }
    {
        typename L::template pair<MO, int> p(MO(3), 4);
        g           = Counts{};
        auto [a, b] = std::move(p);
        o += cat(" ; auto [a,b] = move(pair<MoveOnly,int>): (", a.v, ",", b, ") source=(", p.first.v, ") ", show(g));
    }
    return o;
}

} // namespace

int main(int argc, char** argv)
{
    mc::Main m(argc, argv);
    std::vector<std::string> const both{"quick", "thorough"};
#if !defined(MC_PART) || MC_PART == 1
    m.job("tuple_cat/1-argument", both, [](mc::Reporter& r) {
        Ck ck{r};
        [&]<int... K>(std::integer_sequence<int, K...>) { (CatEnum<1, AllCats<K>>::run(ck), ...); }(std::make_integer_sequence<int, kind_count>{});
        ck.done();
    });
    m.job("apply+make_from_tuple+get/kinds-x-categories", both, [](mc::Reporter& r) {
        Ck ck{r};
        [&]<int... K>(std::integer_sequence<int, K...>) { (access_kind<K>(ck), ...); }(std::make_integer_sequence<int, kind_count>{});
        ck.done();
    });
    m.job("swap-of-references+structured-bindings", both, [](mc::Reporter& r) {
        Ck ck{r};
        ck.eq("tuple::swap(tuple&)", "reference_elements", "swap of tuples / pairs holding references", swap_refs<EtlLib>(), swap_refs<StdLib>());
        ck.eq("pair structured bindings", "value_categories", "structured bindings of lvalue / const / rvalue pairs", bindings<EtlLib>(), bindings<StdLib>());
        ck.done();
    });
    m.job("tuple_cat/4-arguments", both, [](mc::Reporter& r) {
        Ck ck{r};
        CatEnum<4, Menu4>::run(ck);
        ck.done();
    });
#endif
#if !defined(MC_PART) || MC_PART == 2
    m.job("tuple_cat/2-arguments-a", both, [](mc::Reporter& r) {
        Ck ck{r};
        cat_pairs_with_first<Arg<k_x, 0>>(ck, Menu2{});
        cat_pairs_with_first<Arg<k_x, 1>>(ck, Menu2{});
        cat_pairs_with_first<Arg<k_x, 2>>(ck, Menu2{});
        cat_pairs_with_first<Arg<k_xref, 0>>(ck, Menu2{});
        cat_pairs_with_first<Arg<k_xref, 2>>(ck, Menu2{});
        cat_pairs_with_first<Arg<k_xcref, 1>>(ck, Menu2{});
        ck.done();
    });
#endif
#if !defined(MC_PART) || MC_PART == 3
    m.job("tuple_cat/2-arguments-b", both, [](mc::Reporter& r) {
        Ck ck{r};
        cat_pairs_with_first<Arg<k_xrref, 2>>(ck, Menu2{});
        cat_pairs_with_first<Arg<k_mo, 2>>(ck, Menu2{});
        cat_pairs_with_first<Arg<k_pair_x_int, 0>>(ck, Menu2{});
        cat_pairs_with_first<Arg<k_pair_x_int, 2>>(ck, Menu2{});
        cat_pairs_with_first<Arg<k_int_x, 3>>(ck, Menu2{});
        cat_pairs_with_first<Arg<k_x_xref_mo, 2>>(ck, Menu2{});
        ck.done();
    });
#endif
#if !defined(MC_PART) || MC_PART == 4
    m.job("tuple_cat/3-arguments-a", both, [](mc::Reporter& r) {
        Ck ck{r};
        CatEnum<2, Menu3, Arg<k_x, 0>>::run(ck);
        CatEnum<2, Menu3, Arg<k_x, 2>>::run(ck);
        CatEnum<2, Menu3, Arg<k_xref, 0>>::run(ck);
        ck.done();
    });
#endif
#if !defined(MC_PART) || MC_PART == 5
    m.job("tuple_cat/3-arguments-b", both, [](mc::Reporter& r) {
        Ck ck{r};
        CatEnum<2, Menu3, Arg<k_mo, 2>>::run(ck);
        CatEnum<2, Menu3, Arg<k_pair_x_int, 1>>::run(ck);
        CatEnum<2, Menu3, Arg<k_xrref, 2>>::run(ck);
        ck.done();
    });
#endif
    return m.run();
}
