// C06, part "sorted": algorithms with a sortedness precondition, and the value selectors.
//   lower_bound upper_bound equal_range binary_search   (ranges sorted by the comparator in use)
//   merge set_union set_intersection set_difference set_symmetric_difference includes
//   min max minmax clamp (identity of the returned reference)
#include "c06_common.hpp"

using namespace c06;

namespace {

template <typename F, typename Cm>
void bsearch_family(Ctx& c, Seq const& a)
{
    auto const n  = a.size();
    bool const nt = n >= 2;
    std::string const fl = F::name;
    for (int k = -1; k <= 3; ++k) {
        E const value{k, value_tag};
        auto cls = [&] {
            bool const present = std::any_of(a.begin(), a.end(), [&](E const& e) { return !Cm::plain(e, value) && !Cm::plain(value, e); });
            return cat(len_class(n), present ? "" : "+absent");
        };
        auto kase = [&] { return cat(fl, " a=", keys(a), " value=", k, " comp=", Cm::name); };
#define C06_BS_ITER(NAME)                                                                                                       \
    if (c.want(#NAME "(first,last,value,comp)")) {                                                                              \
        c.run(#NAME "(first,last,value,comp)", nt, [&](auto lib, Obs& o) {                                                      \
            Buf<E> A(mem<F>(a));                                                                                                \
            allow(value);                                                                                                       \
            auto it = C06_ALG(NAME)(lib, F::at(lib, A, 0), F::at(lib, A, n), value, Cm{});                                      \
            o.num(F::off(A, it));                                                                                               \
            o.buf(A);                                                                                                           \
        }, cls, kase);                                                                                                          \
    }                                                                                                                           \
    if constexpr (std::is_same_v<Cm, Less>) {                                                                                   \
        if (c.want(#NAME "(first,last,value)")) {                                                                               \
            c.run(#NAME "(first,last,value)", nt, [&](auto lib, Obs& o) {                                                       \
                Buf<E> A(mem<F>(a));                                                                                            \
                allow(value);                                                                                                   \
                auto it = C06_ALG(NAME)(lib, F::at(lib, A, 0), F::at(lib, A, n), value);                                        \
                o.num(F::off(A, it));                                                                                           \
                o.buf(A);                                                                                                       \
            }, cls, kase);                                                                                                      \
        }                                                                                                                       \
    }
        C06_BS_ITER(lower_bound)
        C06_BS_ITER(upper_bound)
#undef C06_BS_ITER
        if (c.want("equal_range(first,last,value,comp)")) {
            c.run("equal_range(first,last,value,comp)", nt, [&](auto lib, Obs& o) {
                Buf<E> A(mem<F>(a));
                allow(value);
                auto pr = C06_ALG(equal_range)(lib, F::at(lib, A, 0), F::at(lib, A, n), value, Cm{});
                o.num(F::off(A, pr.first));
                o.num(F::off(A, pr.second));
                o.buf(A);
            }, cls, kase);
        }
        if (c.want("binary_search(first,last,value,comp)")) {
            c.run("binary_search(first,last,value,comp)", nt, [&](auto lib, Obs& o) {
                Buf<E> A(mem<F>(a));
                allow(value);
                bool const res = C06_ALG(binary_search)(lib, F::at(lib, A, 0), F::at(lib, A, n), value, Cm{});
                o.num(res);
                o.buf(A);
            }, cls, kase);
        }
        if constexpr (std::is_same_v<Cm, Less>) {
            if (c.want("equal_range(first,last,value)")) {
                c.run("equal_range(first,last,value)", nt, [&](auto lib, Obs& o) {
                    Buf<E> A(mem<F>(a));
                    allow(value);
                    auto pr = C06_ALG(equal_range)(lib, F::at(lib, A, 0), F::at(lib, A, n), value);
                    o.num(F::off(A, pr.first));
                    o.num(F::off(A, pr.second));
                    o.buf(A);
                }, cls, kase);
            }
            if (c.want("binary_search(first,last,value)")) {
                c.run("binary_search(first,last,value)", nt, [&](auto lib, Obs& o) {
                    Buf<E> A(mem<F>(a));
                    allow(value);
                    bool const res = C06_ALG(binary_search)(lib, F::at(lib, A, 0), F::at(lib, A, n), value);
                    o.num(res);
                    o.buf(A);
                }, cls, kase);
            }
        }
    }
}

// number of elements the reference writes (computed on plain vectors with a non-logging comparator)
template <typename Cm, typename Alg>
std::size_t ref_size(Seq const& a, Seq const& b, Alg alg)
{
    Seq out(a.size() + b.size() + 1, filler);
    auto it = alg(a.begin(), a.end(), b.begin(), b.end(), out.begin(), [](E const& x, E const& y) { return Cm::plain(x, y); });
    return static_cast<std::size_t>(it - out.begin());
}

template <typename F1, typename F2, typename G, typename Cm>
void merge_family(Ctx& c, Seq const& a, Seq const& b)
{
    auto const n  = a.size();
    auto const m  = b.size();
    bool const nt = n >= 1 && m >= 1 && n + m >= 3;
    std::string const fl = cat(F1::name, "+", F2::name, "->", G::name);
    auto cls = [&] {
        if (n == 0 && m == 0) { return std::string("both_empty"); }
        if (n == 0) { return std::string("first_empty"); }
        if (m == 0) { return std::string("second_empty"); }
        return std::string("general");
    };
    auto kase = [&] { return cat(fl, " a=", keys(a), " b=", keys(b), " comp=", Cm::name); };

#define C06_SETOP(NAME)                                                                                                         \
    {                                                                                                                           \
        auto const k = ref_size<Cm>(a, b, [](auto... xs) { return std::NAME(xs...); });                                         \
        if (c.want(#NAME "(first1,last1,first2,last2,d_first,comp)")) {                                                         \
            c.run(#NAME "(first1,last1,first2,last2,d_first,comp)", nt, [&](auto lib, Obs& o) {                                 \
                Buf<E> A(mem<F1>(a));                                                                                           \
                Buf<E> B(mem<F2>(b));                                                                                           \
                Dst<G> D(k);                                                                                                    \
                auto it = C06_ALG(NAME)(lib, F1::at(lib, A, 0), F1::at(lib, A, n), F2::at(lib, B, 0), F2::at(lib, B, m),        \
                    D.begin(lib), Cm{});                                                                                        \
                o.num(D.off(it));                                                                                               \
                D.observe(o);                                                                                                   \
                o.buf(A);                                                                                                       \
                o.buf(B);                                                                                                       \
            }, cls, kase);                                                                                                      \
        }                                                                                                                       \
        if constexpr (std::is_same_v<Cm, Less>) {                                                                               \
            if (c.want(#NAME "(first1,last1,first2,last2,d_first)")) {                                                          \
                c.run(#NAME "(first1,last1,first2,last2,d_first)", nt, [&](auto lib, Obs& o) {                                  \
                    Buf<E> A(mem<F1>(a));                                                                                       \
                    Buf<E> B(mem<F2>(b));                                                                                       \
                    Dst<G> D(k);                                                                                                \
                    auto it = C06_ALG(NAME)(lib, F1::at(lib, A, 0), F1::at(lib, A, n), F2::at(lib, B, 0), F2::at(lib, B, m),    \
                        D.begin(lib));                                                                                          \
                    o.num(D.off(it));                                                                                           \
                    D.observe(o);                                                                                               \
                    o.buf(A);                                                                                                   \
                    o.buf(B);                                                                                                   \
                }, cls, kase);                                                                                                  \
            }                                                                                                                   \
        }                                                                                                                       \
    }
    C06_SETOP(merge)
    C06_SETOP(set_union)
    C06_SETOP(set_intersection)
    C06_SETOP(set_difference)
    C06_SETOP(set_symmetric_difference)
#undef C06_SETOP
    if (c.want("includes(first1,last1,first2,last2,comp)")) {
        c.run("includes(first1,last1,first2,last2,comp)", nt, [&](auto lib, Obs& o) {
            Buf<E> A(mem<F1>(a));
            Buf<E> B(mem<F2>(b));
            bool const res = C06_ALG(includes)(lib, F1::at(lib, A, 0), F1::at(lib, A, n), F2::at(lib, B, 0), F2::at(lib, B, m), Cm{});
            o.num(res);
            o.buf(A);
            o.buf(B);
        }, cls, kase);
    }
    if constexpr (std::is_same_v<Cm, Less>) {
        if (c.want("includes(first1,last1,first2,last2)")) {
            c.run("includes(first1,last1,first2,last2)", nt, [&](auto lib, Obs& o) {
                Buf<E> A(mem<F1>(a));
                Buf<E> B(mem<F2>(b));
                bool const res = C06_ALG(includes)(lib, F1::at(lib, A, 0), F1::at(lib, A, n), F2::at(lib, B, 0), F2::at(lib, B, m));
                o.num(res);
                o.buf(A);
                o.buf(B);
            }, cls, kase);
        }
    }
}

// ------------------------------------------------------------------------------------------
// min / max / minmax / clamp: which argument is returned (by address)
// ------------------------------------------------------------------------------------------
void select_family(Ctx& c)
{
    auto which = [](E const* r, E const* x, E const* y, E const* z) { return r == x ? 0 : r == y ? 1 : r == z ? 2 : 9; };
    for (int ka = 0; ka <= 2; ++ka) {
        for (int kb = 0; kb <= 2; ++kb) {
            E const x{ka, 0};
            E const y{kb, 1};
            auto cls = [&] { return std::string(ka == kb ? "equal_keys" : "general"); };
            for_types(Orders{}, [&](auto cmp) {
                using Cm  = decltype(cmp);
                auto kase = [&] { return cat("a=", ka, " b=", kb, " comp=", Cm::name); };
#define C06_SEL2(NAME)                                                                                                          \
    if (c.want(#NAME "(a,b,comp)")) {                                                                                           \
        c.run(#NAME "(a,b,comp)", true, [&](auto lib, Obs& o) {                                                                 \
            allow(x);                                                                                                           \
            allow(y);                                                                                                           \
            E const& res = C06_ALG(NAME)(lib, x, y, Cm{});                                                                      \
            o.num(which(&res, &x, &y, nullptr));                                                                                \
        }, cls, kase);                                                                                                          \
    }                                                                                                                           \
    if constexpr (std::is_same_v<Cm, Less>) {                                                                                   \
        if (c.want(#NAME "(a,b)")) {                                                                                            \
            c.run(#NAME "(a,b)", true, [&](auto lib, Obs& o) {                                                                  \
                allow(x);                                                                                                       \
                allow(y);                                                                                                       \
                E const& res = C06_ALG(NAME)(lib, x, y);                                                                        \
                o.num(which(&res, &x, &y, nullptr));                                                                            \
            }, cls, kase);                                                                                                      \
        }                                                                                                                       \
    }
                C06_SEL2(min)
                C06_SEL2(max)
#undef C06_SEL2
                if (c.want("minmax(a,b,comp)")) {
                    c.run("minmax(a,b,comp)", true, [&](auto lib, Obs& o) {
                        allow(x);
                        allow(y);
                        auto pr = C06_ALG(minmax)(lib, x, y, Cm{});
                        o.num(which(&pr.first, &x, &y, nullptr));
                        o.num(which(&pr.second, &x, &y, nullptr));
                    }, cls, kase);
                }
                if constexpr (std::is_same_v<Cm, Less>) {
                    if (c.want("minmax(a,b)")) {
                        c.run("minmax(a,b)", true, [&](auto lib, Obs& o) {
                            allow(x);
                            allow(y);
                            auto pr = C06_ALG(minmax)(lib, x, y);
                            o.num(which(&pr.first, &x, &y, nullptr));
                            o.num(which(&pr.second, &x, &y, nullptr));
                        }, cls, kase);
                    }
                }
                // clamp(v, lo, hi): precondition !comp(hi, lo)
                for (int kv = -1; kv <= 3; ++kv) {
                    E const v{kv, 2};
                    if (Cm::plain(y, x)) { continue; }
                    auto ccls  = [&] { return std::string(Cm::plain(v, x) ? "below" : Cm::plain(y, v) ? "above" : "inside"); };
                    auto ckase = [&] { return cat("v=", kv, " lo=", ka, " hi=", kb, " comp=", Cm::name); };
                    if (c.want("clamp(v,lo,hi,comp)")) {
                        c.run("clamp(v,lo,hi,comp)", true, [&](auto lib, Obs& o) {
                            allow(x);
                            allow(y);
                            allow(v);
                            E const& res = C06_ALG(clamp)(lib, v, x, y, Cm{});
                            o.num(which(&res, &v, &x, &y));
                        }, ccls, ckase);
                    }
                    if constexpr (std::is_same_v<Cm, Less>) {
                        if (c.want("clamp(v,lo,hi)")) {
                            c.run("clamp(v,lo,hi)", true, [&](auto lib, Obs& o) {
                                allow(x);
                                allow(y);
                                allow(v);
                                E const& res = C06_ALG(clamp)(lib, v, x, y);
                                o.num(which(&res, &v, &x, &y));
                            }, ccls, ckase);
                        }
                    }
                }
            });
        }
    }
}

template <typename Cm>
std::vector<Seq> sorted_pool(int maxLen, int tag0)
{
    std::vector<Seq> out;
    for (auto& s : make_pool(maxLen, 3, tag0)) {
        if (sorted_by<Cm>(s)) { out.push_back(std::move(s)); }
    }
    return out;
}

template <typename F>
void job_bsearch(mc::Reporter& r, int qL, int tL)
{
    Ctx c(r);
    auto const bd = bounds(r, qL, 0, tL, 0);
    std::uint64_t seqs = 0;
    for_types(Orders{}, [&](auto cmp) {
        using Cm = decltype(cmp);
        for (auto const& a : sorted_pool<Cm>(bd.L, 0)) {
            if (c.out_of_time()) { break; }
            ++seqs;
            bsearch_family<F, Cm>(c, a);
        }
    });
    r.count("sequences", seqs);
    r.sample(cat(F::name, ": every sequence of length 0..", bd.L,
        " over keys {0,1,2} that is sorted by less / greater / mod2less: lower_bound, upper_bound, equal_range, binary_search for every value -1..3"));
}

template <typename F1, typename F2, typename G>
void job_merge(mc::Reporter& r, int qL, int qM, int tL, int tM)
{
    Ctx c(r);
    auto const bd = bounds(r, qL, qM, tL, tM);
    std::uint64_t pairs = 0;
    for_types(Orders{}, [&](auto cmp) {
        using Cm         = decltype(cmp);
        auto const pool  = sorted_pool<Cm>(bd.L, 0);
        auto const pool2 = sorted_pool<Cm>(bd.M, second_tag0);
        for (auto const& a : pool) {
            if (c.out_of_time()) { break; }
            for (auto const& b : pool2) {
                ++pairs;
                merge_family<F1, F2, G, Cm>(c, a, b);
            }
        }
    });
    r.count("sequences", pairs);
    r.sample(cat(F1::name, "+", F2::name, "->", G::name, ": every pair of sorted sequences (len <= ", bd.L, " / ", bd.M,
        ") for less / greater / mod2less: merge, set_union, set_intersection, set_difference, set_symmetric_difference, includes"));
}

} // namespace

int main(int argc, char** argv)
{
    mc::Main m(argc, argv);
    std::vector<std::string> const both{"quick", "thorough"};
#if defined(MC_FLAVOUR_SAN)
    // sanitizer build: only the raw-pointer jobs (the wrappers check their own ranges; keeps the compile small)
    m.job("bsearch/ptr", both, [](mc::Reporter& r) { job_bsearch<PtrF>(r, 7, 10); });
    m.job("merge/ptr+ptr->ptr", both, [](mc::Reporter& r) { job_merge<PtrF, PtrF, PtrF>(r, 5, 5, 10, 8); });
#else
#if !defined(MC_PART) || MC_PART == 1
    m.job("bsearch/ptr", both, [](mc::Reporter& r) { job_bsearch<PtrF>(r, 7, 10); });
    m.job("bsearch/fwd", both, [](mc::Reporter& r) { job_bsearch<FwdF>(r, 7, 10); });
    m.job("bsearch/bidi", both, [](mc::Reporter& r) { job_bsearch<BidiF>(r, 7, 10); });
    m.job("bsearch/ra", both, [](mc::Reporter& r) { job_bsearch<RaF>(r, 7, 10); });
    m.job("bsearch/rev", both, [](mc::Reporter& r) { job_bsearch<RevF>(r, 7, 9); });
    m.job("sub/bsearch/ptr", both, sub([](mc::Reporter& r) { job_bsearch<PtrF>(r, 7, 10); }));
    m.job("sub/bsearch/fwd", both, sub([](mc::Reporter& r) { job_bsearch<FwdF>(r, 7, 10); }));
    m.job("sub/bsearch/rev", both, sub([](mc::Reporter& r) { job_bsearch<RevF>(r, 7, 9); }));
    m.job("select", both, [](mc::Reporter& r) {
        Ctx c(r);
        select_family(c);
        r.sample("min/max/minmax/clamp: every key pair/triple over {0,1,2} (v in -1..3), less / greater / mod2less, identity of the returned reference");
    });
#endif
#if !defined(MC_PART) || MC_PART == 2
    m.job("merge/ptr+ptr->ptr", both, [](mc::Reporter& r) { job_merge<PtrF, PtrF, PtrF>(r, 5, 5, 10, 8); });
    m.job("merge/input+input->output", both, [](mc::Reporter& r) { job_merge<InF, InF, OutF>(r, 5, 5, 10, 8); });
    m.job("sub/merge/ptr+ptr->ptr", both, sub([](mc::Reporter& r) { job_merge<PtrF, PtrF, PtrF>(r, 5, 5, 10, 8); }));
    m.job("sub/merge/input+input->output", both, sub([](mc::Reporter& r) { job_merge<InF, InF, OutF>(r, 5, 5, 10, 8); }));
#endif
#if !defined(MC_PART) || MC_PART == 3
    m.job("merge/fwd+bidi->fwd", both, [](mc::Reporter& r) { job_merge<FwdF, BidiF, FwdF>(r, 5, 5, 10, 8); });
    m.job("merge/ra+rev->back_inserter", both, [](mc::Reporter& r) { job_merge<RaF, RevF, BackInsF>(r, 5, 5, 10, 8); });
    m.job("sub/merge/fwd+bidi->fwd", both, sub([](mc::Reporter& r) { job_merge<FwdF, BidiF, FwdF>(r, 5, 5, 10, 8); }));
#endif
#endif
    return m.run();
}
