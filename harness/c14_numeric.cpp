// C14, arithmetic half: add_sat, div_sat, midpoint (integers and pointers), gcd, lcm, abs,
// idiv, ipow, ilog2 against exact __int128 arithmetic and libstdc++ <numeric> (std::gcd,
// std::lcm, std::midpoint) where it exists.
//
// MC_PART=1 (default): same-type functions for the eight fixed-width types.
// MC_PART=2          : gcd/lcm over all 56 ordered (M,N) pairs of different types.
//
// MC_PART=3 (round 2): gcd/lcm with long long / unsigned long long against all ten builtin integer
//                      types (both orders) and a selection of pairs with character types.
// Round 2 also adds: the character types char, char8_t, char16_t, char32_t, wchar_t for every
// function constrained with `integral` or unconstrained (midpoint, idiv, ipow, ilog2, abs<T>, gcd,
// lcm); unsigned long long / long long for the functions that missed them; the runs-of-ones
// values (c14_common.hpp: extra()) of 32/64-bit types - against the edge values in the quick
// tier, as the complete (lattice u runs)^2 square in the thorough tier (gcd/lcm: runs x lattice).
//
// Spaces: all pairs of 8-bit values; 2^16 x grid and grid x 2^16 for 16-bit types (thorough:
// the complete 2^16 x 2^16 square for add_sat, midpoint, gcd); lattice^2 for 32/64-bit types.
#include "c14_common.hpp"

#include <etl/cmath.hpp>
#include <etl/numeric.hpp>

#ifndef MC_PART
    #define MC_PART 1
#endif

using namespace c14;
using mc::cat;

namespace {

template <typename T>
V clamp_to(V v)
{
    return v < min_v<T> ? min_v<T> : (v > max_v<T> ? max_v<T> : v);
}

inline std::uint64_t uabs64(V v) { return std::uint64_t(u128(iabs(v))); } // |v| <= 2^63 always fits

inline std::uint64_t euclid(std::uint64_t a, std::uint64_t b)
{
    while (b != 0) {
        std::uint64_t const t = a % b;
        a                     = b;
        b                     = t;
    }
    return a;
}

inline u128 exact_lcm(V m, V n)
{
    if (m == 0 || n == 0) { return 0; }
    auto const a = uabs64(m), b = uabs64(n);
    return u128(a / euclid(a, b)) * u128(b);
}

// ---------------------------------------------------------------------------------------
// gcd / lcm for a pair of (possibly different) types
// ---------------------------------------------------------------------------------------

template <typename M, typename N, bool Lcm>
std::string cls_gcd(V m, V n)
{
    using R = std::common_type_t<M, N>;
    std::string s;
    if (!std::is_same_v<M, N>) { s += "mixed_types+"; }
    if (Lcm && m == 0 && n == 0) { return s + "both_zero"; }
    if (m < 0 || n < 0) { s += "negative+"; }
    if (m == 0 || n == 0) { s += "zero+"; }
    if (Lcm && u128(uabs64(m)) * u128(uabs64(n)) > u128(max_v<R>)) { s += "product_overflows+"; }
    if (s.empty()) { return "general"; }
    s.pop_back();
    return s;
}

template <typename M, typename N>
void gcd_lcm(Ctx& c, Space const& sp)
{
    using R = std::common_type_t<M, N>;
    if constexpr (!std::is_same_v<decltype(etl::gcd(M{}, N{})), R> || !std::is_same_v<decltype(etl::lcm(M{}, N{})), R>) {
        c.r.violation("C14", "gcd(m,n)", "return_type", cat(tname<M>(), ",", tname<N>()), "return type is not std::common_type_t<M,N>");
    }
    auto nt = +[](V m, V n) { return m != 0 && n != 0 && m != n; };
    // domain of std::gcd/lcm: |m| and |n| representable in R (and for lcm the result too)
    sweep2(c,
        {"gcd(m,n)", ti<M>(), ti<N>(), "m", "n", [](V m, V n) { return iabs(m) <= max_v<R> && iabs(n) <= max_v<R>; },
            [](V m, V n) { return V(etl::gcd(M(m), N(n))); },
            [](Ctx& c, V m, V n) {
                V const closed = V(euclid(uabs64(m), uabs64(n)));
                V const lib    = V(std::gcd(M(m), N(n)));
                if (closed != lib) { c.oracle_disagreement("gcd", cat(tname<M>(), " ", dec(m), " ", tname<N>(), " ", dec(n)), lib, closed); }
                return closed;
            },
            &cls_gcd<M, N, false>, nt},
        sp);
    sweep2(c,
        {"lcm(m,n)", ti<M>(), ti<N>(), "m", "n",
            [](V m, V n) { return iabs(m) <= max_v<R> && iabs(n) <= max_v<R> && exact_lcm(m, n) <= u128(max_v<R>); },
            [](V m, V n) { return V(etl::lcm(M(m), N(n))); },
            [](Ctx& c, V m, V n) {
                V const closed = V(exact_lcm(m, n));
                V const lib    = V(std::lcm(M(m), N(n)));
                if (closed != lib) { c.oracle_disagreement("lcm", cat(tname<M>(), " ", dec(m), " ", tname<N>(), " ", dec(n)), lib, closed); }
                return closed;
            },
            &cls_gcd<M, N, true>, nt},
        sp);
}

#if MC_PART == 1

// ---------------------------------------------------------------------------------------
// saturating arithmetic
// ---------------------------------------------------------------------------------------

template <typename T>
std::string cls_add(V x, V y)
{
    V const s = x + y;
    if (s > max_v<T>) { return "saturates_high"; }
    if (s < min_v<T>) { return "saturates_low"; }
    if (s == max_v<T> || s == min_v<T>) { return "lands_on_limit"; }
    return "general";
}

template <typename T>
void add_sats(Ctx& c, Space const& sp)
{
    auto ref = +[](Ctx&, V x, V y) { return clamp_to<T>(x + y); };
    auto nt  = +[](V x, V y) { return !fits<T>(x + y); };
    TI const t = ti<T>();
    sweep2(c, {"add_sat(x,y)", t, t, "x", "y", always2, [](V x, V y) { return V(etl::add_sat(T(x), T(y))); }, ref, &cls_add<T>, nt}, sp);
    sweep2(c,
        {"detail::add_sat_fallback(x,y)", t, t, "x", "y", always2, [](V x, V y) { return V(etl::detail::add_sat_fallback(T(x), T(y))); }, ref,
            &cls_add<T>, nt},
        sp);
}

template <typename T>
void div_sats(Ctx& c, Space const& sp)
{
    TI const t = ti<T>();
    sweep2(c,
        {"div_sat(x,y)", t, t, "x", "y", [](V, V y) { return y != 0; }, [](V x, V y) { return V(etl::div_sat(T(x), T(y))); },
            [](Ctx&, V x, V y) { return clamp_to<T>(x / y); },
            [](V x, V y) -> std::string {
                if (std::is_signed_v<T> && x == min_v<T> && y == -1) { return "min_by_minus_one"; }
                if (std::is_signed_v<T> && x == min_v<T>) { return "x_min"; }
                if (y < 0) { return x < 0 ? "neg_by_neg" : "nonneg_by_neg"; }
                if (x < 0) { return "neg_by_pos"; }
                return "general";
            },
            [](V x, V y) { return x != 0 && (iabs(y) > 1 || (std::is_signed_v<T> && x == min_v<T>)); }},
        sp);
}

// ---------------------------------------------------------------------------------------
// midpoint
// ---------------------------------------------------------------------------------------

template <typename T>
std::string cls_mid(V a, V b)
{
    V const d = b - a;
    if (d == 0) { return "equal"; }
    std::string s = d > 0 ? "a_lt_b" : "a_gt_b";
    s += (d % 2 != 0) ? "+odd_distance" : "+even_distance";
    if (iabs(d) > max_v<T>) { s += "+distance_exceeds_max"; }
    return s;
}

template <typename T>
void midpoints(Ctx& c, Space const& sp)
{
    TI const t = ti<T>();
    sweep2(c,
        {"midpoint(a,b)", t, t, "a", "b", always2, [](V a, V b) { return V(etl::midpoint(T(a), T(b))); },
            [](Ctx& c, V a, V b) {
                V const closed = a + (b - a) / 2; // half the distance, truncated: rounds towards a
                V const lib    = V(std::midpoint(T(a), T(b)));
                if (closed != lib) { c.oracle_disagreement("midpoint", cat(tname<T>(), " ", dec(a), " ", dec(b)), lib, closed); }
                return closed;
            },
            &cls_mid<T>, [](V a, V b) { return a != b; }},
        sp);
}

template <typename E>
void midpoint_pointers(Ctx& c, char const* ename)
{
    constexpr std::size_t N = 33;
    mc::GuardedBlock<E> blk(N);
    E* const base    = blk.data();
    char const* subj = "midpoint(p,q)";
    if (!c.r.want(subj)) { return; }
    c.begin_sweep();
    for (std::size_t i = 0; i <= N; ++i) {
        auto kase = [&](std::size_t j) { return cat(ename, "* p=base+", i, " q=base+", j, " (array of ", N, ")"); };
        guarded_for(
            N + 1,
            [&](std::size_t j) {
                E* const a      = base + i;
                E* const b      = base + j;
                auto const want = std::midpoint(a, b) - base;
                auto const s0   = mc::san_hits();
                E* const got_p  = etl::midpoint(a, b);
                auto const s1   = mc::san_hits();
                auto const got  = got_p - base;
                V const exact   = V(i) + (V(j) - V(i)) / 2;
                ++c.evals;
                c.nontriv += (i != j) ? 1 : 0;
                if (V(want) != exact) { c.oracle_disagreement("midpoint(ptr)", kase(j), want, exact); }
                if (V(got) != exact) { c.mismatch(subj, cls_mid<std::ptrdiff_t>(V(i), V(j)), kase(j), got, exact); }
                if (s0 != s1) { c.san(subj, cls_mid<std::ptrdiff_t>(V(i), V(j)), kase(j)); }
            },
            [&](std::size_t j, mc::Trap t) { return c.trap(subj, cls_mid<std::ptrdiff_t>(V(i), V(j)), kase(j), t, V(i) + (V(j) - V(i)) / 2); });
    }
    if (!blk.intact()) { c.r.violation("C02", subj, "canary", ename, "wrote outside the array"); }
}

// ---------------------------------------------------------------------------------------
// abs, ilog2, idiv, ipow
// ---------------------------------------------------------------------------------------

template <typename T>
void unary_math(Ctx& c)
{
    Set const& A = full2<T>();
    TI const t   = ti<T>();
    auto dom_abs = +[](V x) { return std::is_unsigned_v<T> || x != min_v<T>; };
    auto ref_abs = +[](Ctx&, V x) { return iabs(x); };
    auto nt_abs  = +[](V x) { return x < 0; };
    // abs as overload resolution finds it with <etl/cmath.hpp> and <etl/numeric.hpp> both visible
    sweep1(c, {"abs(x)", t, "x", dom_abs, [](V x) { return V(etl::abs(T(x))); }, ref_abs, &cls_unary<T>, nt_abs}, A);
    // the <etl/numeric.hpp> template explicitly
    sweep1(c, {"abs<T>(x)", t, "x", dom_abs, [](V x) { return V(etl::abs<T>(T(x))); }, ref_abs, &cls_unary<T>, nt_abs}, A);
    sweep1(c,
        {"ilog2(x)", t, "x", [](V x) { return x >= 1; }, [](V x) { return V(etl::ilog2(T(x))); },
            [](Ctx&, V x) { return V(std::bit_width(std::uint64_t(x)) - 1); }, &cls_unary<T>, [](V x) { return x >= 2; }},
        A);
}

template <typename T>
void idivs(Ctx& c, Space const& sp)
{
    TI const t = ti<T>();
    auto dom   = +[](V x, V y) { return y != 0 && !(std::is_signed_v<T> && x == min_v<T> && y == -1); };
    auto cls   = +[](V x, V y) -> std::string {
        if (y < 0) { return x < 0 ? "neg_by_neg" : "nonneg_by_neg"; }
        if (x < 0) { return "neg_by_pos"; }
        return "general";
    };
    auto nt = +[](V x, V y) { return x != 0 && iabs(y) > 1; };
    sweep2(c, {"idiv(x,y).quot", t, t, "x", "y", dom, [](V x, V y) { return V(etl::idiv(T(x), T(y)).quot); }, [](Ctx&, V x, V y) { return x / y; }, cls, nt},
        sp);
    sweep2(c, {"idiv(x,y).rem", t, t, "x", "y", dom, [](V x, V y) { return V(etl::idiv(T(x), T(y)).rem); }, [](Ctx&, V x, V y) { return x % y; }, cls, nt},
        sp);
}

// exact power; false when any partial product leaves the range of T (then the call is outside the domain)
template <typename T>
bool pow_exact(V base, V exp, V& out)
{
    V r = 1;
    for (V i = 0; i < exp; ++i) {
        if (__builtin_mul_overflow(r, base, &r)) { return false; } // (2^64)^2 does not fit 128 bits either
        if (!fits<T>(r)) { return false; }
    }
    out = r;
    return true;
}

template <typename T>
Set const& exponents()
{
    static Set const v = [] {
        Set o;
        for (V e = 0; e <= 300 && e <= max_v<T>; ++e) { o.push_back(e); }
        if (max_v<T> >= 1000) { o.push_back(1000); }
        return o;
    }();
    return v;
}

template <typename T>
constexpr T max_of()
{
    return std::numeric_limits<T>::max();
}
template <typename T>
constexpr T min_of()
{
    return std::numeric_limits<T>::min();
}
template <typename T, T Base>
void ipow_fixed(Ctx& c)
{
    Unary u{"ipow<Base>(exponent)", ti<T>(), "exponent",
        [](V e) {
            V out;
            return pow_exact<T>(V(Base), e, out);
        },
        [](V e) { return V(etl::ipow<Base>(T(e))); },
        [](Ctx&, V e) {
            V out = 0;
            pow_exact<T>(V(Base), e, out);
            return out;
        },
        [](V e) -> std::string {
            std::string s = (Base == T(2)) ? "base_2" : (Base == T(0) ? "base_0" : (Base == T(1) ? "base_1" : ((Base > T(0) && (Base & (Base - T(1))) == T(0)) ? "base_power_of_two" : "base_other")));
            if (e == 0) { s += "+exp_0"; }
            return s;
        },
        [](V e) { return e >= 2; }};
    u.note = cat("Base=", dec(V(Base)));
    sweep1(c, u, exponents<T>());
}

template <typename T>
void ipows(Ctx& c)
{
    Space const sp{{&full2<T>(), &exponents<T>()}};
    TI const t = ti<T>();
    sweep2(c,
        {"ipow(base,exponent)", t, t, "base", "exponent",
            [](V b, V e) {
                V out;
                return pow_exact<T>(b, e, out);
            },
            [](V b, V e) { return V(etl::ipow(T(b), T(e))); },
            [](Ctx&, V b, V e) {
                V out = 0;
                pow_exact<T>(b, e, out);
                return out;
            },
            [](V b, V e) -> std::string {
                if (e == 0) { return b == 0 ? "zero_to_zero" : "exp_0"; }
                if (b == 0) { return "base_0"; }
                if (b < 0) { return (e % 2 != 0) ? "base_negative+odd" : "base_negative+even"; }
                return "general";
            },
            [](V b, V e) { return e >= 2 && iabs(b) >= 2; }},
        sp);
    // bases 0 and 1, the other small powers of two and the largest base of the type (added after seeded breakage
    // c14_ipow_base0_power_of_two: the shift shortcut was generalised to "every power of two", tested as
    // Base >= 0 && (Base & (Base - 1)) == 0, which admits 0: ipow<0>(n) became 1)
    ipow_fixed<T, T(0)>(c);
    ipow_fixed<T, T(1)>(c);
    ipow_fixed<T, T(2)>(c);
    ipow_fixed<T, T(3)>(c);
    ipow_fixed<T, T(4)>(c);
    ipow_fixed<T, T(5)>(c);
    ipow_fixed<T, T(6)>(c);
    ipow_fixed<T, T(7)>(c);
    ipow_fixed<T, T(8)>(c);
    ipow_fixed<T, T(10)>(c);
    ipow_fixed<T, T(16)>(c);
    ipow_fixed<T, T(64)>(c);
    ipow_fixed<T, max_of<T>()>(c);
    if constexpr (std::is_signed_v<T>) {
        ipow_fixed<T, T(-1)>(c);
        ipow_fixed<T, T(-2)>(c);
        ipow_fixed<T, T(-3)>(c);
        ipow_fixed<T, T(-4)>(c);
        ipow_fixed<T, min_of<T>()>(c);
    }
}

/// every function that accepts a character type T (add_sat, div_sat, saturate_cast, cmp_* and
/// in_range are constrained to the ten builtin integer types and reject them: not an API gap,
/// std:: does the same)
template <typename T>
void char_type_cells(Ctx& c, bool with_ipow = true)
{
    auto const sp = pair_space2<T, T>(wide16_default(), runs_default(c.r, Runs::cross));
    unary_math<T>(c);
    midpoints<T>(c, sp);
    idivs<T>(c, sp);
    if (with_ipow) { ipows<T>(c); }
    gcd_lcm<T, T>(c, sp);
}

template <typename T>
void add_jobs(mc::Main& m)
{
    std::string const t = tname<T>();
    m.job("sat-" + t, {"quick", "thorough"}, [](mc::Reporter& r) {
        Ctx c(r);
        auto const sp = pair_space2<T, T>(wide16_default(), runs_default(r, Runs::square, Runs::cross));
        add_sats<T>(c, sp);
        div_sats<T>(c, sp);
    });
    m.job("midpoint-" + t, {"quick", "thorough"}, [](mc::Reporter& r) {
        Ctx c(r);
        midpoints<T>(c, pair_space2<T, T>(wide16_default(), runs_default(r, Runs::square, Runs::cross)));
    });
    m.job("gcdlcm-" + t, {"quick", "thorough"}, [](mc::Reporter& r) {
        Ctx c(r);
        gcd_lcm<T, T>(c, pair_space2<T, T>(wide16_default(), runs_default(r, Runs::square)));
    });
    m.job("divpow-" + t, {"quick", "thorough"}, [](mc::Reporter& r) {
        Ctx c(r);
        unary_math<T>(c);
        idivs<T>(c, pair_space2<T, T>(wide16_default(), runs_default(r, Runs::square, Runs::cross)));
        ipows<T>(c);
    });
    #if !defined(MC_FLAVOUR_SAN) && !defined(MC_FLAVOUR_CHK) && !defined(MC_FLAVOUR_O2)
    if constexpr (sizeof(T) == 2) {
        // thorough: the complete 2^16 x 2^16 square, 16 slices
        for (unsigned k = 0; k < 16; ++k) {
            m.job(cat("full16-sat-mid-", t, "-", k), {"thorough"}, [k](mc::Reporter& r) {
                Ctx c(r);
                Set const rows = slice16<T>(k, 16);
                square16<T, T>(c, "add_sat(x,y)", rows, &cls_add<T>, [](T x, T y, V& got, V& want) {
                    got  = V(etl::add_sat(x, y));
                    want = clamp_to<T>(V(x) + V(y));
                });
                square16<T, T>(c, "detail::add_sat_fallback(x,y)", rows, &cls_add<T>, [](T x, T y, V& got, V& want) {
                    got  = V(etl::detail::add_sat_fallback(x, y));
                    want = clamp_to<T>(V(x) + V(y));
                });
                square16<T, T>(c, "midpoint(a,b)", rows, &cls_mid<T>, [](T a, T b, V& got, V& want) {
                    got  = V(etl::midpoint(a, b));
                    want = V(a) + (V(b) - V(a)) / 2;
                });
            });
            // gcd: the complete square for u16 only (the signed variant differs by the |.| step,
            // which 2^16 x grid u grid x 2^16 covers); about 1000 CPU seconds
            if (std::is_signed_v<T>) { continue; }
            m.job(cat("full16-gcd-", t, "-", k), {"thorough"}, [k](mc::Reporter& r) {
                Ctx c(r);
                Set const rows = slice16<T>(k, 16);
                // |min| is not representable: outside the domain of gcd; reported as equal
                square16<T, T>(c, "gcd(m,n)", rows, &cls_gcd<T, T, false>, [](T x, T y, V& got, V& want) {
                    if (std::is_signed_v<T> && (V(x) == min_v<T> || V(y) == min_v<T>)) { return; }
                    got  = V(etl::gcd(x, y));
                    want = V(std::gcd(x, y));
                });
            });
        }
    }
    #endif
}

#endif // MC_PART == 1

#if MC_PART == 2 || MC_PART == 3

template <typename M, typename N>
void mixed_pair(Ctx& c)
{
    if constexpr (!std::is_same_v<M, N>) {
        // quick: grid x grid (8-bit types: every value); thorough: the 2^16 axis as well when both
        // types have at most 16 bits (2^8 x 2^16 complete, 2^16 x grid u grid x 2^16)
        bool wide = c.r.thorough() && wide16_default() && sizeof(M) <= 2 && sizeof(N) <= 2;
    #if defined(MC_FLAVOUR_O2)
        wide = false;
    #endif
        gcd_lcm<M, N>(c, pair_space2<M, N>(wide, runs_default(c.r, Runs::cross)));
    }
}

template <typename M>
void add_mixed_jobs(mc::Main& m)
{
    std::string const t = tname<M>();
    m.job("gcdlcm-mixed-" + t + "-narrow", {"quick", "thorough"}, [](mc::Reporter& r) {
        Ctx c(r);
        mixed_pair<M, i8>(c);
        mixed_pair<M, u8>(c);
        mixed_pair<M, i16>(c);
        mixed_pair<M, u16>(c);
    });
    m.job("gcdlcm-mixed-" + t + "-wide", {"quick", "thorough"}, [](mc::Reporter& r) {
        Ctx c(r);
        mixed_pair<M, i32>(c);
        mixed_pair<M, u32>(c);
        mixed_pair<M, i64>(c);
        mixed_pair<M, u64>(c);
    });
}

#if MC_PART == 3
using ll  = long long;
using ull = unsigned long long;

template <typename M>
void add_ll_jobs(mc::Main& m, std::string const& t)
{
    m.job("gcdlcm-mixed-" + t + "-with-ll-ull", {"quick", "thorough"}, [](mc::Reporter& r) {
        Ctx c(r);
        mixed_pair<M, ll>(c);
        mixed_pair<M, ull>(c);
        mixed_pair<ll, M>(c);
        mixed_pair<ull, M>(c);
    });
}
#endif

#endif // MC_PART == 2 || MC_PART == 3

} // namespace

int main(int argc, char** argv)
{
    mc::Main m(argc, argv);
#if MC_PART == 1
    add_jobs<i8>(m);
    add_jobs<u8>(m);
    add_jobs<i16>(m);
    add_jobs<u16>(m);
    add_jobs<i32>(m);
    add_jobs<u32>(m);
    add_jobs<i64>(m);
    add_jobs<u64>(m);
    // long long is a distinct type from int64_t (= long) here: the abs(long long) overload and the
    // templates instantiated for it
    m.job("longlong", {"quick", "thorough"}, [](mc::Reporter& r) {
        Ctx c(r);
        unary_math<long long>(c);
        unary_math<unsigned long long>(c);
        auto const sp = pair_space2<long long, long long>(false, runs_default(r, Runs::cross));
        add_sats<long long>(c, sp);
        div_sats<long long>(c, sp);
        midpoints<long long>(c, sp);
        midpoints<unsigned long long>(c, pair_space<unsigned long long, unsigned long long>(false));
        gcd_lcm<long long, long>(c, pair_space<long long, long>(false));
        gcd_lcm<unsigned long, long long>(c, pair_space<unsigned long, long long>(false));
    });
    m.job("longlong-2", {"quick", "thorough"}, [](mc::Reporter& r) {
        // round 2: the cells the first round left out for the two long long types
        using ll  = long long;
        using ull = unsigned long long;
        Ctx c(r);
        auto const su = pair_space2<ull, ull>(false, runs_default(r, Runs::cross));
        auto const ss = pair_space2<ll, ll>(false, runs_default(r, Runs::cross));
        add_sats<ull>(c, su);
        div_sats<ull>(c, su);
        idivs<ll>(c, ss);
        idivs<ull>(c, su);
        ipows<ll>(c);
        ipows<ull>(c);
        gcd_lcm<ll, ll>(c, pair_space2<ll, ll>(false, Runs::edges));
        gcd_lcm<ull, ull>(c, pair_space2<ull, ull>(false, Runs::edges));
    });
    // round 2: the character types (accepted by `integral`-constrained and unconstrained templates)
    m.job("chartypes-8", {"quick", "thorough"}, [](mc::Reporter& r) {
        Ctx c(r);
        char_type_cells<char>(c);
        char_type_cells<char8_t>(c);
    });
    m.job("chartypes-16", {"quick", "thorough"}, [](mc::Reporter& r) {
        Ctx c(r);
        char_type_cells<char16_t>(c, false);
    });
    m.job("chartypes-16-ipow", {"quick", "thorough"}, [](mc::Reporter& r) {
        Ctx c(r);
        ipows<char16_t>(c);
    });
    m.job("chartypes-32", {"quick", "thorough"}, [](mc::Reporter& r) {
        Ctx c(r);
        char_type_cells<char32_t>(c);
        char_type_cells<wchar_t>(c);
    });
    m.job("midpoint-pointers", {"quick", "thorough"}, [](mc::Reporter& r) {
        Ctx c(r);
        struct Wide {
            char bytes[12];
        };
        midpoint_pointers<char>(c, "char");
        midpoint_pointers<int>(c, "int");
        midpoint_pointers<Wide>(c, "struct{char[12]}");
        midpoint_pointers<int const>(c, "int const");
    });
#elif MC_PART == 3
    add_ll_jobs<i8>(m, "i8");
    add_ll_jobs<u8>(m, "u8");
    add_ll_jobs<i16>(m, "i16");
    add_ll_jobs<u16>(m, "u16");
    add_ll_jobs<i32>(m, "i32");
    add_ll_jobs<u32>(m, "u32");
    add_ll_jobs<i64>(m, "i64");
    add_ll_jobs<u64>(m, "u64");
    m.job("gcdlcm-mixed-ll-ull", {"quick", "thorough"}, [](mc::Reporter& r) {
        Ctx c(r);
        mixed_pair<ll, ull>(c);
        mixed_pair<ull, ll>(c);
    });
    m.job("gcdlcm-mixed-chartypes", {"quick", "thorough"}, [](mc::Reporter& r) {
        Ctx c(r);
        mixed_pair<char16_t, i8>(c);
        mixed_pair<i8, char16_t>(c);
        mixed_pair<char16_t, i32>(c);
        mixed_pair<u8, char>(c);
        mixed_pair<char, u32>(c);
        mixed_pair<char8_t, i16>(c);
        mixed_pair<char32_t, i32>(c);
        mixed_pair<i64, char32_t>(c);
        mixed_pair<wchar_t, u16>(c);
        mixed_pair<wchar_t, char32_t>(c);
        mixed_pair<char32_t, ll>(c);
    });
#else
    add_mixed_jobs<i8>(m);
    add_mixed_jobs<u8>(m);
    add_mixed_jobs<i16>(m);
    add_mixed_jobs<u16>(m);
    add_mixed_jobs<i32>(m);
    add_mixed_jobs<u32>(m);
    add_mixed_jobs<i64>(m);
    add_mixed_jobs<u64>(m);
#endif
    return m.run();
}
