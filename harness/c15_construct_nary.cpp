// C15, construction from TWO and THREE arguments (round 2): is_constructible, is_nothrow_constructible and the
// concept constructible_from were only instantiated with zero or one argument (c15_unary.cpp / c15_binary.cpp).
// Enumerated: 22 target types (scalars, references, arrays - C++20 parenthesised aggregate initialisation -,
// aggregates, classes with a two-argument constructor that is implicit / explicit / noexcept / templated / takes
// pointers, classes without one, an abstract class, a class with a throwing destructor is left to LWG 2116) x every
// ordered pair of a 9-type argument zoo = 1782 cases, + 8 targets x every ordered triple of a 5-type argument zoo
// = 1000 cases; three facilities, value traits in both spellings.  Every cell is a table entry computed at compile
// time (c15_common.hpp); is_trivially_constructible is not repeated here (it ignores its arguments: known finding).
#include "c15_common.hpp"

namespace c15 {

struct Three {
    int a;
    double b;
    char const* c;
};
struct FromThree {
    FromThree(int, int, int) noexcept;
};
struct ExplicitFromThree {
    explicit ExplicitFromThree(int, double, void*);
};
struct VariadicCtor {
    template <typename... A>
    VariadicCtor(A&&...) noexcept(sizeof...(A) == 2);
};
struct InitListLike {
    InitListLike(int const (&)[2], int);
};

template <typename T, typename... A> inline constexpr bool etl_constructible_from = etl::constructible_from<T, A...>;
template <typename T, typename... A> inline constexpr bool std_constructible_from = std::constructible_from<T, A...>;

#define C15_PACK(ID, NAME, FORM, OK, ETL, STD)                                                                         \
    struct ID {                                                                                                        \
        static constexpr char const* name = NAME;                                                                      \
        static constexpr char const* form = FORM;                                                                      \
        static constexpr bool class_is_target_and_arity = true;                                                        \
        template <typename... A>                                                                                       \
        static constexpr bool ok = (OK);                                                                               \
        template <typename... A>                                                                                       \
        static constexpr bool gap = false;                                                                             \
        template <typename... A>                                                                                       \
        static constexpr long long e()                                                                                 \
        {                                                                                                              \
            return static_cast<long long>(ETL);                                                                        \
        }                                                                                                              \
        template <typename... A>                                                                                       \
        static constexpr long long s()                                                                                 \
        {                                                                                                              \
            return static_cast<long long>(STD);                                                                        \
        }                                                                                                              \
        template <typename... A>                                                                                       \
        static constexpr ShowFn show = nullptr;                                                                        \
        template <typename... A>                                                                                       \
        static constexpr bool nontrivial(long long sv)                                                                 \
        {                                                                                                              \
            return sv != 0;                                                                                            \
        }                                                                                                              \
    };

// LWG 2116: see c15_common.hpp (targets whose destructor may throw are kept out of the nothrow columns)
template <typename T, typename...>
inline constexpr bool first_not_lwg2116 = !lwg2116<T>;

C15_PACK(is_constructible_SN, "is_constructible", "@<T,Args...>::value", true, (etl::is_constructible<A...>::value), (std::is_constructible<A...>::value))
C15_PACK(is_constructible_VN, "is_constructible", "@_v<T,Args...>", true, (etl::is_constructible_v<A...>), (std::is_constructible_v<A...>))
C15_PACK(is_nothrow_constructible_SN, "is_nothrow_constructible", "@<T,Args...>::value", (first_not_lwg2116<A...>), (etl::is_nothrow_constructible<A...>::value), (std::is_nothrow_constructible<A...>::value))
C15_PACK(is_nothrow_constructible_VN, "is_nothrow_constructible", "@_v<T,Args...>", (first_not_lwg2116<A...>), (etl::is_nothrow_constructible_v<A...>), (std::is_nothrow_constructible_v<A...>))
C15_PACK(constructible_from_CN, "constructible_from", "@<T,Args...> (concept)", true, (etl_constructible_from<A...>), (std_constructible_from<A...>))

// clang-format off
using targets2 = tl<int, int&, int const&, double, int*, int[2], int[3], int[], zoo::Agg, zoo::TwoInts, zoo::Agg const, zoo::AggDerived,
                    zoo::FromTwoInts, zoo::ExplicitFromTwo, zoo::FromInitPtr, zoo::NoDefault, zoo::Abstract, zoo::Empty, zoo::ThrowDtor,
                    VariadicCtor, InitListLike, zoo::UnionTriv>;
using args2    = tl<int, double, int&, int const*, std::nullptr_t, zoo::ToInt, zoo::Agg, void, int (&)[2]>;
using targets3 = tl<int, int[3], int[2], Three, FromThree, ExplicitFromThree, VariadicCtor, zoo::Agg>;
using args3    = tl<int, double, void*, char const*, zoo::ToInt>;
// clang-format on

// T x A1 x A2 (x A3) -> tl<T, A1, A2(, A3)>
template <typename T, typename L>
struct prepend;
template <typename T, typename... A>
struct prepend<T, tl<A...>> {
    using type = tl<T, A...>;
};
template <typename Ts, typename Lists>
struct targets_times;
template <typename... Lists>
struct targets_times<tl<>, tl<Lists...>> {
    using type = tl<>;
};
template <typename T, typename... Ts, typename... Lists>
struct targets_times<tl<T, Ts...>, tl<Lists...>> {
    using type = tl_cat_t<tl<typename prepend<T, Lists>::type...>, typename targets_times<tl<Ts...>, tl<Lists...>>::type>;
};
using arg_pairs   = cross_t<args2, args2>;
using cases2      = typename targets_times<targets2, arg_pairs>::type;
template <typename As, typename Pairs>
struct triples;
template <typename... P>
struct triples<tl<>, tl<P...>> {
    using type = tl<>;
};
template <typename A, typename... As, typename... P>
struct triples<tl<A, As...>, tl<P...>> {
    using type = tl_cat_t<tl<typename prepend<A, P>::type...>, typename triples<tl<As...>, tl<P...>>::type>;
};
using arg_triples = typename triples<args3, cross_t<args3, args3>>::type;
using cases3      = typename targets_times<targets3, arg_triples>::type;

} // namespace c15

int main(int argc, char** argv)
{
    using namespace c15;
    mc::Main m(argc, argv);
    m.job("construct/two-arguments", {"quick", "thorough"}, [](mc::Reporter& r) {
        run_columns<cases2, is_constructible_SN, is_constructible_VN, is_nothrow_constructible_SN, is_nothrow_constructible_VN, constructible_from_CN>(r);
    });
    m.job("construct/three-arguments", {"quick", "thorough"}, [](mc::Reporter& r) {
        run_columns<cases3, is_constructible_SN, is_constructible_VN, is_nothrow_constructible_SN, is_nothrow_constructible_VN, constructible_from_CN>(r);
    });
    return m.run();
}
