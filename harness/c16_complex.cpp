// C16, complex functions built on the approximating set: abs, arg, norm, conj, polar, log,
// log10, sin, cos, tan, sinh, cosh, tanh for complex<float> and complex<double> on a 33 x 33
// grid of (re, im) (polar: 33 x 33 grid of (r, theta), r >= 0) against std::complex:
//   * conj bit for bit;
//   * where the std result has a NaN or infinite component, the same component of the tetl
//     result must be NaN / the same infinity;
//   * otherwise |tetl - ref| / max(|ref|, min_normal) <= bound * epsilon in the complex
//     modulus, ref = std::complex evaluated in the next wider type, bound from
//     c16_bounds.hpp (same rule as the real functions).
#include "c16_common.hpp"

#include "c16_bounds.hpp"

#include <etl/cmath.hpp>
#include <etl/complex.hpp>

#include <complex>

using namespace c16;
using mc::cat;

namespace {

template <typename T>
using hi_t = std::conditional_t<std::is_same_v<T, float>, double, long double>;

double bound_for(std::string const& call, double cap)
{
    for (auto const& row : kBounds) {
        if (call == row.subject && row.region[0] == 0) { return row.bound_eps < cap ? row.bound_eps : cap; }
    }
    return cap;
}

template <typename T>
std::vector<T> axis()
{
    std::vector<T> mags = {T(0), T(1e-3), T(0.1), T(0.5), T(0.9), T(1), T(1.5), T(1.5707963267948966L), T(2), T(3), T(3.14159265358979323846L), T(5),
        T(10), T(20), T(30), T(40), T(50)};
    std::vector<T> out;
    for (T m : mags) {
        out.push_back(m);
        if (m != 0) { out.push_back(-m); }
    }
    return out;
}

template <typename T>
std::string zclass(T re, T im)
{
    T const a       = std::fabs(re) > std::fabs(im) ? std::fabs(re) : std::fabs(im);
    char const* mag = a == 0 ? "zero" : a < 1 ? "lt_1" : a < 8 ? "lt_8" : "ge_8";
    char const* ax  = (re == 0 && im == 0) ? "" : im == 0 ? ":real_axis" : re == 0 ? ":imag_axis" : "";
    return cat(mag, ax);
}

template <typename T>
std::string showz(T re, T im)
{
    return cat("(", show(re), ", ", show(im), ")");
}

template <typename T>
struct CF {
    std::string subject; // typed while the table is built; subjects() moves it to `call` and stores the untyped subject here
    std::complex<T> (*impl)(T, T);
    std::complex<T> (*ref)(T, T);
    std::complex<hi_t<T>> (*ref_hi)(hi_t<T>, hi_t<T>);
    bool polar; // first argument must be >= 0
    std::string call;
};

/// "etl::sin(complex<float>)" -> "etl::sin(complex)", "etl::polar(float,float)" -> "etl::polar"
std::string csubject(std::string const& call)
{
    auto const p = call.find("(complex<");
    if (p != std::string::npos) { return call.substr(0, p) + "(complex)"; }
    return strip_args(call);
}

template <typename T>
std::complex<T> cvt(etl::complex<T> const& z)
{
    return {z.real(), z.imag()};
}

#define C16_CZ(name)                                                                                                              \
    v.push_back({cat("etl::" #name "(complex<", tn, ">)"),                                                                         \
        [](T a, T b) -> std::complex<T> { return cvt(etl::name(etl::complex<T>(a, b))); },                                          \
        [](T a, T b) -> std::complex<T> { return std::name(std::complex<T>(a, b)); },                                              \
        [](H a, H b) -> std::complex<H> { return std::name(std::complex<H>(a, b)); }, false});
#define C16_CR(name)                                                                                                              \
    v.push_back({cat("etl::" #name "(complex<", tn, ">)"),                                                                         \
        [](T a, T b) -> std::complex<T> { return {etl::name(etl::complex<T>(a, b)), T(0)}; },                                       \
        [](T a, T b) -> std::complex<T> { return {std::name(std::complex<T>(a, b)), T(0)}; },                                      \
        [](H a, H b) -> std::complex<H> { return {std::name(std::complex<H>(a, b)), H(0)}; }, false});

template <typename T>
std::vector<CF<T>> subjects()
{
    using H              = hi_t<T>;
    std::string const tn = FT<T>::n;
    std::vector<CF<T>> v;
    C16_CR(abs)
    C16_CR(arg)
    C16_CR(norm)
    C16_CZ(log)
    C16_CZ(log10)
    C16_CZ(sin)
    C16_CZ(cos)
    C16_CZ(tan)
    C16_CZ(sinh)
    C16_CZ(cosh)
    C16_CZ(tanh)
    v.push_back({cat("etl::polar(", tn, ",", tn, ")"), [](T a, T b) -> std::complex<T> { return cvt(etl::polar(a, b)); },
        [](T a, T b) -> std::complex<T> { return std::polar(a, b); }, [](H a, H b) -> std::complex<H> { return std::polar(a, b); }, true});
    for (auto& u : v) {
        u.call    = u.subject;
        u.subject = csubject(u.call);
    }
    return v;
}

template <typename T>
void sweep(mc::Reporter& r)
{
    using H            = hi_t<T>;
    auto const A       = axis<T>();
    auto const subs    = subjects<T>();
    double const cap   = cap_eps<T>();
    bool const measure = measuring();
    H const eps        = H(std::numeric_limits<T>::epsilon());
    H const tmin       = H(std::numeric_limits<T>::min());
    u64 evals = 0, nontrivial = 0, skipped = 0;

    // conj: exact
    {
        std::string const subject = "etl::conj(complex)";
        std::string const call    = cat("etl::conj(complex<", FT<T>::n, ">)");
        if (r.want(subject)) {
            auto B = make_boundary_small<T>();
            for (T a : B) {
                for (T b : B) {
                    auto const got  = etl::conj(etl::complex<T>(a, b));
                    auto const want = std::conj(std::complex<T>(a, b));
                    ++evals;
                    if (canon(got.real()) != canon(want.real()) || canon(got.imag()) != canon(want.imag())) {
                        r.violation("C16", subject, cat(coarse(a), ",", coarse(b)), cat(call, " z=", showz(a, b)),
                            cat("tetl=", showz(got.real(), got.imag()), " std=", showz(want.real(), want.imag())));
                    }
                }
            }
        }
    }

    for (auto const& u : subs) {
        if (!r.want(u.subject)) { continue; }
        double const bound = measure ? cap : bound_for(u.call, cap);
        double max_err     = 0;
        std::string max_at;
        T ca{}, cb{};
        std::size_t i = 0;
        while (i < A.size()) {
            mc::Trap const t = mc::guarded([&] {
                for (; i < A.size(); ++i) {
                    T const a = A[i];
                    ca        = a;
                    if (u.polar && (a < 0 || std::signbit(a))) {
                        skipped += A.size();
                        continue;
                    }
                    for (T b : A) {
                        cb             = b;
                        auto const got = u.impl(a, b);
                        auto const ref = u.ref(a, b);
                        auto const hi  = u.ref_hi(H(a), H(b));
                        ++evals;
                        bool const ref_special = !std::isfinite(ref.real()) || !std::isfinite(ref.imag());
                        auto const kase        = [&] { return cat(u.call, u.polar ? " (r, theta)=" : " z=", showz(a, b)); };
                        if (ref_special) {
                            auto comp_ok = [](T g, T w) {
                                if (w != w) { return g != g; }
                                if (std::isinf(w)) { return std::isinf(g) && ((g > 0) == (w > 0)); }
                                return true;
                            };
                            if (!comp_ok(got.real(), ref.real()) || !comp_ok(got.imag(), ref.imag())) {
                                r.violation("C16", u.subject, zclass(a, b) + ":std_nonfinite", kase(),
                                    cat("tetl=", showz(got.real(), got.imag()), " std=", showz(ref.real(), ref.imag())));
                            }
                            continue;
                        }
                        ++nontrivial;
                        if (!std::isfinite(got.real()) || !std::isfinite(got.imag())) {
                            r.violation("C16", u.subject, zclass(a, b), kase(),
                                cat("non-finite result where std is finite: tetl=", showz(got.real(), got.imag()), " std=", showz(ref.real(), ref.imag())));
                            continue;
                        }
                        H const dr  = H(got.real()) - hi.real();
                        H const di  = H(got.imag()) - hi.imag();
                        H const num = std::sqrt(dr * dr + di * di);
                        H den       = std::sqrt(hi.real() * hi.real() + hi.imag() * hi.imag());
                        if (den < tmin) { den = tmin; }
                        double err       = double(num / den / eps);
                        {
                            // distance to std's own same-type result, when that is smaller (see judge())
                            H const er   = H(got.real()) - H(ref.real());
                            H const ei   = H(got.imag()) - H(ref.imag());
                            H den2       = std::sqrt(H(ref.real()) * H(ref.real()) + H(ref.imag()) * H(ref.imag()));
                            if (den2 < tmin) { den2 = tmin; }
                            double const e2 = double(std::sqrt(er * er + ei * ei) / den2 / eps);
                            if (e2 < err) { err = e2; }
                        }
                        if (err <= cap && err > max_err) {
                            max_err = err;
                            max_at  = kase();
                        }
                        if (err > bound) {
                            char e[64];
                            std::snprintf(e, sizeof e, "%.4g", err);
                            r.violation("C16", u.subject, zclass(a, b), kase(),
                                cat("error above the bound: tetl=", showz(got.real(), got.imag()), " std=", showz(ref.real(), ref.imag()), " wide reference=(",
                                    show(hi.real()), ", ", show(hi.imag()), ") error=", e, " eps, bound=", bound, " eps"));
                        }
                        if ((evals % 64) == 0) { r.outcome(mc::hash_mix(mc::hash_str(u.call), mc::hash_mix(canon(ref.real()), canon(ref.imag())))); }
                    }
                }
            });
            if (t != mc::Trap::none) {
                r.violation(t == mc::Trap::assert_fired ? "C05" : "C02", u.subject, cat("trap-", mc::trap_name(t), ":", zclass(ca, cb)),
                    cat(u.call, " z=", showz(ca, cb)), mc::describe_trap(t));
                ++i;
            }
        }
        char b[64];
        std::snprintf(b, sizeof b, "%.6g", max_err);
        r.note(cat("MAXERR|", u.call, "||", b, "|", bound, "|", max_at));
        auto const s = u.impl(T(1), T(0.5));
        r.sample(cat(u.call, u.polar ? " (r, theta)=" : " z=", showz(T(1), T(0.5)), " -> ", showz(s.real(), s.imag())));
    }
    r.count("evaluations", evals);
    r.count("distinct_nontrivial", nontrivial);
    r.count("out_of_domain_skipped", skipped);
}

} // namespace

int main(int argc, char** argv)
{
    mc::Main m(argc, argv);
    m.job("c32/grid", {"quick", "thorough"}, [](mc::Reporter& r) {
        r.count("configurations", 1);
        sweep<float>(r);
    });
    m.job("c64/grid", {"quick", "thorough"}, [](mc::Reporter& r) {
        r.count("configurations", 1);
        sweep<double>(r);
    });
    return m.run();
}
