// C11, part 3 (round 2): the corners the first two parts did not instantiate.
//
//  cmp/*            every comparison operator tetl provides (==, != everywhere; <, <=, >, >= and <=> where
//                   they compile) of every calendar type over a full small grid that contains values that
//                   are not ok(); the set of operators is detected with `requires`, missing ones are API
//                   gaps and are listed in the samples, never judged.
//  okwide/*         ok() and the accessors over the COMPLETE 8-bit month and day ranges (the first round
//                   stopped at month 13 / day 32): year_month_day (and its sys_days value whenever year and
//                   month are ok: the standard specifies sys_days{y/m/1} + (d - 1)), year_month,
//                   year_month_day_last, year_month_weekday on a lattice of years; month_day,
//                   month_day_last, month_weekday, month_weekday_last without a year.
//  conv/rounding    sys_time / local_time in seconds, minutes and hours around midnight (also before 1970)
//                   -> floor / ceil / round / time_point_cast<days> -> year_month_day, weekday.
//  conv/weekday-extremes   weekday(sys_days) / weekday(local_days) at the ends of the day-count rep
//                   (no precondition in the standard; reported for C02, it is outside C11's day range).
//  consteval/*      the bijection on a boundary table (era boundaries, leap days, century years, year
//                   limits) and month / year_month / year_month_day / weekday arithmetic evaluated by the
//                   compiler, compared with the same tetl code at run time and with std::chrono.
#include "c11_common.hpp"

#include <algorithm>
#include <array>
#include <climits>
#include <type_traits>

using namespace c11;

namespace {

constexpr int kFirstDay = -12687429; // -32767-01-01
constexpr int kLastDay  = 11248737;  //  32767-12-31

// ---------------------------------------------------------------------------------------------
// comparisons
// ---------------------------------------------------------------------------------------------

template <typename TE, typename TS>
struct Item {
    TE e;
    TS s;
    V args; // constructor arguments (the replayable case)
};

template <typename T>
int three_way(T const& a, T const& b)
{
    auto const o = a <=> b;
    return o < 0 ? -1 : (o > 0 ? 1 : 0);
}

template <typename TE, typename TS>
void cmp_grid(mc::Reporter& r, Ctx& c, char const* type, char const* subject, std::vector<Item<TE, TS>> const& g)
{
    constexpr bool e_rel = requires(TE a, TE b) {
        a < b;
        a <= b;
        a > b;
        a >= b;
    };
    constexpr bool s_rel = requires(TS a, TS b) { a < b; };
    constexpr bool e_sp  = requires(TE a, TE b) { a <=> b; };
    constexpr bool s_sp  = requires(TS a, TS b) { a <=> b; };
    std::size_t i = 0, j = 0;
    auto cls = [&] {
        if (i == j) { return std::string("same_item"); }
        for (int k = 0; k < g[i].args.n; ++k) {
            if (g[i].args.v[k] != g[j].args.v[k]) { return cat("differ_from_arg", k); }
        }
        return std::string("equal_args");
    };
    auto kase = [&] { return cat(type, g[i].args.str(), " vs ", type, g[j].args.str()); };
    c.subject = subject;
    for (i = 0; i < g.size(); ++i) {
        mc::Trap const t = mc::guarded([&] {
            for (j = 0; j < g.size(); ++j) {
                V got{g[i].e == g[j].e, g[i].e != g[j].e};
                V want{g[i].s == g[j].s, g[i].s != g[j].s};
                if constexpr (e_rel && s_rel) {
                    got.add(g[i].e < g[j].e).add(g[i].e <= g[j].e).add(g[i].e > g[j].e).add(g[i].e >= g[j].e);
                    want.add(g[i].s < g[j].s).add(g[i].s <= g[j].s).add(g[i].s > g[j].s).add(g[i].s >= g[j].s);
                }
                if constexpr (e_sp && s_sp) {
                    got.add(three_way(g[i].e, g[j].e));
                    want.add(three_way(g[i].s, g[j].s));
                }
                c.check(subject, got, want, cls, kase);
                r.outcome(mc::hash_mix(got.hash(), mc::fnv1a(type, std::char_traits<char>::length(type))));
            }
        });
        if (t != mc::Trap::none) { c.trapped(t, cls(), kase()); }
    }
    r.count("distinct_nontrivial", g.size() * (g.size() - 1)); // ordered pairs of different items
    r.sample(cat(type, ": ", g.size(), "^2 ordered pairs; tetl operators: == !=", (e_rel ? " < <= > >=" : ""), (e_sp ? " <=>" : ""),
        ((s_rel && !e_rel) ? " (relational operators / <=> of std::chrono have no tetl counterpart: API gap)" : "")));
}

V join2(V a, V const& b)
{
    for (int i = 0; i < b.n; ++i) { a.add(b.v[i]); }
    return a;
}

template <typename L>
auto mk_wdi(unsigned wd, unsigned idx)
{
    return typename L::weekday_indexed{typename L::weekday{wd}, idx};
}

void job_cmp_units(mc::Reporter& r)
{
    Ctx c(r);
    {
        std::vector<Item<ec::day, sc::day>> g;
        for (unsigned d = 0; d <= 255; ++d) { g.push_back({ec::day{d}, sc::day{d}, V{d}}); }
        cmp_grid(r, c, "day", "day comparisons", g);
    }
    {
        std::vector<Item<ec::month, sc::month>> g;
        for (unsigned m = 0; m <= 255; ++m) { g.push_back({ec::month{m}, sc::month{m}, V{m}}); }
        cmp_grid(r, c, "month", "month comparisons", g);
    }
    {
        std::vector<Item<ec::weekday, sc::weekday>> g;
        for (unsigned w = 0; w <= 255; ++w) { g.push_back({ec::weekday{w}, sc::weekday{w}, V{w}}); }
        cmp_grid(r, c, "weekday", "weekday comparisons", g);
    }
    {
        // the values held are unspecified for a weekday that is not ok() or an index outside [0, 7]
        std::vector<Item<ec::weekday_indexed, sc::weekday_indexed>> g;
        for (unsigned w = 0; w <= 7; ++w) {
            for (unsigned k = 0; k <= 7; ++k) { g.push_back({mk_wdi<E>(w, k), mk_wdi<S>(w, k), V{w, k}}); }
        }
        cmp_grid(r, c, "weekday_indexed", "weekday_indexed comparisons", g);
    }
    {
        std::vector<Item<ec::weekday_last, sc::weekday_last>> g;
        for (unsigned w = 0; w <= 255; ++w) {
            if (w > 9 && w < 250) { continue; }
            g.push_back({ec::weekday_last{ec::weekday{w}}, sc::weekday_last{sc::weekday{w}}, V{w}});
        }
        cmp_grid(r, c, "weekday_last", "weekday_last comparisons", g);
    }
    {
        // every year against its neighbours, its negation and a few fixed years (the lattice x lattice product is in arith/year)
        int y = 0, y2 = 0;
        c.subject = "year comparisons";
        for (int y0 = -32767; y0 <= 32767; y0 += 4096) {
            mc::Trap const t = mc::guarded([&] {
                for (y = y0; y < y0 + 4096 && y <= 32767; ++y) {
                    for (int o : {y - 1, y, y + 1, -y, 0, 1970, -32767, 32767, y ^ 0x100, y ^ 0x4000}) {
                        y2 = o;
                        if (y2 < -32767 || y2 > 32767) { continue; }
                        ec::year const a{y}, b{y2};
                        sc::year const sa{y}, sb{y2};
                        c.check(
                            c.subject, V{a == b, a != b, a < b, a <= b, a > b, a >= b}, V{sa == sb, sa != sb, sa < sb, sa <= sb, sa > sb, sa >= sb},
                            [&] { return std::string(y == y2 ? "same_item" : ((y < 0) != (y2 < 0) ? "signs_differ" : "general")); },
                            [&] { return cat("year{", y, "} vs year{", y2, "}"); });
                        if (y != y2) { r.nontrivial(mc::hash_mix(std::uint64_t(y), std::uint64_t(y2) + 0x10000)); }
                    }
                }
            });
            if (t != mc::Trap::none) { c.trapped(t, "general", cat("year{", y, "} vs year{", y2, "}")); }
        }
        r.sample("year: every year -32767..32767 vs {y-1, y, y+1, -y, 0, 1970, -32767, 32767, y^0x100, y^0x4000}");
    }
    {
        std::vector<Item<ec::sys_days, sc::sys_days>> g;
        std::vector<Item<ec::local_days, sc::local_days>> gl;
        for (long long n : {(long long)INT_MIN, (long long)INT_MIN + 1, (long long)kFirstDay - 1, (long long)kFirstDay, (long long)kFirstDay + 1, -719468LL, -65536LL, -2LL, -1LL, 0LL, 1LL, 2LL,
                 65536LL, 19000LL, (long long)kLastDay - 1, (long long)kLastDay, (long long)kLastDay + 1, (long long)INT_MAX - 1, (long long)INT_MAX}) {
            g.push_back({ec::sys_days{ec::days{int(n)}}, sc::sys_days{sc::days{n}}, V{n}});
            gl.push_back({ec::local_days{ec::days{int(n)}}, sc::local_days{sc::days{n}}, V{n}});
        }
        cmp_grid(r, c, "sys_days", "sys_days comparisons", g);
        cmp_grid(r, c, "local_days", "local_days comparisons", gl);
    }
    {
        // named constants and literals: the same objects as in std::chrono
        using namespace etl::literals::chrono_literals;
        using namespace std::literals::chrono_literals;
        ec::month const em[12] = {ec::January, ec::February, ec::March, ec::April, ec::May, ec::June, ec::July, ec::August, ec::September, ec::October, ec::November, ec::December};
        sc::month const sm[12] = {sc::January, sc::February, sc::March, sc::April, sc::May, sc::June, sc::July, sc::August, sc::September, sc::October, sc::November, sc::December};
        ec::weekday const ew[7] = {ec::Sunday, ec::Monday, ec::Tuesday, ec::Wednesday, ec::Thursday, ec::Friday, ec::Saturday};
        sc::weekday const sw[7] = {sc::Sunday, sc::Monday, sc::Tuesday, sc::Wednesday, sc::Thursday, sc::Friday, sc::Saturday};
        int k = 0;
        c.subject = "named month constants";
        for (k = 0; k < 12; ++k) {
            c.check(c.subject, join2(f_month(em[k]), V{em[k] == ec::month{unsigned(k + 1)}}), join2(f_month(sm[k]), V{sm[k] == sc::month{unsigned(k + 1)}}), [] { return std::string("general"); },
                [&] { return cat("month constant #", k + 1); });
        }
        c.subject = "named weekday constants";
        for (k = 0; k < 7; ++k) {
            c.check(c.subject, join2(f_wd(ew[k]), V{ew[k] == ec::weekday{unsigned(k)}}), join2(f_wd(sw[k]), V{sw[k] == sc::weekday{unsigned(k)}}), [] { return std::string("general"); },
                [&] { return cat("weekday constant #", k); });
        }
        c.subject = "operator\"\"_y / operator\"\"_d";
        ec::year const ey[] = {0_y, 1_y, 1970_y, 2024_y, 32767_y, -1_y, -32767_y};
        sc::year const sy[] = {0y, 1y, 1970y, 2024y, 32767y, -1y, -32767y};
        for (k = 0; k < 7; ++k) {
            c.check(c.subject, f_year(ey[k]), f_year(sy[k]), [] { return std::string("year"); }, [&] { return cat("year literal #", k, " of {0,1,1970,2024,32767,-1,-32767}"); });
        }
        ec::day const ed[] = {0_d, 1_d, 28_d, 31_d, 32_d, 255_d};
        sc::day const sd[] = {0d, 1d, 28d, 31d, 32d, 255d};
        for (k = 0; k < 6; ++k) {
            c.check(c.subject, f_day(ed[k]), f_day(sd[k]), [] { return std::string("day"); }, [&] { return cat("day literal #", k, " of {0,1,28,31,32,255}"); });
        }
        r.sample("constants January..December, Sunday..Saturday; literals _y / _d");
        r.count("distinct_nontrivial", 12 + 7 + 7 + 6);
    }
    r.count("evaluations", c.evals);
}

void job_cmp_composites(mc::Reporter& r)
{
    Ctx c(r);
    std::vector<unsigned> const months{0, 1, 2, 3, 12, 13, 255};
    std::vector<unsigned> const days{0, 1, 2, 28, 29, 30, 31, 32, 255};
    std::vector<int> const years{-32767, -1, 0, 1, 1970, 32767};
    {
        std::vector<Item<ec::month_day, sc::month_day>> g;
        for (unsigned m : months) {
            for (unsigned d : days) { g.push_back({ec::month_day{ec::month{m}, ec::day{d}}, sc::month_day{sc::month{m}, sc::day{d}}, V{m, d}}); }
        }
        cmp_grid(r, c, "month_day", "month_day comparisons", g);
    }
    {
        std::vector<Item<ec::month_day_last, sc::month_day_last>> g;
        for (unsigned m = 0; m <= 255; ++m) { g.push_back({ec::month_day_last{ec::month{m}}, sc::month_day_last{sc::month{m}}, V{m}}); }
        cmp_grid(r, c, "month_day_last", "month_day_last comparisons", g);
    }
    {
        std::vector<Item<ec::month_weekday, sc::month_weekday>> g;
        for (unsigned m : {0U, 1U, 2U, 12U, 13U}) {
            for (unsigned w : {0U, 1U, 6U, 7U}) {
                for (unsigned k : {0U, 1U, 2U, 5U, 6U}) { g.push_back({ec::month_weekday{ec::month{m}, mk_wdi<E>(w, k)}, sc::month_weekday{sc::month{m}, mk_wdi<S>(w, k)}, V{m, w, k}}); }
            }
        }
        cmp_grid(r, c, "month_weekday", "month_weekday comparisons", g);
    }
    {
        std::vector<Item<ec::month_weekday_last, sc::month_weekday_last>> g;
        for (unsigned m : {0U, 1U, 2U, 12U, 13U}) {
            for (unsigned w : {0U, 1U, 6U, 7U, 8U}) {
                g.push_back({ec::month_weekday_last{ec::month{m}, ec::weekday_last{ec::weekday{w}}}, sc::month_weekday_last{sc::month{m}, sc::weekday_last{sc::weekday{w}}}, V{m, w}});
            }
        }
        cmp_grid(r, c, "month_weekday_last", "month_weekday_last comparisons", g);
    }
    {
        std::vector<Item<ec::year_month, sc::year_month>> g;
        for (int y : years) {
            for (unsigned m : months) { g.push_back({ec::year_month{ec::year{y}, ec::month{m}}, sc::year_month{sc::year{y}, sc::month{m}}, V{y, m}}); }
        }
        cmp_grid(r, c, "year_month", "year_month comparisons", g);
    }
    {
        std::vector<Item<ec::year_month_day, sc::year_month_day>> g;
        for (int y : {-32767, -1, 0, 1970, 32767}) {
            for (unsigned m : {0U, 1U, 2U, 12U, 13U}) {
                for (unsigned d : {0U, 1U, 2U, 29U, 31U, 32U}) {
                    g.push_back({ec::year_month_day{ec::year{y}, ec::month{m}, ec::day{d}}, sc::year_month_day{sc::year{y}, sc::month{m}, sc::day{d}}, V{y, m, d}});
                }
            }
        }
        cmp_grid(r, c, "year_month_day", "year_month_day comparisons", g);
    }
    {
        // tetl has no operator== for year_month_day_last; the expression compiles through the implicit
        // conversion to year_month_day and must then give the answer of the standard's operator==
        std::vector<Item<ec::year_month_day_last, sc::year_month_day_last>> g;
        for (int y : {-32767, -1, 0, 1970, 2024, 32767}) {
            for (unsigned m : {0U, 1U, 2U, 3U, 12U, 13U}) {
                g.push_back({ec::year_month_day_last{ec::year{y}, ec::month_day_last{ec::month{m}}}, sc::year_month_day_last{sc::year{y}, sc::month_day_last{sc::month{m}}}, V{y, m}});
            }
        }
        cmp_grid(r, c, "year_month_day_last", "year_month_day_last comparisons", g);
    }
    {
        std::vector<Item<ec::year_month_weekday, sc::year_month_weekday>> g;
        for (int y : {-32767, 0, 1970, 32767}) {
            for (unsigned m : {0U, 1U, 12U, 13U}) {
                for (unsigned w : {0U, 1U, 6U}) {
                    for (unsigned k : {0U, 1U, 5U, 6U}) {
                        g.push_back({ec::year_month_weekday{ec::year{y}, ec::month{m}, mk_wdi<E>(w, k)}, sc::year_month_weekday{sc::year{y}, sc::month{m}, mk_wdi<S>(w, k)}, V{y, m, w, k}});
                    }
                }
            }
        }
        cmp_grid(r, c, "year_month_weekday", "year_month_weekday comparisons", g);
    }
    r.count("evaluations", c.evals);
}

// ---------------------------------------------------------------------------------------------
// ok() and accessors over the full 8-bit field ranges
// ---------------------------------------------------------------------------------------------

std::vector<int> wide_years(bool thorough)
{
    std::vector<int> v{1970, 2000, 2024, 2023, 1900, 2100, 0, 1, -1, 4, -4, 100, -100, 400, -400, 1968, 1969, 1971, 1972, 1999, 2001, 1899, 1901, 2099, 2101, 2, 3, 5, -2, -3, -5, 99, 101, -99,
        -101, 399, 401, -399, -401, 32767, -32767, 32766, -32766, 32764, -32764, 32400, -32400, 32000, -32000, 16384, -16384, 16383, -16383};
    for (int y = -32767; y <= 32767; y += (thorough ? 31 : 1499)) {
        if (std::find(v.begin(), v.end(), y) == v.end()) { v.push_back(y); }
    }
    return v;
}

std::string wide_cls(int y, unsigned m, unsigned d)
{
    std::string c;
    if (m < 1 || m > 12) {
        c = (m > 13) ? "month_gt_13" : "month_not_ok";
    } else if (d < 1) {
        c = "day_zero";
    } else if (d > 32) {
        c = "day_gt_32";
    } else if (d > Walker::mlen(y, m)) {
        c = "day_gt_last";
    } else if (m == 2 && d == 29) {
        c = "leap_day";
    } else {
        c = "general";
    }
    return c;
}

template <typename L>
V wide_ymd(int y, unsigned m, unsigned d)
{
    typename L::year_month_day const x{typename L::year{y}, typename L::month{m}, typename L::day{d}};
    V v = f_ymd(x);
    // specified whenever year and month are ok: the day count of the date, or sys_days{y/m/1} + (d - 1)
    if (x.year().ok() && x.month().ok()) {
        v.add((long long)typename L::sys_days{x}.time_since_epoch().count());
        v.add((long long)typename L::local_days(x).time_since_epoch().count());
    }
    return v;
}

template <typename L>
V wide_ymw(int y, unsigned m, unsigned wd, unsigned idx)
{
    typename L::year_month_weekday const x{typename L::year{y}, typename L::month{m}, mk_wdi<L>(wd, idx)};
    V v = f_ymw(x);
    v.add(x.weekday_indexed().ok());
    return v;
}

void job_okwide(mc::Reporter& r, int part, int parts)
{
    Ctx c(r);
    auto const ys = wide_years(r.thorough());
    int y         = 0;
    unsigned m = 0, d = 0, wd = 0, idx = 0;
    std::uint64_t nontrivial = 0, years_done = 0;
    for (std::size_t yi = std::size_t(part); yi < ys.size(); yi += std::size_t(parts)) {
        y = ys[yi];
        ++years_done;
        mc::Trap const t = mc::guarded([&] {
            for (m = 0; m <= 255; ++m) {
                for (d = 0; d <= 255; ++d) {
                    c.subject = "year_month_day::ok()/sys_days";
                    c.check(
                        c.subject, wide_ymd<E>(y, m, d), wide_ymd<S>(y, m, d), [&] { return wide_cls(y, m, d); }, [&] { return cat("year_month_day{", y, ",", m, ",", d, "}"); });
                    if (m > 13 || d > 32) { ++nontrivial; }
                }
                d         = 1;
                c.subject = "year_month::ok()";
                {
                    ec::year_month const e{ec::year{y}, ec::month{m}};
                    sc::year_month const s{sc::year{y}, sc::month{m}};
                    c.check(
                        c.subject, f_ym(e), f_ym(s), [&] { return wide_cls(y, m, 1); }, [&] { return cat("year_month{", y, ",", m, "}"); });
                }
                c.subject = "year_month_day_last::ok()/day()";
                {
                    ec::year_month_day_last const e{ec::year{y}, ec::month_day_last{ec::month{m}}};
                    sc::year_month_day_last const s{sc::year{y}, sc::month_day_last{sc::month{m}}};
                    V ve = f_ymdl(e), vs = f_ymdl(s);
                    ve.add(unsigned(e.month_day_last().month()));
                    vs.add(unsigned(s.month_day_last().month()));
                    c.check(
                        c.subject, ve, vs, [&] { return wide_cls(y, m, 1); }, [&] { return cat("year_month_day_last{", y, ",", m, "/last}"); });
                }
                for (wd = 0; wd <= 7; ++wd) {
                    for (idx = 0; idx <= 7; ++idx) {
                        c.subject = "year_month_weekday::ok()";
                        c.check(
                            c.subject, wide_ymw<E>(y, m, wd, idx), wide_ymw<S>(y, m, wd, idx),
                            [&] { return wide_cls(y, m, 1) + ((idx == 0 || idx > 5) ? "+index_not_ok" : (idx == 5 ? "+index_5" : "")); },
                            [&] { return cat("year_month_weekday{", y, ",", m, ",weekday{", wd, "}[", idx, "]}"); });
                    }
                }
            }
        });
        if (t != mc::Trap::none) { c.trapped(t, wide_cls(y, m, d), cat("y=", y, " m=", m, " d=", d, " wd=", wd, " idx=", idx)); }
        if (r.deadline_passed()) {
            r.not_exhaustive("deadline");
            break;
        }
    }
    r.sample(cat(years_done, " of ", ys.size(), " lattice years (first ", ys[std::size_t(part)], ") x month 0..255 x day 0..255; x weekday 0..7 x index 0..7"));
    r.count("evaluations", c.evals);
    r.count("distinct_nontrivial", nontrivial);
}

void job_okwide_yearless(mc::Reporter& r)
{
    Ctx c(r);
    unsigned m = 0, d = 0, k = 0;
    auto cls = [&] { return wide_cls(2000, m, d); };
    for (m = 0; m <= 255; ++m) {
        mc::Trap const t = mc::guarded([&] {
            for (d = 0; d <= 255; ++d) {
                c.subject = "month_day::ok()";
                ec::month_day const e{ec::month{m}, ec::day{d}};
                sc::month_day const s{sc::month{m}, sc::day{d}};
                c.check(
                    c.subject, V{unsigned(e.month()), unsigned(e.day()), e.ok()}, V{unsigned(s.month()), unsigned(s.day()), s.ok()}, cls, [&] { return cat("month_day{", m, ",", d, "}"); });
                // weekday_last of any weekday encoding (no unspecified values there)
                c.subject = "month_weekday_last::ok()";
                ec::month_weekday_last const el{ec::month{m}, ec::weekday_last{ec::weekday{d}}};
                sc::month_weekday_last const sl{sc::month{m}, sc::weekday_last{sc::weekday{d}}};
                c.check(
                    c.subject, V{unsigned(el.month()), el.weekday_last().weekday().c_encoding(), el.ok(), el.weekday_last().ok()},
                    V{unsigned(sl.month()), sl.weekday_last().weekday().c_encoding(), sl.ok(), sl.weekday_last().ok()},
                    [&] { return cat(m >= 1 && m <= 12 ? "month_ok" : "month_not_ok", d <= 7 ? "" : "+weekday_not_ok"); },
                    [&] { return cat("month_weekday_last{", m, ",weekday{", d, "}[last]}"); });
            }
            d         = 1;
            c.subject = "month_day_last::ok()";
            ec::month_day_last const e{ec::month{m}};
            sc::month_day_last const s{sc::month{m}};
            c.check(
                c.subject, V{unsigned(e.month()), e.ok()}, V{unsigned(s.month()), s.ok()}, cls, [&] { return cat("month_day_last{", m, "}"); });
            for (d = 0; d <= 7; ++d) {
                for (k = 0; k <= 7; ++k) {
                    c.subject = "month_weekday::ok()";
                    ec::month_weekday const ew{ec::month{m}, mk_wdi<E>(d, k)};
                    sc::month_weekday const sw{sc::month{m}, mk_wdi<S>(d, k)};
                    c.check(
                        c.subject, V{unsigned(ew.month()), ew.weekday_indexed().weekday().c_encoding(), ew.weekday_indexed().index(), ew.ok(), ew.weekday_indexed().ok()},
                        V{unsigned(sw.month()), sw.weekday_indexed().weekday().c_encoding(), sw.weekday_indexed().index(), sw.ok(), sw.weekday_indexed().ok()},
                        [&] { return cat(m >= 1 && m <= 12 ? "month_ok" : "month_not_ok", (k >= 1 && k <= 5) ? "" : "+index_not_ok"); },
                        [&] { return cat("month_weekday{", m, ",weekday{", d, "}[", k, "]}"); });
                }
            }
        });
        if (t != mc::Trap::none) { c.trapped(t, "general", cat("m=", m, " d=", d, " k=", k)); }
    }
    r.sample("month_day 256x256, month_weekday_last 256x256 weekday encodings, month_day_last 256, month_weekday 256x8x8");
    r.count("evaluations", c.evals);
    r.count("distinct_nontrivial", 242ULL * 256 + 14ULL * 223 /* month > 13 or day > 32 */);
}

// ---------------------------------------------------------------------------------------------
// boundary table of day numbers (inputs only: built with std::chrono in a constant expression)
// ---------------------------------------------------------------------------------------------

constexpr int civil(int y, unsigned m, unsigned d) { return int(sc::sys_days{sc::year{y} / sc::month{m} / sc::day{d}}.time_since_epoch().count()); }

constexpr bool is_leap_year(int y) { return y % 4 == 0 && (y % 100 != 0 || y % 400 == 0); }

template <typename Push>
constexpr void boundary_days_gen(Push push)
{
    // both sides of every 400-year era boundary of the algorithm (March 1st of the years 400 k)
    for (long long e = -84; e <= 84; ++e) {
        for (long long o = -1; o <= 1; ++o) { push(-719468LL + e * 146097LL + o); }
    }
    // the epoch and its neighbourhood, the ends of the range
    for (long long o = -8; o <= 8; ++o) { push(o); }
    for (long long o = 0; o <= 3; ++o) {
        push(kFirstDay + o);
        push(kLastDay - o);
    }
    // year ends, (would-be) leap days of century years +-1 and of the years at the limits
    constexpr int edge[] = {-32767, -32766, -32765, -32764, -32401, -32400, -32399, -32001, -32000, -31999, 31999, 32000, 32001, 32399, 32400, 32401, 32764, 32765, 32766, 32767, 1968, 1969,
        1970, 1971, 1972, 2023, 2024};
    auto year_dates = [&](int y) {
        push(civil(y, 1, 1));
        push(civil(y, 2, 28));
        if (is_leap_year(y)) { push(civil(y, 2, 29)); }
        push(civil(y, 3, 1));
        push(civil(y, 12, 31));
    };
    for (int y : edge) { year_dates(y); }
    for (int cy = -2400; cy <= 2400; cy += 100) {
        for (int o = -1; o <= 1; ++o) { year_dates(cy + o); }
    }
}

consteval std::size_t boundary_days_count()
{
    std::size_t n = 0;
    boundary_days_gen([&](long long v) {
        if (v >= kFirstDay && v <= kLastDay) { ++n; }
    });
    return n;
}

consteval auto boundary_days_sorted()
{
    std::array<int, boundary_days_count()> a{};
    std::size_t n = 0;
    boundary_days_gen([&](long long v) {
        if (v >= kFirstDay && v <= kLastDay) { a[n++] = int(v); }
    });
    std::sort(a.begin(), a.end());
    return a;
}

consteval std::size_t boundary_days_unique_count()
{
    auto a = boundary_days_sorted();
    return std::size_t(std::unique(a.begin(), a.end()) - a.begin());
}

consteval auto boundary_days()
{
    auto a          = boundary_days_sorted();
    auto const last = std::unique(a.begin(), a.end());
    (void)last;
    std::array<int, boundary_days_unique_count()> b{};
    for (std::size_t i = 0; i < b.size(); ++i) { b[i] = a[i]; }
    return b;
}

inline constexpr auto kBoundary = boundary_days();

/// indices into kBoundary, smallest |day number| first (the first witness of a class is the simplest one)
std::vector<std::size_t> boundary_order()
{
    std::vector<std::size_t> o(kBoundary.size());
    for (std::size_t i = 0; i < o.size(); ++i) { o[i] = i; }
    std::stable_sort(o.begin(), o.end(), [](std::size_t a, std::size_t b) { return std::abs((long long)kBoundary[a]) < std::abs((long long)kBoundary[b]); });
    return o;
}

std::string n_cls(long long n)
{
    sc::year_month_day const s{sc::sys_days{sc::days{n}}};
    Walker w;
    w.y = int(s.year());
    w.m = unsigned(s.month());
    w.d = unsigned(s.day());
    w.n = n;
    std::string c = w.y < 0 ? "year_neg" : (n < 0 ? "pre_epoch" : "post_epoch");
    if (w.m == 2 && w.d == 29) {
        c += "+leap_day";
    } else if (w.d == Walker::mlen(w.y, w.m)) {
        c += "+month_end";
    } else if (w.d == 1) {
        c += "+month_start";
    }
    return c;
}

// ---------------------------------------------------------------------------------------------
// constant evaluation
// ---------------------------------------------------------------------------------------------

struct Row {
    int f[24]{};
    int n{0};
    constexpr Row& add(long long x)
    {
        f[n++] = int(x);
        return *this;
    }
};

char const* const kDayRowSubject[] = {"year_month_day(sys_days)", "year_month_day(sys_days)", "year_month_day(sys_days)", "year_month_day::ok()", "year_month_day::operator sys_days",
    "year_month_day::operator local_days", "year_month_day(local_days)", "year_month_day(local_days)", "year_month_day(local_days)", "weekday(sys_days)", "weekday(sys_days)", "weekday(sys_days)",
    "weekday(local_days)", "year::is_leap()", "year_month_day_last::day()", "year_month_day_last::ok()", "year_month_day(year_month_day_last)", "year_month_weekday::ok()",
    "year_month_weekday::ok()", "year_month_day::ok()"};

template <typename L>
constexpr Row day_row(int n)
{
    Row r;
    typename L::sys_days const sd{typename L::days{n}};
    typename L::local_days const ld{typename L::days{n}};
    typename L::year_month_day const a{sd};
    r.add(int(a.year())).add(unsigned(a.month())).add(unsigned(a.day())).add(a.ok());
    r.add(typename L::sys_days{a}.time_since_epoch().count());
    r.add(typename L::local_days(a).time_since_epoch().count());
    typename L::year_month_day const b{ld};
    r.add(int(b.year())).add(unsigned(b.month())).add(unsigned(b.day()));
    typename L::weekday const w{sd};
    r.add(w.c_encoding()).add(w.iso_encoding()).add(w.ok());
    typename L::weekday const wl{ld};
    r.add(wl.c_encoding());
    r.add(a.year().is_leap());
    typename L::year_month_day_last const l{a.year(), typename L::month_day_last{a.month()}};
    r.add(unsigned(l.day())).add(l.ok());
    typename L::year_month_day const fl{l};
    r.add(typename L::sys_days{fl}.time_since_epoch().count());
    unsigned const idx = (unsigned(a.day()) - 1) / 7 + 1;
    typename L::year_month_weekday const q{a.year(), a.month(), typename L::weekday_indexed{w, idx}};
    r.add(q.ok());
    // the fifth such weekday exists iff the day three (idx == 2: and so on) weeks ... simply: ask both libraries
    typename L::year_month_weekday const q5{a.year(), a.month(), typename L::weekday_indexed{w, 5}};
    r.add(q5.ok());
    typename L::year_month_day const nx{a.year(), a.month(), a.day() + typename L::days{1}};
    r.add(nx.ok());
    return r;
}

template <std::size_t N>
consteval auto day_rows(std::array<int, N> const& ns)
{
    std::array<Row, N> out{};
    for (std::size_t i = 0; i < N; ++i) { out[i] = day_row<E>(ns[i]); }
    return out;
}

inline constexpr auto kDayRows = day_rows(kBoundary);

void job_consteval_days(mc::Reporter& r)
{
    Ctx c(r);
    static_assert(sizeof(kDayRowSubject) / sizeof(kDayRowSubject[0]) == 20);
    std::size_t i = 0;
    int k         = 0;
    for (std::size_t oi : boundary_order()) {
        i               = oi;
        int volatile vn = kBoundary[i];
        int const n     = vn; // run-time value: nothing below can be folded
        Row rt{}, st{};
        mc::Trap const t = mc::guarded([&] {
            rt = day_row<E>(n);
            st = day_row<S>(n);
        });
        if (t != mc::Trap::none) {
            c.subject = "year_month_day(sys_days)";
            c.trapped(t, n_cls(n), cat("sys_days{", n, "}"));
            continue;
        }
        Row const& ce = kDayRows[i];
        for (k = 0; k < st.n; ++k) {
            c.check(
                kDayRowSubject[k], V{ce.f[k]}, V{st.f[k]}, [&] { return "constant_evaluation+" + n_cls(n); },
                [&] { return cat("constant expression with sys_days{", n, "} (table field ", k, ")"); });
            c.check(
                kDayRowSubject[k], V{rt.f[k]}, V{st.f[k]}, [&] { return "boundary_table+" + n_cls(n); }, [&] { return cat("sys_days{", n, "} (table field ", k, ")"); });
        }
        r.outcome(mc::fnv1a(ce.f, sizeof(int) * std::size_t(ce.n)));
    }
    r.sample(cat(kBoundary.size(), " boundary days (both sides of every 400-year era boundary, epoch +-8, range ends, year ends / Feb 28 / Feb 29 / Mar 1 of century years +-1 and of the limit "
                                  "years), first ",
        kBoundary.front(), ", last ", kBoundary.back(), ": 20 observations each, compile time vs run time vs std"));
    r.count("evaluations", c.evals);
    r.count("distinct_nontrivial", kBoundary.size());
}

// arithmetic in a constant expression
constexpr int kCeYears[] = {1970, 0, -1, 2000, 32760, -32760};
constexpr int kCeSpan    = 25;

char const* const kArithRowSubject[] = {"year_month::operator+(x,months)", "year_month::operator+(x,months)", "year_month::operator+(months,x)", "year_month::operator+(months,x)",
    "year_month::operator-(x,months)", "year_month::operator-(x,months)", "year_month::operator+=(months)", "year_month::operator+=(months)", "year_month::operator-=(months)",
    "year_month::operator-=(months)", "month::operator+(x,d)", "month::operator-(x,d)", "month::operator+=", "weekday::operator+(x,d)", "weekday::operator-(x,d)", "weekday::operator-=",
    "year_month_day::operator+(x,months)", "year_month_day::operator+(x,months)", "year_month_day::operator+(x,months)", "year_month_day::operator+(x,months)",
    "year_month_day_last::operator-(x,months)", "year_month_day_last::operator-(x,months)", "year_month_day_last::operator-(x,months)"};

template <typename L>
constexpr Row arith_row(int y, unsigned m, int k)
{
    Row r;
    typename L::year_month const x{typename L::year{y}, typename L::month{m}};
    typename L::months const M{k};
    auto const a = x + M;
    auto const b = M + x;
    auto const c = x - M;
    auto d       = x;
    d += M;
    auto e = x;
    e -= M;
    for (auto const& v : {a, b, c, d, e}) { r.add(int(v.year())).add(unsigned(v.month())); }
    r.add(unsigned(typename L::month{m} + M)).add(unsigned(typename L::month{m} - M));
    auto mm = typename L::month{m};
    mm += M;
    r.add(unsigned(mm));
    typename L::weekday const w{m % 7};
    typename L::days const D{k};
    r.add((w + D).c_encoding()).add((w - D).c_encoding());
    auto ww = w;
    ww -= D;
    r.add(ww.c_encoding());
    typename L::year_month_day const ymd{typename L::year{y}, typename L::month{m}, typename L::day{31}};
    auto const s = ymd + M;
    r.add(int(s.year())).add(unsigned(s.month())).add(unsigned(s.day())).add(s.ok());
    typename L::year_month_day_last const ymdl{typename L::year{y}, typename L::month_day_last{typename L::month{m}}};
    auto const u = ymdl - M;
    r.add(int(u.year())).add(unsigned(u.month())).add(unsigned(u.day()));
    return r;
}

consteval auto arith_rows()
{
    constexpr std::size_t ny = sizeof(kCeYears) / sizeof(kCeYears[0]);
    std::array<Row, ny * 12 * (2 * kCeSpan + 1)> out{};
    std::size_t n = 0;
    for (int y : kCeYears) {
        for (unsigned m = 1; m <= 12; ++m) {
            for (int k = -kCeSpan; k <= kCeSpan; ++k) { out[n++] = arith_row<E>(y, m, k); }
        }
    }
    return out;
}

inline constexpr auto kArithRows = arith_rows();

void job_consteval_arith(mc::Reporter& r)
{
    Ctx c(r);
    static_assert(sizeof(kArithRowSubject) / sizeof(kArithRowSubject[0]) == 23);
    std::size_t n = 0;
    std::uint64_t nontrivial = 0;
    for (int yy : kCeYears) {
        for (unsigned mm = 1; mm <= 12; ++mm) {
            for (int kk = -kCeSpan; kk <= kCeSpan; ++kk, ++n) {
                int volatile vy      = yy;
                unsigned volatile vm = mm;
                int volatile vk      = kk;
                int const y = vy, k = vk;
                unsigned const m = vm;
                Row rt{}, st{};
                mc::Trap const t = mc::guarded([&] {
                    rt = arith_row<E>(y, m, k);
                    st = arith_row<S>(y, m, k);
                });
                auto kase = [&] { return cat("x = ", y, "/", m, " (day 31, /last, month{", m, "}, weekday{", m % 7, "}), delta ", k); };
                auto cls  = [&] {
                    long long const s = (long long)m - 1 + k, s2 = (long long)m - 1 - k;
                    return std::string((s < 0 || s2 < 0) ? "month_borrow" : ((s > 11 || s2 > 11) ? "month_carry" : "general"));
                };
                if (t != mc::Trap::none) {
                    c.subject = "year_month::operator+(x,months)";
                    c.trapped(t, cls(), kase());
                    continue;
                }
                Row const& ce = kArithRows[n];
                for (int f = 0; f < st.n; ++f) {
                    c.check(
                        kArithRowSubject[f], V{ce.f[f]}, V{st.f[f]}, [&] { return "constant_evaluation+" + cls(); }, [&] { return cat("constant expression: ", kase(), " (row field ", f, ")"); });
                    c.check(
                        kArithRowSubject[f], V{rt.f[f]}, V{st.f[f]}, [&] { return cls(); }, [&] { return cat(kase(), " (row field ", f, ")"); });
                }
                if ((long long)m - 1 + k < 0 || (long long)m - 1 + k > 11) { ++nontrivial; }
                r.outcome(mc::fnv1a(ce.f, sizeof(int) * std::size_t(ce.n)));
            }
        }
    }
    r.sample(cat("years {1970,0,-1,2000,32760,-32760} x 12 months x deltas [-", kCeSpan, ",", kCeSpan, "]: 23 observations each (year_month 5 forms, month, weekday, year_month_day{31}, "
                                                                                                  "year_month_day_last), compile time vs run time vs std"));
    r.count("evaluations", c.evals);
    r.count("distinct_nontrivial", nontrivial);
}

// ---------------------------------------------------------------------------------------------
// other clocks / units in front of the calendar
// ---------------------------------------------------------------------------------------------

struct EL {
    template <typename D>
    using sys_time = ec::sys_time<D>;
    template <typename D>
    using local_time = ec::local_time<D>;
    using seconds    = ec::seconds;
    using minutes    = ec::minutes;
    using hours      = ec::hours;
    using days       = ec::days;
    using year_month_day = ec::year_month_day;
    using weekday        = ec::weekday;
    template <typename To, typename TP>
    static auto floor(TP const& t)
    {
        return ec::floor<To>(t);
    }
    template <typename To, typename TP>
    static auto ceil(TP const& t)
    {
        return ec::ceil<To>(t);
    }
    template <typename To, typename TP>
    static auto round(TP const& t)
    {
        return ec::round<To>(t);
    }
    template <typename To, typename TP>
    static auto cast(TP const& t)
    {
        return ec::time_point_cast<To>(t);
    }
};

struct SL {
    template <typename D>
    using sys_time = sc::sys_time<D>;
    template <typename D>
    using local_time = sc::local_time<D>;
    using seconds    = sc::seconds;
    using minutes    = sc::minutes;
    using hours      = sc::hours;
    using days       = sc::days;
    using year_month_day = sc::year_month_day;
    using weekday        = sc::weekday;
    template <typename To, typename TP>
    static auto floor(TP const& t)
    {
        return sc::floor<To>(t);
    }
    template <typename To, typename TP>
    static auto ceil(TP const& t)
    {
        return sc::ceil<To>(t);
    }
    template <typename To, typename TP>
    static auto round(TP const& t)
    {
        return sc::round<To>(t);
    }
    template <typename To, typename TP>
    static auto cast(TP const& t)
    {
        return sc::time_point_cast<To>(t);
    }
};

template <typename L, int Unit>
using unit_t = std::conditional_t<Unit == 0, typename L::seconds, std::conditional_t<Unit == 1, typename L::minutes, typename L::hours>>;

constexpr long long kPerDay[3] = {86400, 1440, 24};
char const* const kUnitName[3] = {"seconds", "minutes", "hours"};
char const* const kRoundOp[4]  = {"floor<days>", "ceil<days>", "round<days>", "time_point_cast<days>"};

template <typename L, int Unit, bool Local>
V chain(int op, long long count)
{
    using Src = unit_t<L, Unit>;
    using TP  = std::conditional_t<Local, typename L::template local_time<Src>, typename L::template sys_time<Src>>;
    using D   = typename L::days;
    TP const tp{Src{static_cast<typename Src::rep>(count)}};
    auto const dp = op == 0 ? L::template floor<D>(tp) : (op == 1 ? L::template ceil<D>(tp) : (op == 2 ? L::template round<D>(tp) : L::template cast<D>(tp)));
    typename L::year_month_day const x{dp};
    typename L::weekday const w{dp};
    return V{(long long)dp.time_since_epoch().count(), (long long)int(x.year()), (long long)unsigned(x.month()), (long long)unsigned(x.day()), x.ok(), (long long)w.c_encoding()};
}

struct RoundCtx {
    mc::Reporter& r;
    Ctx& c;
    std::string subjects[3][2][4];
    std::uint64_t nontrivial{0};
    RoundCtx(mc::Reporter& rr, Ctx& cc) : r(rr), c(cc)
    {
        for (int u = 0; u < 3; ++u) {
            for (int l = 0; l < 2; ++l) {
                for (int o = 0; o < 4; ++o) {
                    subjects[u][l][o] = cat("year_month_day/weekday(", kRoundOp[o], "(", (l ? "local_time<" : "sys_time<"), kUnitName[u], ">))");
                }
            }
        }
    }

    template <int Unit>
    void one(long long day, long long off)
    {
        long long const per   = kPerDay[Unit];
        long long const count = day * per + off;
        // the calendar result must stay inside the year range; the count must fit tetl's rep of the unit (and of the
        // intermediate (day + 1) * per that round<days> forms in the common type)
        long long const fl = floor_div(count, per);
        if (fl - 1 < kFirstDay || fl + 2 > kLastDay) { return; }
        using erep = typename unit_t<EL, Unit>::rep;
        if (sizeof(erep) < 8 && (count > INT_MAX - 4 * per || count < INT_MIN + 4 * per)) { return; }
        long long const rem = count - fl * per;
        auto cls            = [&] { return cat(count < 0 ? "negative_time+" : "", rem == 0 ? "midnight" : (2 * rem == per ? "noon_tie" : (2 * rem < per ? "morning" : "afternoon"))); };
        for (int op = 0; op < 4; ++op) {
            c.subject = subjects[Unit][0][op].c_str();
            c.check(
                c.subject, chain<EL, Unit, false>(op, count), chain<SL, Unit, false>(op, count), cls,
                [&] { return cat(kRoundOp[op], "(sys_time<", kUnitName[Unit], ">{", count, "}) = day ", day, " + ", off, " ", kUnitName[Unit]); });
            c.subject = subjects[Unit][1][op].c_str();
            c.check(
                c.subject, chain<EL, Unit, true>(op, count), chain<SL, Unit, true>(op, count), cls,
                [&] { return cat(kRoundOp[op], "(local_time<", kUnitName[Unit], ">{", count, "}) = day ", day, " + ", off, " ", kUnitName[Unit]); });
        }
        if (rem != 0) { ++nontrivial; }
    }
};

void job_rounding(mc::Reporter& r)
{
    Ctx c(r);
    RoundCtx rc(r, c);
    long long day = 0, off = 0;
    // quick and thorough: every boundary day x offsets around midnight and noon of the day before / the day / the day after
    for (std::size_t oi : boundary_order()) {
        day              = kBoundary[oi];
        mc::Trap const t = mc::guarded([&] {
            for (long long base : {-86400LL, -43200LL, 0LL, 43200LL, 86400LL}) {
                for (long long o = -1; o <= 1; ++o) {
                    off = base + o;
                    rc.one<0>(day, off);
                    off = base / 60 + o;
                    rc.one<1>(day, off);
                    off = base / 3600 + o;
                    rc.one<2>(day, off);
                }
            }
        });
        if (t != mc::Trap::none) { c.trapped(t, "general", cat("day ", day, " offset ", off)); }
    }
    r.sample(cat(kBoundary.size(), " boundary days x {-1d, -12h, 0, +12h, +1d} +- 1 unit x {seconds, minutes (int32 in tetl: days whose minute count fits), hours} x 4 casts x {sys_time, local_time}"));
    if (r.thorough()) {
        // every second / minute / hour of three consecutive days around a few anchor days
        std::vector<long long> anchors{0, -1, 1, -719468, -719468 - 146097, -719468 + 146097, 11016, 19782, kFirstDay + 2, kLastDay - 2, -2180438, -12687429 + 366, 10957 /* 2000-01-01 */,
            11017 /* 2000-03-01 */, -25567 /* 1900-01-01 */, 47541 /* 2100-03-01 */};
        for (long long a : anchors) {
            day = a;
            for (long long h = -24; h < 48; ++h) {
                mc::Trap const t = mc::guarded([&] {
                    for (long long s = 0; s < 3600; ++s) {
                        off = h * 3600 + s;
                        rc.one<0>(day, off);
                    }
                    for (long long mi = 0; mi < 60; ++mi) {
                        off = h * 60 + mi;
                        rc.one<1>(day, off);
                    }
                    off = h;
                    rc.one<2>(day, off);
                });
                if (t != mc::Trap::none) { c.trapped(t, "general", cat("day ", day, " offset ", off)); }
            }
            if (r.deadline_passed()) {
                r.not_exhaustive("deadline");
                break;
            }
        }
        r.sample(cat(anchors.size(), " anchor days x every second / minute / hour in [-1d, +2d)"));
    }
    r.count("evaluations", c.evals);
    r.count("distinct_nontrivial", rc.nontrivial);
}

/// weekday(sys_days) has no precondition: every value of the day-count rep is a valid argument.  The values beyond the
/// years +-32767 are outside C11's statement (no date exists for them); what is checked here belongs to C02: the call
/// must not overflow and, with defined arithmetic, gives the weekday std::chrono gives.
void job_weekday_extremes(mc::Reporter& r)
{
    Ctx c(r);
    std::vector<long long> ns;
    for (long long o = 0; o <= 15; ++o) {
        ns.push_back((long long)INT_MAX - o);
        ns.push_back((long long)INT_MIN + o);
        ns.push_back((long long)kLastDay + 1 + o);
        ns.push_back((long long)kFirstDay - 1 - o);
    }
    for (long long p = 24; p <= 30; ++p) {
        for (long long o = -1; o <= 1; ++o) {
            ns.push_back((1LL << p) + o);
            ns.push_back(-(1LL << p) + o);
        }
    }
    std::uint64_t evals = 0;
    for (long long n : ns) {
        for (int local = 0; local < 2; ++local) {
            char const* subject = local ? "weekday(local_days)" : "weekday(sys_days)";
            std::string const klass = n > kLastDay ? (n > INT_MAX - 16 ? "day_count_near_int32_max" : "beyond_year_32767") : (n < INT_MIN + 16 ? "day_count_near_int32_min" : "before_year_-32767");
            std::string const kase  = cat("weekday{", local ? "local_days" : "sys_days", "{days{", n, "}}}");
            auto const before = mc::san_hits();
            unsigned e = 0, s = 0;
            bool eok         = false;
            mc::Trap const t = mc::guarded([&] {
                int volatile vn = int(n);
                if (local) {
                    ec::weekday const w{ec::local_days{ec::days{vn}}};
                    e   = w.c_encoding();
                    eok = w.ok();
                    s   = sc::weekday{sc::local_days{sc::days{n}}}.c_encoding();
                } else {
                    ec::weekday const w{ec::sys_days{ec::days{vn}}};
                    e   = w.c_encoding();
                    eok = w.ok();
                    s   = sc::weekday{sc::sys_days{sc::days{n}}}.c_encoding();
                }
            });
            ++evals;
            if (t != mc::Trap::none) {
                c.subject = subject;
                c.trapped(t, klass, kase);
                continue;
            }
            if (mc::san_hits() != before) {
                r.violation("C02", subject, klass, kase, "UBSan report: signed overflow while reducing the day count modulo 7 (see job log)");
            } else if (e != s || !eok) {
                r.violation("C02", subject, klass, kase,
                    cat("tetl=", e, " std=", s, ": no precondition on the day count, the result differs from std::chrono (int arithmetic on the day count overflowed)"));
            }
            r.outcome(mc::hash_mix(e, s));
        }
    }
    r.sample(cat(ns.size(), " day counts: 16 at each end of int32, 16 just outside each end of the year range, +-2^24..2^30 +-1; sys_days and local_days"));
    r.count("evaluations", evals);
    r.count("distinct_nontrivial", evals);
}

} // namespace

int main(int argc, char** argv)
{
    mc::Main m(argc, argv);
    std::vector<std::string> const both{"quick", "thorough"};
    m.job("cmp/units", both, job_cmp_units);
    m.job("cmp/composites", both, job_cmp_composites);
    for (int k = 0; k < 8; ++k) {
        m.job(cat("okwide/", k), both, [=](mc::Reporter& r) { job_okwide(r, k, 8); });
    }
    m.job("okwide/yearless", both, job_okwide_yearless);
    m.job("consteval/days", both, job_consteval_days);
    m.job("consteval/arith", both, job_consteval_arith);
    m.job("conv/rounding", both, job_rounding);
    m.job("conv/weekday-extremes", both, job_weekday_extremes);
    return m.run();
}
