// C12: etl::chrono duration / time_point arithmetic, comparison, conversion and the rounding
// casts (duration_cast, floor, ceil, round, abs) against std::chrono and exact __int128
// rational arithmetic.  See c12_common.hpp for the machinery and props/C12.json for the
// bounds.  One translation unit per From period (-DMC_PART=<index 0..9>); it instantiates
// the 10 ordered pairs (From, To) for every rep configuration.
#include "c12_common.hpp"

#ifndef MC_PART
    #define MC_PART 0
#endif

namespace {

using namespace c12;

constexpr int FI = MC_PART;

template <typename FR, typename TR>
std::vector<PairEntry> pairs_from()
{
    return {make_pair_entry<FR, TR, FI, 0>(), make_pair_entry<FR, TR, FI, 1>(), make_pair_entry<FR, TR, FI, 2>(),
        make_pair_entry<FR, TR, FI, 3>(), make_pair_entry<FR, TR, FI, 4>(), make_pair_entry<FR, TR, FI, 5>(),
        make_pair_entry<FR, TR, FI, 6>(), make_pair_entry<FR, TR, FI, 7>(), make_pair_entry<FR, TR, FI, 8>(),
        make_pair_entry<FR, TR, FI, 9>()};
}

// first operand range / second operand range.  The sanitizer flavour is 5-10x slower per call,
// so its thorough tier uses [-500,500] (props/C12.json states this).
Ranges ranges(mc::Reporter const& r)
{
#if defined(MC_FLAVOUR_SAN)
    return r.thorough() ? Ranges{500, 40, 0} : Ranges{200, 3, 0};
#else
    return r.thorough() ? Ranges{2000, 40, 0} : Ranges{200, 3, 0};
#endif
}

template <typename FR, typename TR>
void pair_job(mc::Reporter& r)
{
    auto const rg = ranges(r);
    for (auto const& e : pairs_from<FR, TR>()) {
        if (r.deadline_passed()) {
            r.not_exhaustive("deadline");
            return;
        }
        run_pair(r, e, rg);
    }
}

template <typename R>
void self_job(mc::Reporter& r)
{
    auto const rg = ranges(r);
    run_self(r, make_self_entry<R, FI>(), rg);
}

} // namespace

int main(int argc, char** argv)
{
    mc::Main m(argc, argv);
    std::string const from = period_info(FI).name;
    std::vector<std::string> const both{"quick", "thorough"};
    m.job("pair/i64,i64/from=" + from, both, pair_job<i64, i64>);
    m.job("pair/i32,i32/from=" + from, both, pair_job<i32, i32>);
    m.job("pair/i32,i64/from=" + from, both, pair_job<i32, i64>);
    m.job("pair/i64,i32/from=" + from, both, pair_job<i64, i32>);
    m.job("pair/double,double/from=" + from, both, pair_job<double, double>);
    m.job("pair/i64,double/from=" + from, both, pair_job<i64, double>);
    m.job("pair/double,i64/from=" + from, both, pair_job<double, i64>);
    m.job("self/i64/" + from, both, self_job<i64>);
    m.job("self/i32/" + from, both, self_job<i32>);
    m.job("self/double/" + from, both, self_job<double>);
    return m.run();
}
