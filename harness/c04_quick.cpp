// C04 round 2: the quick-tier sets (part 0) of the four widening harnesses in ONE translation unit, so that the quick
// tier pays for one extra compile only (plus c04_constexpr.cpp).  The sources are complete harnesses of their own;
// compiled alone with -DMC_PART=k they provide the thorough-tier sets.
//   c04_alias.cpp    aliasing arguments            c04_traits.cpp   wide code units, custom Traits
//   c04_cycles.cpp   long histories at the layout  c04_interop.cpp  swap, to_string <-> stoi (quick); other capacities,
//                    and size-type boundaries                        operator+ temporaries, iterators (thorough)
#define C04_COMBINED 1
#include "c04_alias.cpp"
#include "c04_cycles.cpp"
#include "c04_interop.cpp"
#include "c04_traits.cpp"

int main(int argc, char** argv)
{
    mc::Main m(argc, argv);
    c04_alias::register_jobs<0>(m);
    c04_traits::register_jobs<0>(m);
    c04_cycles::register_jobs<0>(m);
    c04_interop::register_jobs<0>(m);
    return m.run();
}
