// C19, extents half: every extents type of rank 0..3 over the dimension alphabet {static 2,
// static 3, dynamic, static 1, static 0} (rank 4: {2,3,dynamic}), every assignment of 0..4
// (rank 4: 0..3) to the dynamic dimensions, built through every constructor form (default,
// copy, rank_dynamic() values, rank() values, as pack / etl::array / etl::span, two argument
// types) and through the converting constructor from every compatible extents type of the
// same rank.
// Oracle: the extent vector the arguments denote; extent(), static_extent(), rank(),
// rank_dynamic(), operator==, fwd_/rev_prod_of_extents (closed-form products).
// The object lives in an exact-size guarded block: a constructor that writes past its
// `_extents` member damages a canary (all flavours) or is an ASan report (san) -> C02.
// A second, compile-time probe constant-evaluates the same constructors: GCC's evaluator
// rejects an out-of-bounds write inside the object, which ASan cannot see.
//
// MC_PART selects the index type (1 int, 2 size_t, 3..8 the other fixed-width types,
// 9/10 rank 4 for int/size_t over {2,3,dynamic}); round 2: 11..15 = rank 4 over all five
// dimension kinds (625 types, 125 per part, int), 16/17 = rank 5-6 (12 patterns, int / size_t),
// 18..20 = rank 4 converting constructor over {2,3,dynamic} (81 targets x every compatible
// source = 2401 pairs, 27 targets per part).
//
// Layout of the code: everything that is instantiated per extents type is a tiny function
// (construct + read observers into plain arrays); loops, verification and text are compiled once.
#include "c19_common.hpp"

#include <new>

using namespace c19;

#ifndef MC_PART
    #define MC_PART 1
#endif

namespace {

#if MC_PART == 1 || MC_PART == 9 || (MC_PART >= 11 && MC_PART <= 16) || (MC_PART >= 18 && MC_PART <= 20)
using PartIndex = int;
#elif MC_PART == 2 || MC_PART == 10 || MC_PART == 17
using PartIndex = unsigned long;
#elif MC_PART == 3
using PartIndex = signed char;
#elif MC_PART == 4
using PartIndex = unsigned char;
#elif MC_PART == 5
using PartIndex = short;
#elif MC_PART == 6
using PartIndex = unsigned short;
#elif MC_PART == 7
using PartIndex = unsigned;
#elif MC_PART == 8
using PartIndex = long;
#endif
constexpr bool part_rank4 = (MC_PART == 9 || MC_PART == 10);

using A5 = alpha<2, 3, DC, 1, 0>;
using A3 = alpha<2, 3, DC>;
using A2 = alpha<2, DC>;

struct ExtObs {
    std::size_t rank{0}, rank_dynamic{0};
    std::size_t st[MAXR]{};
    ll ext[MAXR]{};
    ull fwd[MAXR + 1]{}, rev[MAXR]{};
    int eq_same{-1}, eq_other{-1}, eq_perturbed{-1};
};

template <typename E>
[[gnu::noinline]] void observe(E const& e, ll const* want, ExtObs& o)
{
    using I          = typename E::index_type;
    using J          = other_t<I>;
    constexpr auto R = E::rank();
    o.rank           = e.rank();
    o.rank_dynamic   = e.rank_dynamic();
    for (std::size_t r = 0; r < R; ++r) {
        o.st[r]  = E::static_extent(r);
        o.ext[r] = static_cast<ll>(e.extent(r));
        o.rev[r] = e.rev_prod_of_extents(r);
    }
    for (std::size_t i = 0; i <= R; ++i) { o.fwd[i] = e.fwd_prod_of_extents(i); }
    // operator== against all-dynamic extents holding the intended values (N == rank() ==
    // rank_dynamic(): the constructor path that simply copies)
    auto const same  = etl::dextents<I, R>(to_etl_array<I, R>(want));
    auto const other = etl::dextents<J, R>(to_etl_array<J, R>(want));
    o.eq_same        = (e == same) && (same == e);
    o.eq_other       = (e == other) && (other == e);
    if constexpr (R > 0) {
        ll w[R];
        for (std::size_t r = 0; r < R; ++r) { w[r] = want[r]; }
        w[R - 1] += 1;
        auto const pert = etl::dextents<I, R>(to_etl_array<I, R>(w));
        o.eq_perturbed  = (e == pert) || (pert == e);
    }
}

void verify(Ctx& c, ExtObs const& o, TypeInfo const& ti, std::vector<ll> const& want)
{
    std::size_t const R = ti.rank;
    c.eq("rank()", o.rank, R);
    c.eq("rank_dynamic()", o.rank_dynamic, ti.rank_dynamic);
    c.eq("static_extent(r) for all r", show_statics(std::vector<std::size_t>(o.st, o.st + R)), show_statics(ti.statics()));
    c.eq("extent(r) for all r", show(std::vector<ll>(o.ext, o.ext + R)), show(want));
    std::vector<ull> fwd, rev;
    for (std::size_t i = 0; i <= R; ++i) {
        ull p = 1;
        for (std::size_t k = 0; k < i; ++k) { p *= static_cast<ull>(want[k]); }
        fwd.push_back(p);
    }
    for (std::size_t i = 0; i < R; ++i) {
        ull p = 1;
        for (std::size_t k = i + 1; k < R; ++k) { p *= static_cast<ull>(want[k]); }
        rev.push_back(p);
    }
    c.eq("fwd_prod_of_extents(0..rank)", mc::show_seq(std::vector<ull>(o.fwd, o.fwd + R + 1)), mc::show_seq(fwd));
    c.eq("rev_prod_of_extents(0..rank-1)", mc::show_seq(std::vector<ull>(o.rev, o.rev + R)), mc::show_seq(rev));
    c.eq("operator== with dextents of the same values", o.eq_same, 1);
    c.eq("operator== with dextents<other index type> of the same values", o.eq_other, 1);
    if (R > 0) { c.eq("operator== with dextents differing in the last extent", o.eq_perturbed, 0); }
    c.r.outcome(mc::hash_str(cat(static_list(ti.statics()), show(std::vector<ll>(o.ext, o.ext + R)))));
}

/// make-and-observe step of one constructor form (the only per-type code)
using MakeFn = void (*)(void* where, void const* arg, ll const* want, ExtObs& o);

void build(Ctx& c, TypeInfo const& ti, std::vector<ll> const& want, MakeFn fn, void const* arg)
{
    mc::GuardedBlock<unsigned char> blk(ti.size, 0xA5);
    ExtObs o;
    auto const t = mc::guarded([&] { fn(static_cast<void*>(blk.data()), arg, want.data(), o); });
    if (t == mc::Trap::none) {
        verify(c, o, ti, want);
    } else {
        c.trap(t);
    }
    if (!blk.intact()) { c.c02("the constructor wrote outside the extents object (canary after the object damaged)"); }
    c.san_check();
}

template <typename E, typename T, std::size_t... Is>
E* place_pack(void* p, ll const* v, std::index_sequence<Is...> /*s*/)
{
    return new (p) E(static_cast<T>(v[Is])...);
}
template <typename E, typename T, std::size_t N>
void mk_pack(void* p, void const* a, ll const* w, ExtObs& o)
{
    observe(*place_pack<E, T>(p, static_cast<ll const*>(a), std::make_index_sequence<N>{}), w, o);
}
template <typename E, typename T, std::size_t N>
void mk_array(void* p, void const* a, ll const* w, ExtObs& o)
{
    auto const arr = to_etl_array<T, N>(static_cast<ll const*>(a));
    observe(*new (p) E(arr), w, o);
}
template <typename E, typename T, std::size_t N>
void mk_span(void* p, void const* a, ll const* w, ExtObs& o)
{
    etl::span<T, N> const sp{static_cast<T*>(const_cast<void*>(a)), N}; // a = exact-size block of N values of type T
    observe(*new (p) E(sp), w, o);
}
template <typename E>
void mk_default(void* p, void const* /*a*/, ll const* w, ExtObs& o)
{
    observe(*new (p) E(), w, o);
}
template <typename E>
void mk_copy(void* p, void const* a, ll const* w, ExtObs& o)
{
    E const src(to_etl_array<typename E::index_type, E::rank_dynamic()>(static_cast<ll const*>(a)));
    observe(*new (p) E(src), w, o);
}
template <typename To, typename From>
void mk_conv(void* p, void const* a, ll const* w, ExtObs& o)
{
    From const from(to_etl_array<typename From::index_type, From::rank_dynamic()>(static_cast<ll const*>(a)));
    observe(*new (p) To(from), w, o);
}

template <typename T>
void store_as(void* dst, std::size_t i, ll v)
{
    static_cast<T*>(dst)[i] = static_cast<T>(v);
}

/// the three forms (pack, array, span) for one argument type and one argument count
struct FormSet {
    char const* tname;
    std::size_t tsize;
    void (*store)(void*, std::size_t, ll);
    bool all_values; // N == rank() (otherwise N == rank_dynamic())
    MakeFn pack, arr, spn;
};
template <typename E, typename T, std::size_t N>
constexpr FormSet form_set()
{
    return {iname<T>(), sizeof(T), &store_as<T>, N != E::rank_dynamic(), &mk_pack<E, T, N>, &mk_array<E, T, N>, &mk_span<E, T, N>};
}
struct ExtFns {
    MakeFn dflt, copy;
    FormSet sets[4];
    std::size_t nsets;
};
template <typename E>
constexpr ExtFns make_fns()
{
    using I           = typename E::index_type;
    using J           = other_t<I>;
    constexpr auto R  = E::rank();
    constexpr auto Dn = E::rank_dynamic();
    if constexpr (R != Dn) {
        return {&mk_default<E>, &mk_copy<E>, {form_set<E, I, Dn>(), form_set<E, J, Dn>(), form_set<E, I, R>(), form_set<E, J, R>()}, 4};
    } else {
        return {&mk_default<E>, &mk_copy<E>, {form_set<E, I, Dn>(), form_set<E, J, Dn>(), {}, {}}, 2};
    }
}
template <typename E>
inline constexpr ExtFns ext_fns = make_fns<E>();

void run_forms(Ctx& c, TypeInfo const& ti, FormSet const& f, std::vector<ll> const& v, std::vector<ll> const& want)
{
    std::string const en  = ti.name();
    std::string const cls = cat(f.all_values ? "n_eq_rank" : "n_eq_rank_dynamic", "+", pattern_class(ti.statics()));
    c.at("extents::extents(IndexTypes...)", cls, cat(en, "(", f.tname, " ", show(v), ")"));
    build(c, ti, want, f.pack, v.data());
    c.at("extents::extents(array<T,N>)", cls, cat(en, "(etl::array<", f.tname, ",", v.size(), ">", show(v), ")"));
    build(c, ti, want, f.arr, v.data());
    c.at("extents::extents(span<T,N>)", cls, cat(en, "(etl::span<", f.tname, ",", v.size(), ">", show(v), ")"));
    {
        mc::GuardedBlock<unsigned char> src(v.size() * f.tsize);
        for (std::size_t i = 0; i < v.size(); ++i) { f.store(src.data(), i, v[i]); }
        build(c, ti, want, f.spn, src.data());
        if (!src.intact()) { c.c02("wrote outside the source span"); }
    }
    c.nontrivial += 3 * (ti.rank_dynamic > 0);
}

void run_extents_case(Ctx& c, TypeInfo const& ti, ExtFns const& fns, ll maxDyn)
{
    auto const st        = ti.statics();
    std::string const en = ti.name();
    {
        std::vector<ll> const zero(ti.rank_dynamic, 0); // default constructor: dynamic extents are zero
        c.at("extents::extents()", pattern_class(st), cat(en, "()"));
        build(c, ti, full_extents(st, zero), fns.dflt, nullptr);
    }
    std::vector<ll> dv(ti.rank_dynamic, 0);
    do {
        auto const want = full_extents(st, dv);
        for (std::size_t k = 0; k < fns.nsets; ++k) { run_forms(c, ti, fns.sets[k], fns.sets[k].all_values ? want : dv, want); }
        c.at("extents::extents(extents const&)", pattern_class(st), cat(en, " copy of ", en, show(dv)));
        build(c, ti, want, fns.copy, dv.data());
        if (c.r.wants_sample()) { c.r.sample(cat(en, " with dynamic extents ", show(dv), " -> ", show(want), ": all constructor forms")); }
    } while (next_values(dv, maxDyn));
    c.r.count("extents_types");
}

// ---------------------------------------------------------------------------------------
// converting constructor
// ---------------------------------------------------------------------------------------
void run_conv(Ctx& c, TypeInfo const& to, TypeInfo const& from, MakeFn fn, ll maxDyn)
{
    auto const stTo   = to.statics();
    auto const stFrom = from.statics();
    std::string const tn = to.name();
    std::string const fn_ = from.name();
    bool widen = false, narrow = false;
    for (std::size_t k = 0; k < to.rank; ++k) {
        widen  = widen || (stTo[k] == dyn && stFrom[k] != dyn);
        narrow = narrow || (stTo[k] != dyn && stFrom[k] == dyn);
    }
    std::string const cls = widen ? (narrow ? "static_to_dynamic+dynamic_to_static" : "static_to_dynamic")
                                  : (narrow ? "dynamic_to_static" : "same_pattern");
    std::vector<ll> dv(from.rank_dynamic, 0);
    do {
        auto const want = full_extents(stFrom, dv);
        bool valid      = true; // precondition: a dynamic source extent equals the target's static extent
        for (std::size_t k = 0; k < to.rank; ++k) { valid = valid && (stTo[k] == dyn || static_cast<ll>(stTo[k]) == want[k]); }
        if (!valid) { continue; }
        c.at("extents::extents(extents<OtherIndexType,OtherExtents...>)", cls, cat(tn, "(", fn_, show(dv), ")"));
        build(c, to, want, fn, dv.data());
        c.nontrivial += (to.rank_dynamic > 0);
    } while (next_values(dv, maxDyn));
    c.r.count("type_pairs");
}

template <typename A, std::size_t R>
constexpr bool compatible(std::size_t to, std::size_t from)
{
    for (std::size_t k = 0; k < R; ++k) {
        auto const a = pattern_code<A, R>(to, k);
        auto const b = pattern_code<A, R>(from, k);
        if (!(a == DC || b == DC || a == b)) { return false; }
    }
    return true;
}
template <typename A, std::size_t R, std::size_t NTo>
struct compat {
    static constexpr std::size_t total = ipow(A::n, R);
    static constexpr auto make()
    {
        std::array<std::size_t, total + 1> out{};
        std::size_t cnt = 0;
        for (std::size_t f = 0; f < total; ++f) {
            if (compatible<A, R>(NTo, f)) { out[cnt++] = f; }
        }
        out[total] = cnt;
        return out;
    }
    static constexpr auto list         = make();
    static constexpr std::size_t count = list[total];
};

template <typename To, typename From>
void conv_case(Ctx& c, ll maxDyn)
{
    run_conv(c, tinfo<To>, tinfo<From>, &mk_conv<To, From>, maxDyn);
}
template <typename I, typename A, std::size_t R, std::size_t NTo, std::size_t... Fs>
void conv_from_all(Ctx& c, ll maxDyn, std::index_sequence<Fs...> /*s*/)
{
    using To = pattern_t<I, A, R, NTo>;
    (conv_case<To, pattern_t<other_t<I>, A, R, compat<A, R, NTo>::list[Fs]>>(c, maxDyn), ...);
    conv_case<To, etl::dextents<I, R>>(c, maxDyn); // same index type, all-dynamic source
}
template <typename I, typename A, std::size_t R, std::size_t... Ns>
void conv_all(Ctx& c, ll maxDyn, std::index_sequence<Ns...> /*s*/)
{
    (conv_from_all<I, A, R, Ns>(c, maxDyn, std::make_index_sequence<compat<A, R, Ns>::count>{}), ...);
}
template <typename I, typename A, std::size_t R, std::size_t Lo, std::size_t... Ns>
void conv_some(Ctx& c, ll maxDyn, std::index_sequence<Ns...> /*s*/)
{
    (conv_from_all<I, A, R, Lo + Ns>(c, maxDyn, std::make_index_sequence<compat<A, R, Lo + Ns>::count>{}), ...);
}

/// the conversions every extents type takes part in whatever the alphabet: from and to the
/// all-dynamic type (both index types) and from the same pattern with the other index type
template <typename I, typename... Es>
struct same_pattern_other_index;
template <typename I, std::size_t... Es>
struct same_pattern_other_index<etl::extents<I, Es...>> {
    using type = etl::extents<other_t<I>, Es...>;
};
template <typename E>
void conv_star(Ctx& c, ll maxDyn)
{
    using I          = typename E::index_type;
    using J          = other_t<I>;
    constexpr auto R = E::rank();
    conv_case<E, etl::dextents<J, R>>(c, maxDyn);
    conv_case<E, etl::dextents<I, R>>(c, maxDyn);
    conv_case<etl::dextents<J, R>, E>(c, maxDyn);
    conv_case<etl::dextents<I, R>, E>(c, maxDyn);
    conv_case<E, typename same_pattern_other_index<E>::type>(c, maxDyn);
}

// ---------------------------------------------------------------------------------------
// constant-evaluation probe: is the construction a constant expression, and if so with which extents
// ---------------------------------------------------------------------------------------
template <typename F, int = (F{}(), 0)>
constexpr bool is_cx(F /*f*/)
{
    return true;
}
constexpr bool is_cx(...) { return false; }

struct CxResult {
    bool evaluated;
    ll got[MAXR];
    ll want[MAXR];
};

template <typename E>
struct cx {
    using I                  = typename E::index_type;
    static constexpr auto R  = E::rank();
    static constexpr auto Dn = E::rank_dynamic();
    // dynamic dimension number d gets the value 2 + d % 3; static dimensions their own value
    static constexpr auto full()
    {
        etl::array<I, R> a{};
        std::size_t d = 0;
        for (std::size_t k = 0; k < R; ++k) {
            a[k] = E::static_extent(k) == dyn ? static_cast<I>(2 + (d++) % 3) : static_cast<I>(E::static_extent(k));
        }
        return a;
    }
    static constexpr auto dynamic_values()
    {
        etl::array<I, Dn> a{};
        std::size_t d = 0;
        for (std::size_t k = 0; k < R; ++k) {
            if (E::static_extent(k) == dyn) { a[d++] = full()[k]; }
        }
        return a;
    }
    template <typename X>
    static constexpr auto read(X const& e)
    {
        std::array<ll, MAXR> out{};
        for (std::size_t k = 0; k < R; ++k) { out[k] = static_cast<ll>(e.extent(k)); }
        return out;
    }
    template <std::size_t... Is>
    static constexpr auto pack_r(std::index_sequence<Is...> /*s*/)
    {
        constexpr auto v = full();
        return read(E(v[Is]...));
    }
    template <std::size_t... Is>
    static constexpr auto pack_d(std::index_sequence<Is...> /*s*/)
    {
        constexpr auto v = dynamic_values();
        return read(E(v[Is]...));
    }
    struct f_pack_r { constexpr auto operator()() const { return pack_r(std::make_index_sequence<R>{}); } };
    struct f_pack_d { constexpr auto operator()() const { return pack_d(std::make_index_sequence<Dn>{}); } };
    struct f_array_r { constexpr auto operator()() const { return read(E(full())); } };
    struct f_array_d { constexpr auto operator()() const { return read(E(dynamic_values())); } };
    struct f_span_r {
        constexpr auto operator()() const
        {
            auto v = full();
            return read(E(etl::span<I, R>(v)));
        }
    };
    struct f_from_dextents { constexpr auto operator()() const { return read(E(etl::dextents<I, R>(full()))); } };
    struct f_to_dextents { constexpr auto operator()() const { return read(etl::dextents<I, R>(E(dynamic_values()))); } };

    template <typename F>
    static constexpr CxResult probe()
    {
        CxResult res{};
        for (std::size_t k = 0; k < R; ++k) { res.want[k] = static_cast<ll>(full()[k]); }
        if constexpr (is_cx(F{})) {
            res.evaluated = true;
            auto const g  = F{}();
            for (std::size_t k = 0; k < R; ++k) { res.got[k] = g[k]; }
        }
        return res;
    }
};
template <typename E, typename F>
inline constexpr CxResult cx_res = cx<E>::template probe<F>();

void cx_report(Ctx& c, TypeInfo const& ti, CxResult const& res, char const* subject, char const* form, char const* text)
{
    std::vector<ll> const want(res.want, res.want + ti.rank), got(res.got, res.got + ti.rank);
    c.at(subject, cat(form, "+", pattern_class(ti.statics())), cat("constant evaluation of ", text, " for ", ti.name(), " with extents ", show(want)));
    if (!res.evaluated) {
        ++c.evals;
        c.c02("not a constant expression: GCC's evaluator rejects the construction (undefined behaviour inside the object, e.g. a write past _extents)");
        return;
    }
    c.eq("extent(r) for all r (constant-evaluated)", show(got), show(want));
    c.nontrivial += (ti.rank_dynamic > 0);
}

template <typename E>
void cx_case(Ctx& c, bool count_type = true)
{
    using X                  = cx<E>;
    constexpr TypeInfo const& ti = tinfo<E>;
    constexpr char const* conv   = "extents::extents(extents<OtherIndexType,OtherExtents...>)";
    if constexpr (E::rank() > 0) {
        constexpr bool allDyn = E::rank() == E::rank_dynamic();
        cx_report(c, ti, cx_res<E, typename X::f_pack_d>, "extents::extents(IndexTypes...)", "n_eq_rank_dynamic", "E(dynamic values...)");
        cx_report(c, ti, cx_res<E, typename X::f_array_d>, "extents::extents(array<T,N>)", "n_eq_rank_dynamic", "E(array of the dynamic values)");
        if constexpr (!allDyn) {
            cx_report(c, ti, cx_res<E, typename X::f_pack_r>, "extents::extents(IndexTypes...)", "n_eq_rank", "E(all values...)");
            cx_report(c, ti, cx_res<E, typename X::f_array_r>, "extents::extents(array<T,N>)", "n_eq_rank", "E(array of all values)");
            cx_report(c, ti, cx_res<E, typename X::f_span_r>, "extents::extents(span<T,N>)", "n_eq_rank", "E(span of all values)");
        }
        cx_report(c, ti, cx_res<E, typename X::f_from_dextents>, conv, allDyn ? "same_pattern" : "dynamic_to_static", "E(dextents of the same values)");
        cx_report(c, ti, cx_res<E, typename X::f_to_dextents>, conv, allDyn ? "same_pattern" : "static_to_dynamic", "dextents(E)");
    }
    if (count_type) { c.r.count("extents_types"); }
}

// ---------------------------------------------------------------------------------------
// jobs
// ---------------------------------------------------------------------------------------
template <typename I, typename A, std::size_t R>
void job_extents(mc::Reporter& r, ll maxDyn)
{
    Ctx c(r);
    for_patterns<I, A, R, 0, ipow(A::n, R)>([&]<typename E>() {
        if (r.deadline_passed()) {
            if (r.exhaustive) { r.not_exhaustive("deadline"); }
            return;
        }
        run_extents_case(c, tinfo<E>, ext_fns<E>, maxDyn);
    });
    c.flush();
}
template <typename I, typename A, std::size_t R>
void job_cx(mc::Reporter& r)
{
    Ctx c(r);
    for_patterns<I, A, R, 0, ipow(A::n, R)>([&]<typename E>() { cx_case<E>(c); });
    r.sample(cat("constexpr probe: ", iname<I>(), " rank ", R, ": each constructor form constant-evaluated per extents type"));
    c.flush();
}
/// round 2: a slice [Lo, Lo+Count) of the patterns: every constructor form, the constexpr probe and the star conversions
template <typename I, typename A, std::size_t R, std::size_t Lo, std::size_t Count>
void job_slice(mc::Reporter& r, ll maxDyn)
{
    Ctx c(r);
    for_patterns<I, A, R, Lo, Count>([&]<typename E>() {
        if (r.deadline_passed()) {
            if (r.exhaustive) { r.not_exhaustive("deadline"); }
            return;
        }
        run_extents_case(c, tinfo<E>, ext_fns<E>, maxDyn);
        cx_case<E>(c, false);
        conv_star<E>(c, maxDyn);
    });
    r.sample(cat("patterns ", Lo, "..", Lo + Count - 1, " of rank ", R, " over ", A::n, " dimension kinds: constructors, constexpr probe, conversions from/to dextents and the other index type"));
    c.flush();
}
template <typename I, typename List>
void job_list(mc::Reporter& r, ll maxDyn)
{
    Ctx c(r);
    for_types([&]<typename E>() {
        if (r.deadline_passed()) {
            if (r.exhaustive) { r.not_exhaustive("deadline"); }
            return;
        }
        run_extents_case(c, tinfo<E>, ext_fns<E>, maxDyn);
        cx_case<E>(c, false);
        conv_star<E>(c, maxDyn);
    }, List{});
    c.flush();
}
template <typename I, typename A, std::size_t R, std::size_t Lo, std::size_t Count>
void job_conv_some(mc::Reporter& r, ll maxDyn)
{
    Ctx c(r);
    conv_some<I, A, R, Lo>(c, maxDyn, std::make_index_sequence<Count>{});
    r.sample(cat("converting constructor: targets ", Lo, "..", Lo + Count - 1, " of rank ", R, " over ", A::n, " dimension kinds x every compatible source, target index ", iname<I>(),
        ", source index ", iname<other_t<I>>(), ", source dynamic extents 0..", maxDyn));
    c.flush();
}

template <typename I, typename A, std::size_t R>
void job_conv(mc::Reporter& r, ll maxDyn)
{
    Ctx c(r);
    conv_all<I, A, R>(c, maxDyn, std::make_index_sequence<ipow(A::n, R)>{});
    r.sample(cat("converting constructor: every compatible (target, source) pair of rank ", R, " over ", A::n, " dimension kinds, target index ", iname<I>(),
        ", source index ", iname<other_t<I>>(), ", source dynamic extents 0..", maxDyn));
    c.flush();
}

} // namespace

int main(int argc, char** argv)
{
    mc::Main m(argc, argv);
    std::vector<std::string> const both{"quick", "thorough"};
    std::vector<std::string> const th{"thorough"};
    using I              = PartIndex;
    std::string const in = iname<I>();
    // parts 1 and 2 (int, size_t) run in both tiers, the other index types in the thorough tier
    auto const tiers = (MC_PART <= 2) ? both : th;
#if MC_PART >= 11 && MC_PART <= 15
    constexpr std::size_t lo = (MC_PART - 11) * 125;
    m.job(cat("extents/", in, "/rank4-5kinds/", lo, "-", lo + 124), th, [](mc::Reporter& r) { job_slice<I, A5, 4, (MC_PART - 11) * 125, 125>(r, 3); });
#elif MC_PART == 16 || MC_PART == 17
    m.job(cat("extents/", in, "/rank5"), th, [](mc::Reporter& r) { job_list<I, rank5_types<I>>(r, 3); });
    m.job(cat("extents/", in, "/rank6"), th, [](mc::Reporter& r) { job_list<I, rank6_types<I>>(r, 3); });
#elif MC_PART >= 18 && MC_PART <= 20
    constexpr std::size_t lo = (MC_PART - 18) * 27;
    m.job(cat("convert/", in, "/rank4-3kinds/", lo, "-", lo + 26), th, [](mc::Reporter& r) { job_conv_some<I, A3, 4, (MC_PART - 18) * 27, 27>(r, 3); });
#elif MC_PART <= 8
    {
        m.job(cat("extents/", in, "/rank0-2"), tiers, [](mc::Reporter& r) {
            job_extents<I, A5, 0>(r, 4);
            job_extents<I, A5, 1>(r, 4);
            job_extents<I, A5, 2>(r, 4);
        });
        m.job(cat("extents/", in, "/rank3"), tiers, [](mc::Reporter& r) { job_extents<I, A5, 3>(r, 4); });
        m.job(cat("constexpr/", in, "/rank1-3"), tiers, [](mc::Reporter& r) {
            job_cx<I, A5, 1>(r);
            job_cx<I, A5, 2>(r);
            job_cx<I, A5, 3>(r);
        });
        m.job(cat("convert/", in, "/rank1-2"), tiers, [](mc::Reporter& r) {
            job_conv<I, A5, 1>(r, 4);
            job_conv<I, A5, 2>(r, 4);
        });
        m.job(cat("convert/", in, "/rank3"), tiers, [](mc::Reporter& r) { job_conv<I, A3, 3>(r, 4); });
    }
#else
    {
        m.job(cat("extents/", in, "/rank4"), th, [](mc::Reporter& r) { job_extents<I, A3, 4>(r, 3); });
        m.job(cat("constexpr/", in, "/rank4"), th, [](mc::Reporter& r) { job_cx<I, A3, 4>(r); });
        m.job(cat("convert/", in, "/rank4"), th, [](mc::Reporter& r) { job_conv<I, A2, 4>(r, 3); });
    }
#endif
    return m.run();
}
