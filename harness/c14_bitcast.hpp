// C14 round 2 (translation unit c14_bitcast.cpp): etl::bit_cast over every ordered pair of same-size trivially
// copyable types of a small zoo (sizes 1, 2, 4, 8, 16; integers, character types, enumerations,
// floating point, pointers, classes and arrays without padding), and the bitmask-type operators
// of <etl/_bit/is_bitmask_type.hpp>.
//
// Definition used for bit_cast ([bit.cast]): the object representation of the result equals the
// object representation of the argument.  Every source object is built by memcpy from a byte
// pattern, the result is read back by memcpy; patterns that are not valid values of a type
// (bool: anything but 0/1) are not used for that type.  None of the zoo types has padding.
#pragma once

#include "c14_common.hpp"

#include <etl/bit.hpp>
#include <etl/_bit/is_bitmask_type.hpp> // not reachable through <etl/bit.hpp>: included directly

#include <array>
#include <cstring>

namespace c14bc {
using namespace c14;
using mc::cat;

enum class E8 : u8 {};
enum class E16 : u16 {};
enum class E32 : i32 {};
enum class E64 : u64 {};
struct S1 {
    u8 a;
};
struct S2 {
    u8 a, b;
};
struct S4 {
    u16 a;
    u8 b, c;
};
struct S8 {
    u32 a;
    float b;
};
struct S16 {
    u64 a;
    double b;
};
using A1  = std::array<u8, 1>;
using A2  = std::array<u8, 2>;
using A4  = std::array<u16, 2>;
using A8  = std::array<float, 2>;
using A16 = std::array<u8, 16>;
using D16 = std::array<double, 2>;
using VP  = void*;

static_assert(sizeof(S1) == 1 && sizeof(S2) == 2 && sizeof(S4) == 4 && sizeof(S8) == 8 && sizeof(S16) == 16);
static_assert(sizeof(A1) == 1 && sizeof(A2) == 2 && sizeof(A4) == 4 && sizeof(A8) == 8 && sizeof(A16) == 16 && sizeof(D16) == 16);
static_assert(sizeof(wchar_t) == 4 && sizeof(VP) == 8 && sizeof(float) == 4 && sizeof(double) == 8);

template <typename T>
char const* zname()
{
    if constexpr (std::is_same_v<T, bool>) { return "bool"; }
    if constexpr (std::is_same_v<T, E8>) { return "enum:u8"; }
    if constexpr (std::is_same_v<T, E16>) { return "enum:u16"; }
    if constexpr (std::is_same_v<T, E32>) { return "enum:i32"; }
    if constexpr (std::is_same_v<T, E64>) { return "enum:u64"; }
    if constexpr (std::is_same_v<T, S1>) { return "struct{u8}"; }
    if constexpr (std::is_same_v<T, S2>) { return "struct{u8,u8}"; }
    if constexpr (std::is_same_v<T, S4>) { return "struct{u16,u8,u8}"; }
    if constexpr (std::is_same_v<T, S8>) { return "struct{u32,float}"; }
    if constexpr (std::is_same_v<T, S16>) { return "struct{u64,double}"; }
    if constexpr (std::is_same_v<T, A1>) { return "array<u8,1>"; }
    if constexpr (std::is_same_v<T, A2>) { return "array<u8,2>"; }
    if constexpr (std::is_same_v<T, A4>) { return "array<u16,2>"; }
    if constexpr (std::is_same_v<T, A8>) { return "array<float,2>"; }
    if constexpr (std::is_same_v<T, A16>) { return "array<u8,16>"; }
    if constexpr (std::is_same_v<T, D16>) { return "array<double,2>"; }
    if constexpr (std::is_same_v<T, VP>) { return "void*"; }
    if constexpr (std::is_same_v<T, float>) { return "float"; }
    if constexpr (std::is_same_v<T, double>) { return "double"; }
    if constexpr (std::is_same_v<T, __int128>) { return "__int128"; }
    if constexpr (std::is_same_v<T, unsigned __int128>) { return "unsigned __int128"; }
    if constexpr (std::is_integral_v<T> && sizeof(T) <= 8) { return tname<T>(); }
    return "?";
}

using Pattern  = std::array<unsigned char, 16>;
using Patterns = std::vector<Pattern>;

inline std::string hex(Pattern const& p, std::size_t n)
{
    std::string s;
    char b[4];
    for (std::size_t i = 0; i < n; ++i) {
        std::snprintf(b, sizeof b, "%02x", unsigned(p[i]));
        s += b;
        if (i + 1 < n) { s += ' '; }
    }
    return s;
}

/// byte patterns of size N, duplicate-free, deterministic order
template <std::size_t N>
Patterns const& patterns()
{
    static Patterns const v = [] {
        Patterns o;
        auto put = [&](u128 bits) {
            Pattern p{};
            for (std::size_t i = 0; i < N; ++i) { p[i] = static_cast<unsigned char>(bits >> (8 * i)); }
            o.push_back(p);
        };
        if constexpr (N == 1) {
            for (unsigned x = 0; x < 256; ++x) { put(x); }
        } else if constexpr (N == 2) {
            for (unsigned x = 0; x < 65536; ++x) { put(x); }
        } else if constexpr (N == 4) {
            std::set<u32> s;
            for (V x : full2<u32>()) { s.insert(u32(x)); }
            // float: +-0, denormals, +-inf, quiet and signalling NaNs with payload, 1.0f, max
            for (u32 x : {0x00000001U, 0x007FFFFFU, 0x00800000U, 0x3F800000U, 0x7F7FFFFFU, 0x7F800000U, 0x7F800001U, 0x7FA00000U, 0x7FC00000U,
                     0x7FFFFFFFU, 0x80000000U, 0xFF800000U, 0xFF800001U, 0xFFC12345U}) {
                s.insert(x);
            }
            for (u32 x : s) { put(x); }
        } else if constexpr (N == 8) {
            std::set<u64> s;
            for (V x : full2<u64>()) { s.insert(u64(x)); }
            for (u64 x : {0x0000000000000001ULL, 0x000FFFFFFFFFFFFFULL, 0x0010000000000000ULL, 0x3FF0000000000000ULL, 0x7FEFFFFFFFFFFFFFULL,
                     0x7FF0000000000000ULL, 0x7FF0000000000001ULL, 0x7FF4000000000000ULL, 0x7FF8000000000000ULL, 0x8000000000000000ULL,
                     0xFFF0000000000000ULL, 0xFFF0000000000001ULL, 0xFFF8000000012345ULL,
                     // two floats: signalling NaN in each half
                     0x7FA000007F800001ULL, 0xFF8000017FC00000ULL}) {
                s.insert(x);
            }
            for (u64 x : s) { put(x); }
        } else {
            static_assert(N == 16);
            std::vector<u64> half;
            for (V x : edge<u64>()) { half.push_back(u64(x)); }
            for (u64 x : {0x0123456789ABCDEFULL, 0xFEDCBA9876543210ULL, 0x5555555555555555ULL, 0x00FF00FF00FF00FFULL, 0x7FF0000000000001ULL,
                     0xFFF8000000012345ULL, 0x8000000000000000ULL, 0x0102030405060708ULL}) {
                if (std::find(half.begin(), half.end(), x) == half.end()) { half.push_back(x); }
            }
            for (u64 hi : half) {
                for (u64 lo : half) { put((u128(hi) << 64) | lo); }
            }
        }
        return o;
    }();
    return v;
}

/// one ordered type pair, reduced to plain data and one tiny function: the loop below is not a template
struct CastFn {
    char const* to;
    char const* from;
    std::size_t n;
    bool has_bool;
    bool return_type_ok;
    std::string cls;
    void (*fn)(unsigned char const* in, unsigned char* out);
};

template <typename To, typename From>
CastFn make_cast()
{
    constexpr std::size_t N = sizeof(From);
    static_assert(sizeof(To) == N);
    constexpr bool fl = std::is_floating_point_v<To> || std::is_floating_point_v<From> || std::is_same_v<To, A8> || std::is_same_v<From, A8>
                     || std::is_same_v<To, D16> || std::is_same_v<From, D16> || std::is_same_v<To, S8> || std::is_same_v<From, S8>
                     || std::is_same_v<To, S16> || std::is_same_v<From, S16>;
    constexpr bool cl = std::is_class_v<To> || std::is_class_v<From>;
    std::string cls   = cat("size_", N);
    if (std::is_same_v<To, From>) { cls += "+same_type"; }
    if (fl) { cls += "+floating_member"; }
    if (cl) { cls += "+class_or_array"; }
    if (std::is_pointer_v<To> || std::is_pointer_v<From>) { cls += "+pointer"; }
    constexpr bool hb = std::is_same_v<To, bool> || std::is_same_v<From, bool>;
    if (hb) { cls += "+bool"; }
    return CastFn{zname<To>(), zname<From>(), N, hb, std::is_same_v<decltype(etl::bit_cast<To>(std::declval<From const&>())), To>, cls,
        +[](unsigned char const* in, unsigned char* out) {
            From src;
            std::memcpy(&src, in, N);
            To const dst = etl::bit_cast<To>(src);
            std::memcpy(out, &dst, N);
        }};
}

inline void cast_loop(Ctx& c, CastFn const& f, Patterns const& ps)
{
    char const* subject = "bit_cast<To>(from)";
    if (!c.r.want(subject)) { return; }
    std::size_t const N = f.n;
    if (!f.return_type_ok) { c.r.violation("C14", subject, "return_type", cat("To=", f.to, " From=", f.from), "return type is not To"); }
    auto kase = [&](std::size_t i) { return cat("To=", f.to, " From=", f.from, " object bytes (low address first)=", hex(ps[i], N)); };
    c.begin_sweep();
    guarded_for(
        ps.size(),
        [&](std::size_t i) {
            Pattern const& p = ps[i];
            if (f.has_bool && p[0] > 1) {
                ++c.skipped; // not a value of bool
                return;
            }
            Pattern got{};
            auto const s0 = mc::san_hits();
            f.fn(p.data(), got.data());
            auto const s1 = mc::san_hits();
            ++c.evals;
            bool nz = false;
            for (std::size_t k = 0; k < N; ++k) { nz = nz || p[k] != 0; }
            c.nontriv += nz ? 1 : 0;
            if (std::memcmp(got.data(), p.data(), N) != 0) { c.r.violation("C14", subject, f.cls, kase(i), cat("result bytes=", hex(got, N))); }
            if (s0 != s1) { c.san(subject, f.cls, kase(i)); }
        },
        [&](std::size_t i, mc::Trap t) {
            c.r.violation(t == mc::Trap::assert_fired ? "C05" : "C02", subject, cat(f.cls, "/", mc::trap_name(t)), kase(i), mc::describe_trap(t));
            c.r.violation("C14", subject, f.cls, kase(i), cat("tetl=<", mc::describe_trap(t), ">"));
            return ++c.traps_in_sweep < c.trap_budget;
        });
}

template <typename To, typename From>
void cast_pair(Ctx& c)
{
    cast_loop(c, make_cast<To, From>(), patterns<sizeof(From)>());
}

template <typename... Ts>
struct Zoo { };

template <typename From, typename... Tos>
void cast_row(Ctx& c, Zoo<Tos...>)
{
    (cast_pair<Tos, From>(c), ...);
}
template <typename... Ts>
void cast_square(Ctx& c, Zoo<Ts...> z)
{
    (cast_row<Ts>(c, z), ...);
    if (c.r.wants_sample()) { c.r.sample(cat("bit_cast over ", sizeof...(Ts), "^2 ordered type pairs")); }
}

using Zoo1  = Zoo<u8, i8, char, char8_t, bool, E8, S1, A1>;
using Zoo2  = Zoo<u16, i16, char16_t, E16, S2, A2>;
using Zoo4  = Zoo<u32, i32, float, char32_t, wchar_t, E32, S4, A4>;
using Zoo8  = Zoo<u64, i64, long long, double, VP, E64, S8, A8>;
using Zoo16 = Zoo<unsigned __int128, __int128, S16, A16, D16>;

} // namespace c14bc

// ---- bitmask-type operators ---------------------------------------------------------------

namespace c14bm {
enum class M8 : c14::u8 {};
enum class MI8 : c14::i8 {};
enum class M16 : c14::u16 {};
enum class M64 : c14::u64 {};
enum M32 : c14::u32 {}; // unscoped, fixed underlying type
} // namespace c14bm

template <>
struct etl::is_bitmask_type<c14bm::M8> : etl::true_type { };
template <>
struct etl::is_bitmask_type<c14bm::MI8> : etl::true_type { };
template <>
struct etl::is_bitmask_type<c14bm::M16> : etl::true_type { };
template <>
struct etl::is_bitmask_type<c14bm::M32> : etl::true_type { };
template <>
struct etl::is_bitmask_type<c14bm::M64> : etl::true_type { };

namespace c14bm {
using namespace c14;
// the operators live in namespace etl; an enumeration declared elsewhere reaches them like this
using etl::operator&;
using etl::operator|;
using etl::operator^;
using etl::operator~;
using etl::operator&=;
using etl::operator|=;
using etl::operator^=;

template <typename E>
void bitmask_ops(Ctx& c, char const* ename)
{
    using T    = std::underlying_type_t<E>;
    TI t       = ti<T>();
    t.name     = ename;
    auto cls   = +[](V, V) { return std::string("general"); };
    auto nt    = +[](V x, V y) { return x != 0 && y != 0 && x != y; };
    Space sp   = pair_space<T, T>(false);
    sweep2(c,
        {"bitmask operator&(x,y)", t, t, "x", "y", always2, [](V x, V y) { return V(T(static_cast<E>(T(x)) & static_cast<E>(T(y)))); },
            [](Ctx&, V x, V y) { return V(T(T(x) & T(y))); }, cls, nt},
        sp);
    sweep2(c,
        {"bitmask operator|(x,y)", t, t, "x", "y", always2, [](V x, V y) { return V(T(static_cast<E>(T(x)) | static_cast<E>(T(y)))); },
            [](Ctx&, V x, V y) { return V(T(T(x) | T(y))); }, cls, nt},
        sp);
    sweep2(c,
        {"bitmask operator^(x,y)", t, t, "x", "y", always2, [](V x, V y) { return V(T(static_cast<E>(T(x)) ^ static_cast<E>(T(y)))); },
            [](Ctx&, V x, V y) { return V(T(T(x) ^ T(y))); }, cls, nt},
        sp);
    // compound forms: the left operand is updated and a reference to it is returned
    sweep2(c,
        {"bitmask operator&=(x,y)", t, t, "x", "y", always2,
            [](V x, V y) {
                E a           = static_cast<E>(T(x));
                E const& back = (a &= static_cast<E>(T(y)));
                return (&back == &a) ? V(T(a)) : V(-99999);
            },
            [](Ctx&, V x, V y) { return V(T(T(x) & T(y))); }, cls, nt},
        sp);
    sweep2(c,
        {"bitmask operator|=(x,y)", t, t, "x", "y", always2,
            [](V x, V y) {
                E a           = static_cast<E>(T(x));
                E const& back = (a |= static_cast<E>(T(y)));
                return (&back == &a) ? V(T(a)) : V(-99999);
            },
            [](Ctx&, V x, V y) { return V(T(T(x) | T(y))); }, cls, nt},
        sp);
    sweep2(c,
        {"bitmask operator^=(x,y)", t, t, "x", "y", always2,
            [](V x, V y) {
                E a           = static_cast<E>(T(x));
                E const& back = (a ^= static_cast<E>(T(y)));
                return (&back == &a) ? V(T(a)) : V(-99999);
            },
            [](Ctx&, V x, V y) { return V(T(T(x) ^ T(y))); }, cls, nt},
        sp);
    sweep1(c,
        {"bitmask operator~(x)", t, "x", always1, [](V x) { return V(T(~static_cast<E>(T(x)))); }, [](Ctx&, V x) { return V(T(~T(x))); },
            &cls_unary<T>, [](V x) { return x != 0; }},
        full2<T>());
}
} // namespace c14bm

inline void add_bitcast_jobs(mc::Main& m)
{
    using namespace c14bc;
    m.job("bit-cast-1-2", {"quick", "thorough"}, [](mc::Reporter& r) {
        Ctx c(r);
        cast_square(c, Zoo1{});
        cast_square(c, Zoo2{});
    });
    m.job("bit-cast-4-8-16", {"quick", "thorough"}, [](mc::Reporter& r) {
        Ctx c(r);
        cast_square(c, Zoo4{});
        cast_square(c, Zoo8{});
        cast_square(c, Zoo16{});
    });
    m.job("bitmask-ops", {"quick", "thorough"}, [](mc::Reporter& r) {
        Ctx c(r);
        c14bm::bitmask_ops<c14bm::M8>(c, "enum:u8");
        c14bm::bitmask_ops<c14bm::MI8>(c, "enum:i8");
        c14bm::bitmask_ops<c14bm::M16>(c, "enum:u16");
        c14bm::bitmask_ops<c14bm::M32>(c, "enum:u32(unscoped)");
        c14bm::bitmask_ops<c14bm::M64>(c, "enum:u64");
    });
}
