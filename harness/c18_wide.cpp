// C18 round 2: the argument classes the first harness (c18_clib.cpp, c18_unterminated.cpp) did not reach.
//
//   intchar/*   the int character argument of strchr/strrchr/memchr/memset over [-1024,1023] and around
//               INT_MIN/INT_MAX/+-2^16/+-2^24 (C converts it to char / unsigned char) on strings that hold
//               every byte value; wcschr/wcsrchr/wmemchr/wmemset with wide characters above 0xFFFF, negative
//               ones and NUL; both overloads (const / non-const) of every search function
//   order/*     strcmp/strncmp/memcmp over every byte value, wcscmp/wcsncmp/wmemcmp over wide values whose
//               value order differs from their byte order (0xFF < 0x100, negative < positive, > 0xFFFF)
//   long/*      strings of length 0..17 (thorough 0..33) over {a} with one differing character at every
//               position, at several alignment offsets: every function of the str*/wcs* family (catches
//               word-at-a-time tricks), strncpy/wcsncpy with every count up to len+9 and far beyond
//   periodic/*  strstr/wcsstr: needles of length 0..6 in haystacks made of repeated prefixes (aab, aaab, abab..)
//   align/*     memcpy/memmove/memset/memcmp/memchr (+ wmem*) on exact-size unterminated blocks at every
//               alignment offset 0..7 of source and destination, every length 0..24 (40); overlapping
//               memmove at every (src offset, dst offset, count) inside 12 (20) elements x every alignment
//
// Same engine and oracles as c18_clib.cpp: every tuple is executed on the etl function and on the glibc
// function of the same name ("C" locale); pointer results are compared as offset-or-null, comparisons by
// sign, destinations over the whole extent C defines; blocks are exact-size at their END (ASan traps the first
// element behind them in the san flavour, canaries in every flavour, also in front of the block).
#include "mc.hpp"

#include <etl/cstring.hpp>
#include <etl/cwchar.hpp>

#include <algorithm>
#include <array>
#include <climits>
#include <clocale>
#include <cstring>
#include <cwchar>
#include <functional>
#include <memory>
#include <set>
#include <string>
#include <type_traits>
#include <vector>

using mc::cat;

namespace {

constexpr auto npos = std::size_t(-1);

inline int sign(long long x) { return (x > 0) - (x < 0); }
inline std::string show_n(std::size_t n) { return n == npos ? std::string("SIZE_MAX") : std::to_string(n); }

// ---------------------------------------------------------------------------------------
// exact-size block whose payload starts `k` elements behind a 16-byte aligned address
// ---------------------------------------------------------------------------------------

template <typename C>
struct ABlk {
    static constexpr std::size_t pad = 32;
    unsigned char* raw{nullptr};
    std::size_t k{0}, n{0};

    ABlk(std::size_t align_off, std::size_t count, unsigned char fill = 0xCD) : k(align_off), n(count)
    {
        if (k + n == 0) { k = 1; } // an empty range is the end pointer of a one-element block
#if defined(MC_FLAVOUR_SAN)
        raw = static_cast<unsigned char*>(std::malloc((k + n) * sizeof(C)));
        std::memset(raw, 0xA5, k * sizeof(C));
        std::memset(raw + k * sizeof(C), fill, n * sizeof(C));
#else
        raw = static_cast<unsigned char*>(std::malloc(2 * pad + (k + n) * sizeof(C)));
        std::memset(raw, 0xA5, pad + k * sizeof(C));
        std::memset(raw + pad + k * sizeof(C), fill, n * sizeof(C));
        std::memset(raw + pad + (k + n) * sizeof(C), 0xA5, pad);
#endif
    }
    ABlk(ABlk const&)            = delete;
    ABlk& operator=(ABlk const&) = delete;
    ~ABlk() { std::free(raw); }

    C* data() const
    {
#if defined(MC_FLAVOUR_SAN)
        return reinterpret_cast<C*>(raw + k * sizeof(C));
#else
        return reinterpret_cast<C*>(raw + pad + k * sizeof(C));
#endif
    }
    std::size_t size() const { return n; }
    void assign(std::basic_string<C> const& s, bool terminate)
    {
        std::copy(s.begin(), s.end(), data());
        if (terminate) { data()[s.size()] = C(0); }
    }
    bool intact() const
    {
#if defined(MC_FLAVOUR_SAN)
        for (std::size_t i = 0; i < k * sizeof(C); ++i) {
            if (raw[i] != 0xA5) { return false; }
        }
        return true;
#else
        for (std::size_t i = 0; i < pad + k * sizeof(C); ++i) {
            if (raw[i] != 0xA5) { return false; }
        }
        for (std::size_t i = 0; i < pad; ++i) {
            if (raw[pad + (k + n) * sizeof(C) + i] != 0xA5) { return false; }
        }
        return true;
#endif
    }
};

// ---------------------------------------------------------------------------------------
// the two front ends
// ---------------------------------------------------------------------------------------

enum Fn : int {
    F_len, F_cmp, F_ncmp, F_cpy, F_ncpy, F_cat, F_ncat, F_chr, F_chr_nc, F_rchr, F_rchr_nc, F_spn, F_cspn, F_pbrk, F_pbrk_nc,
    F_str, F_str_nc, F_mcpy, F_mmove, F_mset, F_mcmp, F_mchr, F_mchr_nc, F_count
};

#define C18_PAIR(nm, efn, rfn)                                                                                                   \
    template <typename... X>                                                                                                     \
    static auto e_##nm(X... x)                                                                                                   \
    {                                                                                                                            \
        return efn(x...);                                                                                                        \
    }                                                                                                                            \
    template <typename... X>                                                                                                     \
    static auto r_##nm(X... x)                                                                                                   \
    {                                                                                                                            \
        return rfn(x...);                                                                                                        \
    }

template <typename C>
struct Api;

template <>
struct Api<char> {
    static constexpr char const* tname = "char";
    static char const* name(int f)
    {
        static char const* const n[F_count] = {"strlen", "strcmp", "strncmp", "strcpy", "strncpy", "strcat", "strncat", "strchr(const)",
            "strchr", "strrchr(const)", "strrchr", "strspn", "strcspn", "strpbrk(const)", "strpbrk", "strstr(const)", "strstr", "memcpy",
            "memmove", "memset", "memcmp", "memchr(const)", "memchr"};
        return n[f];
    }
    C18_PAIR(len, etl::strlen, ::strlen)
    C18_PAIR(cmp, etl::strcmp, ::strcmp)
    C18_PAIR(ncmp, etl::strncmp, ::strncmp)
    C18_PAIR(cpy, etl::strcpy, ::strcpy)
    C18_PAIR(ncpy, etl::strncpy, ::strncpy)
    C18_PAIR(cat, etl::strcat, ::strcat)
    C18_PAIR(ncat, etl::strncat, ::strncat)
    C18_PAIR(chr, etl::strchr, ::strchr)
    C18_PAIR(rchr, etl::strrchr, ::strrchr)
    C18_PAIR(spn, etl::strspn, ::strspn)
    C18_PAIR(cspn, etl::strcspn, ::strcspn)
    C18_PAIR(pbrk, etl::strpbrk, ::strpbrk)
    C18_PAIR(str, etl::strstr, ::strstr)
    static char* e_mcpy(char* d, char const* s, std::size_t n) { return static_cast<char*>(etl::memcpy(d, s, n)); }
    static char* r_mcpy(char* d, char const* s, std::size_t n) { return static_cast<char*>(::memcpy(d, s, n)); }
    static char* e_mmove(char* d, char const* s, std::size_t n) { return static_cast<char*>(etl::memmove(d, s, n)); }
    static char* r_mmove(char* d, char const* s, std::size_t n) { return static_cast<char*>(::memmove(d, s, n)); }
    static char* e_mset(char* d, long c, std::size_t n) { return static_cast<char*>(etl::memset(d, int(c), n)); }
    static char* r_mset(char* d, long c, std::size_t n) { return static_cast<char*>(::memset(d, int(c), n)); }
    static int e_mcmp(char const* a, char const* b, std::size_t n) { return etl::memcmp(a, b, n); }
    static int r_mcmp(char const* a, char const* b, std::size_t n) { return ::memcmp(a, b, n); }
    static char const* e_mchr(char const* a, long c, std::size_t n) { return static_cast<char const*>(etl::memchr(static_cast<void const*>(a), int(c), n)); }
    static char const* r_mchr(char const* a, long c, std::size_t n) { return static_cast<char const*>(::memchr(static_cast<void const*>(a), int(c), n)); }
    static char* e_mchr_nc(char* a, long c, std::size_t n) { return static_cast<char*>(etl::memchr(static_cast<void*>(a), int(c), n)); }
};

template <>
struct Api<wchar_t> {
    static constexpr char const* tname = "wchar_t";
    static char const* name(int f)
    {
        static char const* const n[F_count] = {"wcslen", "wcscmp", "wcsncmp", "wcscpy", "wcsncpy", "wcscat", "wcsncat", "wcschr(const)",
            "wcschr", "wcsrchr(const)", "wcsrchr", "wcsspn", "wcscspn", "wcspbrk(const)", "wcspbrk", "wcsstr(const)", "wcsstr", "wmemcpy",
            "wmemmove", "wmemset", "wmemcmp", "wmemchr(const)", "wmemchr"};
        return n[f];
    }
    C18_PAIR(len, etl::wcslen, ::wcslen)
    C18_PAIR(cmp, etl::wcscmp, ::wcscmp)
    C18_PAIR(ncmp, etl::wcsncmp, ::wcsncmp)
    C18_PAIR(cpy, etl::wcscpy, ::wcscpy)
    C18_PAIR(ncpy, etl::wcsncpy, ::wcsncpy)
    C18_PAIR(cat, etl::wcscat, ::wcscat)
    C18_PAIR(ncat, etl::wcsncat, ::wcsncat)
    C18_PAIR(chr, etl::wcschr, ::wcschr)
    C18_PAIR(rchr, etl::wcsrchr, ::wcsrchr)
    C18_PAIR(spn, etl::wcsspn, ::wcsspn)
    C18_PAIR(cspn, etl::wcscspn, ::wcscspn)
    C18_PAIR(pbrk, etl::wcspbrk, ::wcspbrk)
    C18_PAIR(str, etl::wcsstr, ::wcsstr)
    static wchar_t* e_mcpy(wchar_t* d, wchar_t const* s, std::size_t n) { return etl::wmemcpy(d, s, n); }
    static wchar_t* r_mcpy(wchar_t* d, wchar_t const* s, std::size_t n) { return ::wmemcpy(d, s, n); }
    static wchar_t* e_mmove(wchar_t* d, wchar_t const* s, std::size_t n) { return etl::wmemmove(d, s, n); }
    static wchar_t* r_mmove(wchar_t* d, wchar_t const* s, std::size_t n) { return ::wmemmove(d, s, n); }
    static wchar_t* e_mset(wchar_t* d, long c, std::size_t n) { return etl::wmemset(d, wchar_t(c), n); }
    static wchar_t* r_mset(wchar_t* d, long c, std::size_t n) { return ::wmemset(d, wchar_t(c), n); }
    static int e_mcmp(wchar_t const* a, wchar_t const* b, std::size_t n) { return etl::wmemcmp(a, b, n); }
    static int r_mcmp(wchar_t const* a, wchar_t const* b, std::size_t n) { return ::wmemcmp(a, b, n); }
    static wchar_t const* e_mchr(wchar_t const* a, long c, std::size_t n) { return etl::wmemchr(a, wchar_t(c), n); }
    static wchar_t const* r_mchr(wchar_t const* a, long c, std::size_t n) { return ::wmemchr(a, wchar_t(c), n); }
    static wchar_t* e_mchr_nc(wchar_t* a, long c, std::size_t n) { return etl::wmemchr(a, wchar_t(c), n); }
};

template <typename C, typename P>
long off(P const* res, C const* base)
{
    return res == nullptr ? -1L : long(res - base);
}

template <typename C>
std::string show(std::basic_string<C> const& s)
{
    if (s.size() > 48) {
        return cat(mc::show_chars(s.begin(), s.begin() + 12), "...(", s.size(), " elements)...", mc::show_chars(s.end() - 6, s.end()));
    }
    return mc::show_chars(s.begin(), s.end());
}

// ---------------------------------------------------------------------------------------
// recorder: counts, compares, attributes sanitizer reports and traps
// ---------------------------------------------------------------------------------------

template <typename C>
struct Rec {
    using A = Api<C>;
    mc::Reporter& r;
    std::uint64_t evals{0}, nontriv{0};
    std::uint64_t san;
    bool enabled[F_count];
    int fid{0};
    std::string cls{"general"};
    std::function<std::string()> kase; // describes the current case (evaluated only when something is reported)

    explicit Rec(mc::Reporter& rep) : r(rep), san(mc::san_hits())
    {
        for (int f = 0; f < F_count; ++f) { enabled[f] = r.want(subject(f)); }
        kase = [] { return std::string("?"); };
    }
    static std::string subject(int f) { return cat("etl::", A::name(f)); }
    bool on(int f)
    {
        fid = f;
        return enabled[f];
    }
    std::string full_case() const { return cat(A::tname, " ", A::name(fid), ": ", kase()); }

    void check_san()
    {
        auto const now = mc::san_hits();
        if (now != san) {
            san = now;
            r.violation("C02", subject(fid), cls, full_case(), "ASan/UBSan report during the etl call (see job log)");
        }
    }
    template <typename G, typename W>
    void cmp(G const& got, W const& want, bool nt)
    {
        ++evals;
        if (nt) { ++nontriv; }
        r.outcome(mc::hash_mix(std::uint64_t(fid) * 1000003ULL + 17, std::uint64_t(static_cast<long long>(want))));
        if (!(got == want)) { r.violation("C18", subject(fid), cls, full_case(), cat("tetl=", got, " libc=", want)); }
        check_san();
    }
    void cmp_buf(ABlk<C>& e, ABlk<C>& w, bool ret_ok, bool nt)
    {
        ++evals;
        if (nt) { ++nontriv; }
        r.outcome(mc::fnv1a(w.data(), w.size() * sizeof(C), std::uint64_t(fid) + 177));
        if (!ret_ok) { r.violation("C18", subject(fid), cls, full_case(), "return value is not the destination pointer"); }
        if (std::memcmp(e.data(), w.data(), w.size() * sizeof(C)) != 0) {
            r.violation("C18", subject(fid), cls, full_case(),
                cat("destination tetl=", mc::show_chars(e.data(), e.data() + e.size()), " libc=", mc::show_chars(w.data(), w.data() + w.size())));
        }
        if (!e.intact()) { r.violation("C02", subject(fid), cls, full_case(), "wrote outside the destination extent C defines (canary damaged)"); }
        check_san();
    }
    void trapped(mc::Trap t)
    {
        if (t == mc::Trap::none) { return; }
        bool const contract = (t == mc::Trap::assert_fired);
        r.violation(contract ? "C05" : "C02", subject(fid), contract ? cat(cls, "/handler-on-valid-call") : cat(cls, "/", mc::trap_name(t)), full_case(),
            mc::describe_trap(t));
    }
    void finish()
    {
        r.count("evaluations", evals);
        r.count("distinct_nontrivial", nontriv);
    }
};

/// a terminated string at alignment offset k; tail == 0: the terminator is the last element of the block;
/// tail == 1/2: two more characters follow the terminator (different for the two variants), so that a
/// function that looks past the terminator returns something else
template <typename C>
std::unique_ptr<ABlk<C>> make_str(std::basic_string<C> const& s, std::size_t k, int tail)
{
    auto b = std::make_unique<ABlk<C>>(k, s.size() + 1 + (tail ? 2 : 0));
    b->assign(s, true);
    if (tail == 1) {
        b->data()[s.size() + 1] = C('a');
        b->data()[s.size() + 2] = C('p');
    } else if (tail == 2) {
        b->data()[s.size() + 1] = C('b');
        b->data()[s.size() + 2] = C('q');
    }
    return b;
}

template <typename C>
std::vector<std::basic_string<C>> all_strings(std::vector<C> const& alpha, int maxLen)
{
    std::vector<std::basic_string<C>> all{{}};
    std::size_t lo = 0;
    for (int len = 1; len <= maxLen; ++len) {
        std::size_t hi = all.size();
        for (std::size_t i = lo; i < hi; ++i) {
            for (C c : alpha) {
                auto s = all[i];
                s.push_back(c);
                all.push_back(s);
            }
        }
        lo = hi;
    }
    return all;
}

// ---------------------------------------------------------------------------------------
// job intchar/char: int arguments outside the unsigned char range
// ---------------------------------------------------------------------------------------

std::vector<long> int_chars()
{
    std::vector<long> v;
    for (long c = -1024; c <= 1023; ++c) { v.push_back(c); }
    for (long base : {long(INT_MIN), -16777216L, -65536L, 65536L, 16777216L, long(INT_MAX) - 255}) {
        for (long x : {0L, 1L, long('a'), 0x7FL, 0x80L, 0xFFL}) { v.push_back(base + x); }
    }
    return v;
}

std::string intchar_class(long ch)
{
    std::string c;
    if (static_cast<unsigned char>(ch) == 0) { c = ch == 0 ? "ch_nul" : "ch_converts_to_nul"; }
    else if (ch > 255) { c = "ch_above_255"; }
    else if (ch < -128) { c = "ch_below_minus_128"; }
    else if (ch < 0) { c = "ch_negative"; }
    else if (ch >= 0x80) { c = "ch_highbit"; }
    else { c = "general"; }
    return c;
}

void sweep_intchar_narrow(mc::Reporter& r)
{
    using C = char;
    using A = Api<C>;
    Rec<C> rc(r);
    auto const chars = int_chars();

    std::vector<std::string> strs;
    {
        std::string all, rev;
        for (int i = 1; i <= 255; ++i) { all.push_back(char(i)); }
        for (int i = 255; i >= 1; --i) { rev.push_back(char(i)); }
        strs.push_back(all);
        strs.push_back(rev);
        strs.push_back(all + all);
        for (auto const& s : all_strings<char>({'a', char(0x01), char(0x80), char(0xFF)}, 2)) { strs.push_back(s); }
    }
    for (auto const& s : strs) {
        auto blk          = make_str<C>(s, 0, 0);
        C* const pa       = blk->data();
        long cur          = 0;
        rc.kase           = [&] { return cat("str=", show(s), " ch=", cur); };
        mc::Trap t = mc::guarded([&] {
            rc.cls = s.size() >= 255 ? "len_ge_255" : "general";
            if (rc.on(F_len)) { rc.cmp(A::e_len(static_cast<C const*>(pa)), A::r_len(static_cast<C const*>(pa)), !s.empty()); }
            for (long ch : chars) {
                cur    = ch;
                rc.cls = intchar_class(ch);
                if (rc.on(F_chr)) {
                    auto w = A::r_chr(static_cast<C const*>(pa), int(ch));
                    auto g = A::e_chr(static_cast<C const*>(pa), int(ch));
                    static_assert(std::is_same_v<decltype(g), C const*>);
                    rc.cmp(off(g, pa), off(w, pa), w != nullptr);
                }
                if (rc.on(F_chr_nc)) {
                    auto w = A::r_chr(static_cast<C const*>(pa), int(ch));
                    auto g = A::e_chr(pa, int(ch));
                    static_assert(std::is_same_v<decltype(g), C*>);
                    rc.cmp(off(g, pa), off(w, pa), w != nullptr);
                }
                if (rc.on(F_rchr)) {
                    auto w = A::r_rchr(static_cast<C const*>(pa), int(ch));
                    auto g = A::e_rchr(static_cast<C const*>(pa), int(ch));
                    static_assert(std::is_same_v<decltype(g), C const*>);
                    rc.cmp(off(g, pa), off(w, pa), w != nullptr);
                }
                if (rc.on(F_rchr_nc)) {
                    auto w = A::r_rchr(static_cast<C const*>(pa), int(ch));
                    auto g = A::e_rchr(pa, int(ch));
                    static_assert(std::is_same_v<decltype(g), C*>);
                    rc.cmp(off(g, pa), off(w, pa), w != nullptr);
                }
            }
        });
        rc.trapped(t);
        if (!blk->intact()) { r.violation("C02", "job:intchar", "source-canary", show(s), "a source string block was written to"); }
    }

    // memchr: unterminated exact-size arrays that hold every byte value (also 0)
    std::vector<std::string> bufs;
    {
        std::string all, rev;
        for (int i = 0; i <= 255; ++i) { all.push_back(char(i)); }
        for (int i = 255; i >= 0; --i) { rev.push_back(char(i)); }
        bufs.push_back(all);
        bufs.push_back(rev);
        bufs.push_back(all + all);
        for (auto const& s : all_strings<char>({'a', char(0), char(0x80), char(0xFF)}, 2)) { bufs.push_back(s); }
    }
    for (auto const& s : bufs) {
        ABlk<C> blk(0, s.size());
        blk.assign(s, false);
        C* const pa = blk.data();
        long cur    = 0;
        std::size_t curn = 0;
        rc.kase     = [&] { return cat("array=", show(s), " ch=", cur, " count=", curn); };
        std::vector<std::size_t> counts{0, 1, s.size() / 2, s.size() - 1, s.size()};
        mc::Trap t = mc::guarded([&] {
            std::size_t last = npos;
            for (std::size_t n : counts) {
                if (n > s.size() || n == last) { continue; }
                last = n;
                curn = n;
                for (long ch : chars) {
                    cur    = ch;
                    rc.cls = intchar_class(ch);
                    if (rc.on(F_mchr)) {
                        auto w = A::r_mchr(pa, ch, n);
                        auto g = A::e_mchr(pa, ch, n);
                        rc.cmp(off(g, pa), off(w, pa), w != nullptr);
                    }
                    if (rc.on(F_mchr_nc)) {
                        auto w = A::r_mchr(pa, ch, n);
                        C* g   = A::e_mchr_nc(pa, ch, n);
                        rc.cmp(off(g, pa), off(w, pa), w != nullptr);
                    }
                }
            }
        });
        rc.trapped(t);
        if (!blk.intact()) { r.violation("C02", "job:intchar", "source-canary", show(s), "a source array block was written to"); }
    }

    // memset: every int, lengths 0..9, at offsets 0 and 1 inside a block that is one element longer
    {
        long cur = 0;
        std::size_t curn = 0, curo = 0;
        rc.kase  = [&] { return cat("offset=", curo, " len=", curn, " ch=", cur); };
        mc::Trap t = mc::guarded([&] {
            for (std::size_t o = 0; o <= 1; ++o) {
                for (std::size_t n = 0; n <= 9; ++n) {
                    for (long ch : chars) {
                        if (!rc.on(F_mset)) { continue; }
                        cur    = ch;
                        curn   = n;
                        curo   = o;
                        rc.cls = intchar_class(ch);
                        ABlk<C> de(0, o + n + 1, 0x11), dw(0, o + n + 1, 0x11);
                        C* ret = A::e_mset(de.data() + o, ch, n);
                        A::r_mset(dw.data() + o, ch, n);
                        rc.cmp_buf(de, dw, ret == de.data() + o, n > 0);
                    }
                }
            }
        });
        rc.trapped(t);
    }
    rc.finish();
    r.count("strings", strs.size() + bufs.size());
    r.sample(cat("intchar/char: strchr/strrchr (const and non-const) on ", strs.size(), " strings (all bytes 1..255 ascending, descending, twice; all of length <= 2 over {a,1,0x80,0xFF}) x ",
        chars.size(), " int characters ([-1024,1023] + {INT_MIN,-2^24,-2^16,2^16,2^24,INT_MAX-255}+{0,1,'a',0x7F,0x80,0xFF})"));
    r.sample(cat("intchar/char: memchr (const and non-const) on ", bufs.size(), " unterminated arrays (all bytes 0..255 ...) x counts {0,1,len/2,len-1,len} x the same characters; memset x lengths 0..9 x offsets 0,1"));
    r.sample("strchr(\"\\x01..\\xff\", 353) == strchr(.., 'a'); strrchr(s, -65536) finds the terminator; memset(p, INT_MIN + 0x80, 3)");
}

// ---------------------------------------------------------------------------------------
// job intchar/wchar_t: wide characters above 0xFFFF, negative, NUL
// ---------------------------------------------------------------------------------------

std::vector<wchar_t> wide_values(bool with_nul)
{
    std::vector<wchar_t> v;
    if (with_nul) { v.push_back(wchar_t(0)); }
    for (long x : {1L, long('a'), 0x7FL, 0x80L, 0xFFL, 0x100L, 0x161L, 0xFFFFL, 0x10000L, 0x10061L, 0x1FFFFL, 0x10FFFFL, 0x110000L, 0x7FFFFF61L, long(WCHAR_MAX),
             -1L, -2L, -128L, -159L /* 0xFFFFFF61 */, -65536L, -65536L + 0x61, long(WCHAR_MIN), long(WCHAR_MIN) + 1, long(WCHAR_MIN) + 0x61}) {
        v.push_back(wchar_t(x));
    }
    return v;
}

std::string wide_class(long ch)
{
    if (ch == 0) { return "ch_nul"; }
    if (ch < 0) { return "ch_negative"; }
    if (ch > 0xFFFF) { return "ch_above_0xFFFF"; }
    if (ch > 0xFF) { return "ch_above_0xFF"; }
    return "general";
}

std::string wide_class(std::wstring const& a, std::wstring const& b)
{
    bool neg = false, big = false;
    for (auto const* s : {&a, &b}) {
        for (wchar_t c : *s) {
            neg = neg || c < 0;
            big = big || c > 0xFFFF;
        }
    }
    return neg ? (big ? "negative_wchar+above_0xFFFF" : "negative_wchar") : big ? "above_0xFFFF" : "general";
}

void sweep_intchar_wide(mc::Reporter& r, int maxLen)
{
    using C = wchar_t;
    using A = Api<C>;
    static_assert(sizeof(wchar_t) == 4 && std::is_signed_v<wchar_t>, "the wide sweeps assume glibc's 32-bit signed wchar_t");
    Rec<C> rc(r);
    auto const chars   = wide_values(true);
    auto const nonzero = wide_values(false);

    auto strs = all_strings<C>(nonzero, maxLen);
    {
        std::wstring all(nonzero.begin(), nonzero.end());
        std::wstring rev(nonzero.rbegin(), nonzero.rend());
        strs.push_back(all);
        strs.push_back(rev);
        strs.push_back(all + all);
    }
    for (auto const& s : strs) {
        for (int tail = 0; tail < 2; ++tail) {
            auto blk    = make_str<C>(s, 0, tail);
            C* const pa = blk->data();
            long cur    = 0;
            rc.kase     = [&] { return cat("str=", show(s), " ch=", cur, tail ? " [\"ap\" follows the terminator]" : ""); };
            mc::Trap t = mc::guarded([&] {
                for (C chw : chars) {
                    long const ch = chw;
                    cur           = ch;
                    rc.cls        = wide_class(ch);
                    if (rc.on(F_chr)) {
                        auto w = A::r_chr(static_cast<C const*>(pa), chw);
                        auto g = A::e_chr(static_cast<C const*>(pa), chw);
                        static_assert(std::is_same_v<decltype(g), C const*>);
                        rc.cmp(off(g, pa), off(w, pa), w != nullptr);
                    }
                    if (rc.on(F_chr_nc)) {
                        auto w = A::r_chr(static_cast<C const*>(pa), chw);
                        auto g = A::e_chr(pa, chw);
                        static_assert(std::is_same_v<decltype(g), C*>);
                        rc.cmp(off(g, pa), off(w, pa), w != nullptr);
                    }
                    if (rc.on(F_rchr)) {
                        auto w = A::r_rchr(static_cast<C const*>(pa), chw);
                        auto g = A::e_rchr(static_cast<C const*>(pa), chw);
                        static_assert(std::is_same_v<decltype(g), C const*>);
                        rc.cmp(off(g, pa), off(w, pa), w != nullptr);
                    }
                    if (rc.on(F_rchr_nc)) {
                        auto w = A::r_rchr(static_cast<C const*>(pa), chw);
                        auto g = A::e_rchr(pa, chw);
                        static_assert(std::is_same_v<decltype(g), C*>);
                        rc.cmp(off(g, pa), off(w, pa), w != nullptr);
                    }
                }
            });
            rc.trapped(t);
            if (!blk->intact()) { r.violation("C02", "job:intchar", "source-canary", show(s), "a source string block was written to"); }
        }
        if (r.deadline_passed()) {
            r.not_exhaustive("deadline");
            break;
        }
    }

    // wmemchr on unterminated arrays (NUL is an ordinary element), wmemset
    auto bufs = all_strings<C>(chars, std::min(maxLen, 2));
    {
        std::wstring all(chars.begin(), chars.end());
        std::wstring rev(chars.rbegin(), chars.rend());
        bufs.push_back(all);
        bufs.push_back(rev);
    }
    for (auto const& s : bufs) {
        ABlk<C> blk(0, s.size());
        blk.assign(s, false);
        C* const pa = blk.data();
        long cur    = 0;
        std::size_t curn = 0;
        rc.kase     = [&] { return cat("array=", show(s), " ch=", cur, " count=", curn); };
        mc::Trap t = mc::guarded([&] {
            for (std::size_t n = 0; n <= s.size(); ++n) {
                if (s.size() > 4 && n != 0 && n != s.size() && n != s.size() - 1) { continue; }
                curn = n;
                for (C chw : chars) {
                    long const ch = chw;
                    cur           = ch;
                    rc.cls        = wide_class(ch);
                    if (rc.on(F_mchr)) {
                        auto w = A::r_mchr(pa, ch, n);
                        auto g = A::e_mchr(pa, ch, n);
                        rc.cmp(off(g, pa), off(w, pa), w != nullptr);
                    }
                    if (rc.on(F_mchr_nc)) {
                        auto w = A::r_mchr(pa, ch, n);
                        C* g   = A::e_mchr_nc(pa, ch, n);
                        rc.cmp(off(g, pa), off(w, pa), w != nullptr);
                    }
                }
            }
        });
        rc.trapped(t);
    }
    {
        long cur = 0;
        std::size_t curn = 0, curo = 0;
        rc.kase  = [&] { return cat("offset=", curo, " len=", curn, " ch=", cur); };
        mc::Trap t = mc::guarded([&] {
            for (std::size_t o = 0; o <= 1; ++o) {
                for (std::size_t n = 0; n <= 9; ++n) {
                    for (C chw : chars) {
                        if (!rc.on(F_mset)) { continue; }
                        long const ch = chw;
                        cur    = ch;
                        curn   = n;
                        curo   = o;
                        rc.cls = wide_class(ch);
                        ABlk<C> de(0, o + n + 1, 0x11), dw(0, o + n + 1, 0x11);
                        C* ret = A::e_mset(de.data() + o, ch, n);
                        A::r_mset(dw.data() + o, ch, n);
                        rc.cmp_buf(de, dw, ret == de.data() + o, n > 0);
                    }
                }
            }
        });
        rc.trapped(t);
    }
    rc.finish();
    r.count("strings", strs.size() + bufs.size());
    r.sample(cat("intchar/wchar_t: wcschr/wcsrchr (const and non-const) on all strings of length <= ", maxLen, " over ", nonzero.size(),
        " wide values {1,a,0x7F,0x80,0xFF,0x100,0x161,0xFFFF,0x10000,0x10061,0x1FFFF,0x10FFFF,0x110000,0x7FFFFF61,WCHAR_MAX,-1,-2,-128,-159,-65536,-65439,WCHAR_MIN,WCHAR_MIN+1,WCHAR_MIN+0x61} (",
        strs.size(), " strings, with and without characters behind the terminator) x the same values and NUL; wmemchr on arrays of length <= 2 incl. NUL x every count; wmemset lengths 0..9"));
    r.sample("wcschr(L\"a\", 0x10061) == nullptr; wcsrchr(L\"\\x10061;a\", L'a') -> 1; wcschr(s, 0) -> terminator; wmemchr({0,-1}, -1, 2) -> 1");
}

// ---------------------------------------------------------------------------------------
// job order/*: comparison order over wide alphabets
// ---------------------------------------------------------------------------------------

template <typename C>
std::string order_class(std::basic_string<C> const& a, std::basic_string<C> const& b)
{
    if constexpr (std::is_same_v<C, char>) {
        bool high = false;
        for (auto const* s : {&a, &b}) {
            for (char c : *s) { high = high || static_cast<unsigned char>(c) >= 0x80; }
        }
        return high ? "highbit" : "general";
    } else {
        return wide_class(a, b);
    }
}

template <typename C>
void sweep_order(mc::Reporter& r, std::vector<std::basic_string<C>> const& strs, std::vector<std::basic_string<C>> const& bufs, char const* what)
{
    using A = Api<C>;
    Rec<C> rc(r);
    std::vector<std::unique_ptr<ABlk<C>>> sb, bb;
    for (auto const& s : strs) { sb.push_back(make_str<C>(s, 0, 0)); }
    for (auto const& s : bufs) {
        bb.push_back(std::make_unique<ABlk<C>>(0, s.size()));
        bb.back()->assign(s, false);
    }
    for (std::size_t ia = 0; ia < strs.size(); ++ia) {
        C const* const pa = sb[ia]->data();
        std::size_t ib    = 0;
        std::size_t curn  = 0;
        rc.kase           = [&] { return cat("lhs=", show(strs[ia]), " rhs=", show(strs[ib]), rc.fid == F_ncmp ? cat(" count=", show_n(curn)) : std::string()); };
        mc::Trap t = mc::guarded([&] {
            for (ib = 0; ib < strs.size(); ++ib) {
                C const* const pb = sb[ib]->data();
                rc.cls            = order_class(strs[ia], strs[ib]);
                if (rc.on(F_cmp)) {
                    int const w = sign(A::r_cmp(pa, pb));
                    rc.cmp(sign(A::e_cmp(pa, pb)), w, w != 0);
                }
                if (rc.on(F_ncmp)) {
                    std::size_t const top = std::max(strs[ia].size(), strs[ib].size()) + 1;
                    for (std::size_t k = 0; k <= top + 1; ++k) {
                        curn        = (k == top + 1) ? npos : k;
                        int const w = sign(A::r_ncmp(pa, pb, curn));
                        rc.cmp(sign(A::e_ncmp(pa, pb, curn)), w, w != 0);
                    }
                }
            }
        });
        rc.trapped(t);
        if (r.deadline_passed()) {
            r.not_exhaustive("deadline");
            break;
        }
    }
    for (std::size_t ia = 0; ia < bufs.size(); ++ia) {
        C const* const pa = bb[ia]->data();
        std::size_t ib    = 0;
        std::size_t curn  = 0;
        rc.kase           = [&] { return cat("unterminated lhs=", show(bufs[ia]), " rhs=", show(bufs[ib]), " count=", curn); };
        mc::Trap t = mc::guarded([&] {
            for (ib = 0; ib < bufs.size(); ++ib) {
                if (!rc.on(F_mcmp)) { continue; }
                C const* const pb = bb[ib]->data();
                rc.cls            = order_class(bufs[ia], bufs[ib]);
                for (std::size_t n = 0; n <= std::min(bufs[ia].size(), bufs[ib].size()); ++n) {
                    curn        = n;
                    int const w = sign(A::r_mcmp(pa, pb, n));
                    rc.cmp(sign(A::e_mcmp(pa, pb, n)), w, w != 0);
                }
            }
        });
        rc.trapped(t);
    }
    rc.finish();
    r.count("strings", strs.size());
    r.count("buffers", bufs.size());
    r.sample(cat("order/", A::tname, ": ", what, "; ", strs.size(), " terminated strings (all ordered pairs: cmp, ncmp with counts 0..max+1 and SIZE_MAX), ", bufs.size(),
        " unterminated arrays (all ordered pairs: ", A::name(F_mcmp), " with every count <= both lengths)"));
}

void order_char(mc::Reporter& r)
{
    std::vector<std::string> strs{std::string()}, bufs{std::string()};
    for (int i = 1; i <= 255; ++i) { strs.push_back(std::string(1, char(i))); }
    for (int i = 0; i <= 255; ++i) { bufs.push_back(std::string(1, char(i))); }
    for (auto const& s : all_strings<char>({char(1), 'a', char(0x7F), char(0x80), char(0xFF)}, 2)) {
        if (s.size() == 2) { strs.push_back(s); }
    }
    for (auto const& s : all_strings<char>({char(0), char(1), 'a', char(0x7F), char(0x80), char(0xFF)}, 2)) {
        if (s.size() == 2) { bufs.push_back(s); }
    }
    sweep_order<char>(r, strs, bufs, "every byte value as a one-character string/array, and all two-character ones over {1,a,0x7F,0x80,0xFF} (arrays: + 0)");
}

void order_wide(mc::Reporter& r)
{
    auto strs = all_strings<wchar_t>(wide_values(false), 2);
    auto bufs = all_strings<wchar_t>(wide_values(true), 2);
    sweep_order<wchar_t>(r, strs, bufs, "all strings/arrays of length <= 2 over 24 wide values between WCHAR_MIN and WCHAR_MAX (0xFF vs 0x100, 0xFFFF vs 0x10000, negative vs positive; arrays: + 0)");
}

// ---------------------------------------------------------------------------------------
// job long/*: a^L with one differing character at every position, several alignments
// ---------------------------------------------------------------------------------------

template <typename C>
struct LongStr {
    std::basic_string<C> s;
    std::string shown;
    // [alignment configuration][0: exact, 1: tail "ap", 2: tail "bq"]
    std::vector<std::array<std::unique_ptr<ABlk<C>>, 3>> blk;
};

template <typename C>
std::vector<LongStr<C>> long_pool(int maxLen, std::vector<C> const& alts, std::vector<std::size_t> const& offs)
{
    std::vector<std::basic_string<C>> all;
    for (int L = 0; L <= maxLen; ++L) {
        all.push_back(std::basic_string<C>(std::size_t(L), C('a')));
        for (C alt : alts) {
            for (int p = 0; p < L; ++p) {
                auto s            = std::basic_string<C>(std::size_t(L), C('a'));
                s[std::size_t(p)] = alt;
                all.push_back(s);
            }
        }
    }
    std::vector<LongStr<C>> out;
    out.reserve(all.size());
    for (auto& s : all) {
        LongStr<C> e;
        e.s     = s;
        e.shown = show(s);
        for (std::size_t k : offs) {
            std::array<std::unique_ptr<ABlk<C>>, 3> a;
            for (int tail = 0; tail < 3; ++tail) { a[std::size_t(tail)] = make_str<C>(s, k, tail); }
            e.blk.push_back(std::move(a));
        }
        out.push_back(std::move(e));
    }
    return out;
}

template <typename C>
void sweep_long(mc::Reporter& r, int maxLen, std::vector<C> alts, bool allCounts, int part, int parts)
{
    using A = Api<C>;
    // alignment offsets of (lhs, rhs) used for the pair functions; the single-string functions use every offset 0..7
    std::vector<std::size_t> const offs{0, 1, 2, 3, 4, 5, 6, 7};
    std::vector<std::pair<std::size_t, std::size_t>> const pairOffs{{0, 0}, {3, 3}, {1, 6}};
    auto const pool = long_pool<C>(maxLen, alts, offs);
    Rec<C> rc(r);

    std::vector<long> chars{long('a'), long('c'), 0};
    for (C alt : alts) { chars.push_back(long(alt)); }
    if constexpr (std::is_same_v<C, char>) {
        chars.push_back(0x100);       // converts to NUL
        chars.push_back(0x100 + 'b'); // converts to 'b'
    } else {
        chars.push_back(0x10000 + 'b'); // must NOT match 'b'
    }

    for (std::size_t ia = 0; ia < pool.size(); ++ia) {
        if (int(ia % std::size_t(parts)) != part) { continue; }
        auto const& SA       = pool[ia];
        std::size_t const la = SA.s.size();
        bool const longA     = la >= 8;

        // ---- one string, every alignment offset, with and without characters behind the terminator
        for (std::size_t ko = 0; ko < offs.size(); ++ko) {
            for (int mode = 0; mode < 2; ++mode) {
                C* const pa = SA.blk[ko][std::size_t(mode)]->data();
                long cur    = 0;
                std::size_t curn = 0;
                rc.cls      = cat(longA ? "len_ge_8" : "len_lt_8", offs[ko] ? "+misaligned" : "");
                std::string const base_cls = rc.cls;
                rc.kase     = [&] {
                    std::string k = cat("str=", SA.shown, " at alignment offset ", offs[ko]);
                    if (rc.fid == F_ncpy) { k += cat(" count=", curn); }
                    if (rc.fid >= F_chr && rc.fid <= F_rchr_nc) { k += cat(" ch=", cur); }
                    if (mode) { k += " [\"ap\" follows the terminator]"; }
                    return k;
                };
                mc::Trap t = mc::guarded([&] {
                    if (rc.on(F_len)) { rc.cmp(A::e_len(pa), A::r_len(pa), la > 0); }
                    for (long ch : chars) {
                        cur = ch;
                        if (rc.on(F_chr)) {
                            auto w = A::r_chr(static_cast<C const*>(pa), int(ch));
                            auto g = A::e_chr(static_cast<C const*>(pa), int(ch));
                            rc.cmp(off(g, pa), off(w, pa), w != nullptr);
                        }
                        if (rc.on(F_chr_nc)) {
                            auto w = A::r_chr(static_cast<C const*>(pa), int(ch));
                            C* g   = A::e_chr(pa, int(ch));
                            rc.cmp(off(g, pa), off(w, pa), w != nullptr);
                        }
                        if (rc.on(F_rchr)) {
                            auto w = A::r_rchr(static_cast<C const*>(pa), int(ch));
                            auto g = A::e_rchr(static_cast<C const*>(pa), int(ch));
                            rc.cmp(off(g, pa), off(w, pa), w != nullptr);
                        }
                        if (rc.on(F_rchr_nc)) {
                            auto w = A::r_rchr(static_cast<C const*>(pa), int(ch));
                            C* g   = A::e_rchr(pa, int(ch));
                            rc.cmp(off(g, pa), off(w, pa), w != nullptr);
                        }
                    }
                    std::size_t const kd = (offs[ko] + 3) % 8; // destination at another alignment than the source
                    if (rc.on(F_cpy)) {
                        ABlk<C> de(kd, la + 1), dw(kd, la + 1);
                        C* ret = A::e_cpy(de.data(), static_cast<C const*>(pa));
                        A::r_cpy(dw.data(), static_cast<C const*>(pa));
                        rc.cmp_buf(de, dw, ret == de.data(), la > 0);
                    }
                    if (rc.on(F_ncpy)) {
                        // C: exactly `count` characters are written: the string, then zero padding
                        std::vector<std::size_t> counts;
                        for (std::size_t n = 0; n <= la + 9; ++n) { counts.push_back(n); }
                        counts.push_back(la + 64);
                        counts.push_back(1000);
                        for (std::size_t n : counts) {
                            curn   = n;
                            rc.cls = n > la ? cat(base_cls, "+count_gt_srclen") : base_cls;
                            ABlk<C> de(kd, n), dw(kd, n);
                            C* ret = A::e_ncpy(de.data(), static_cast<C const*>(pa), n);
                            A::r_ncpy(dw.data(), static_cast<C const*>(pa), n);
                            rc.cmp_buf(de, dw, ret == de.data(), n > 0);
                        }
                        rc.cls = base_cls;
                    }
                });
                rc.trapped(t);
            }
        }

        // ---- ordered pairs
        static std::string const pairCls[4] = {"len_lt_8", "len_lt_8+misaligned", "len_ge_8", "len_ge_8+misaligned"};
        std::size_t ib = 0, pc = 0, curn = 0;
        int mode = 0;
        rc.kase = [&] {
            std::string k = cat("lhs=", SA.shown, " rhs=", pool[ib].shown, " at alignment offsets ", pairOffs[pc].first, ",", pairOffs[pc].second);
            if (rc.fid == F_ncmp || rc.fid == F_ncat) { k += cat(" count=", show_n(curn)); }
            if (mode) { k += " [\"ap\" follows the terminator of lhs, \"bq\" that of rhs]"; }
            return k;
        };
        for (ib = 0; ib < pool.size(); ++ib) {
            auto const& SB       = pool[ib];
            std::size_t const lb = SB.s.size();
            for (pc = 0; pc < pairOffs.size(); ++pc) {
                for (mode = 0; mode < 2; ++mode) {
                    C* const pa = SA.blk[pairOffs[pc].first][mode ? 1 : 0]->data();
                    C* const pb = SB.blk[pairOffs[pc].second][mode ? 2 : 0]->data();
                    rc.cls = pairCls[((longA || lb >= 8) ? 2 : 0) + (pc ? 1 : 0)];
                    mc::Trap t = mc::guarded([&] {
                        C const* const ca = pa;
                        C const* const cb = pb;
                        if (rc.on(F_cmp)) {
                            int const w = sign(A::r_cmp(ca, cb));
                            rc.cmp(sign(A::e_cmp(ca, cb)), w, w != 0);
                        }
                        if (rc.on(F_ncmp)) {
                            std::size_t const top = std::max(la, lb) + 2;
                            for (std::size_t k = 0; k <= top + 1; ++k) {
                                std::size_t const n = (k == top + 1) ? npos : k;
                                if (!allCounts && pc != 0 && n != npos && n + 3 < std::min(la, lb)) { continue; } // misaligned passes: the counts around the shorter length and beyond
                                curn        = n;
                                int const w = sign(A::r_ncmp(ca, cb, n));
                                rc.cmp(sign(A::e_ncmp(ca, cb, n)), w, w != 0);
                            }
                        }
                        if (rc.on(F_spn)) {
                            auto const w = A::r_spn(ca, cb);
                            rc.cmp(A::e_spn(ca, cb), w, w > 0);
                        }
                        if (rc.on(F_cspn)) {
                            auto const w = A::r_cspn(ca, cb);
                            rc.cmp(A::e_cspn(ca, cb), w, w > 0);
                        }
                        if (rc.on(F_pbrk)) {
                            auto w = A::r_pbrk(ca, cb);
                            auto g = A::e_pbrk(ca, cb);
                            static_assert(std::is_same_v<decltype(g), C const*>);
                            rc.cmp(off(g, ca), off(w, ca), w != nullptr);
                        }
                        if (rc.on(F_pbrk_nc)) {
                            auto w = A::r_pbrk(ca, cb);
                            auto g = A::e_pbrk(pa, pb);
                            static_assert(std::is_same_v<decltype(g), C*>);
                            rc.cmp(off(g, ca), off(w, ca), w != nullptr);
                        }
                        if (rc.on(F_str)) {
                            auto w = A::r_str(ca, cb);
                            auto g = A::e_str(ca, cb);
                            static_assert(std::is_same_v<decltype(g), C const*>);
                            rc.cmp(off(g, ca), off(w, ca), w != nullptr && lb > 0);
                        }
                        if (rc.on(F_str_nc)) {
                            auto w = A::r_str(ca, cb);
                            auto g = A::e_str(pa, pb);
                            static_assert(std::is_same_v<decltype(g), C*>);
                            rc.cmp(off(g, ca), off(w, ca), w != nullptr && lb > 0);
                        }
                        if (mode == 0 && rc.on(F_cat)) {
                            std::size_t const kd = pairOffs[pc].first;
                            ABlk<C> de(kd, la + lb + 1), dw(kd, la + lb + 1);
                            std::copy(ca, ca + la + 1, de.data());
                            std::copy(ca, ca + la + 1, dw.data());
                            C* ret = A::e_cat(de.data(), cb);
                            A::r_cat(dw.data(), cb);
                            rc.cmp_buf(de, dw, ret == de.data(), lb > 0);
                        }
                        if (mode == 0 && rc.on(F_ncat)) {
                            std::size_t const kd = pairOffs[pc].first;
                            for (std::size_t n : {std::size_t(0), std::size_t(1), lb > 0 ? lb - 1 : 0, lb, lb + 1, npos}) {
                                curn = n;
                                std::size_t const total = la + std::min(n, lb) + 1;
                                ABlk<C> de(kd, total), dw(kd, total);
                                std::copy(ca, ca + la + 1, de.data());
                                std::copy(ca, ca + la + 1, dw.data());
                                C* ret = A::e_ncat(de.data(), cb, n);
                                A::r_ncat(dw.data(), cb, n);
                                rc.cmp_buf(de, dw, ret == de.data(), lb > 0 && n > 0);
                            }
                        }
                    });
                    rc.trapped(t);
                }
            }
        }
        for (auto const& a : SA.blk) {
            for (auto const& b : a) {
                if (!b->intact()) { r.violation("C02", "job:long", "source-canary", SA.shown, "a source string block was written to"); }
            }
        }
        if (r.wants_sample() && la == std::size_t(maxLen)) { r.sample(cat(A::tname, " lhs=", SA.shown, " x all ", pool.size(), " rhs x 3 alignment configurations")); }
        if (r.deadline_passed()) {
            r.not_exhaustive("deadline");
            break;
        }
    }
    rc.finish();
    r.count("strings", pool.size());
    r.sample(cat("long/", A::tname, ": a^L for L in 0..", maxLen, " and the same with one character replaced at every position by each of ", mc::show_chars(alts.begin(), alts.end()),
        " (", pool.size(), " strings); single-string functions at alignment offsets 0..7, strncpy counts 0..len+9, len+64, 1000; all ordered pairs at offsets (0,0),(3,3),(1,6); part ",
        part + 1, "/", parts));
}

// ---------------------------------------------------------------------------------------
// job periodic/*: strstr / wcsstr with needles of length 0..6 in haystacks made of repeated prefixes
// ---------------------------------------------------------------------------------------

template <typename C>
void sweep_periodic(mc::Reporter& r, int maxHay, int maxNeedle)
{
    using A = Api<C>;
    Rec<C> rc(r);
    std::vector<std::basic_string<C>> hays;
    {
        std::set<std::basic_string<C>> seen;
        for (auto const& pre : all_strings<C>({C('a'), C('b')}, 4)) {
            if (pre.empty()) { continue; }
            for (int H = 0; H <= maxHay; ++H) {
                std::basic_string<C> h;
                for (int i = 0; i < H; ++i) { h.push_back(pre[std::size_t(i) % pre.size()]); }
                std::vector<std::basic_string<C>> vs{h};
                if (H > 0) {
                    auto f   = h; // the period is broken in the last character
                    f.back() = f.back() == C('a') ? C('b') : C('a');
                    vs.push_back(f);
                    auto g = h; // ... and in the first
                    g[0]   = g[0] == C('a') ? C('b') : C('a');
                    vs.push_back(g);
                }
                for (auto const& v : vs) {
                    if (seen.insert(v).second) { hays.push_back(v); }
                }
            }
        }
    }
    auto const needles = all_strings<C>({C('a'), C('b')}, maxNeedle);
    std::vector<std::array<std::unique_ptr<ABlk<C>>, 2>> nb;
    for (auto const& n : needles) { nb.push_back({make_str<C>(n, 0, 0), make_str<C>(n, 5, 2)}); }
    for (auto const& h : hays) {
        for (int mode = 0; mode < 2; ++mode) {
            auto hb     = make_str<C>(h, mode ? 3 : 0, mode ? 1 : 0);
            C* const pa = hb->data();
            std::size_t in = 0;
            rc.kase = [&] { return cat("haystack=", show(h), " needle=", show(needles[in]), mode ? " [misaligned, characters follow both terminators]" : ""); };
            mc::Trap t = mc::guarded([&] {
                for (in = 0; in < needles.size(); ++in) {
                    C* const pb          = nb[in][std::size_t(mode)]->data();
                    std::size_t const lb = needles[in].size();
                    rc.cls               = lb == 0 ? (h.empty() ? "needle_empty+hay_empty" : "needle_empty") : lb > h.size() ? "needle_longer" : "periodic";
                    if (rc.on(F_str)) {
                        auto w = A::r_str(static_cast<C const*>(pa), static_cast<C const*>(pb));
                        auto g = A::e_str(static_cast<C const*>(pa), static_cast<C const*>(pb));
                        rc.cmp(off(g, pa), off(w, pa), w != nullptr && lb > 0);
                    }
                    if (rc.on(F_str_nc)) {
                        auto w = A::r_str(static_cast<C const*>(pa), static_cast<C const*>(pb));
                        C* g   = A::e_str(pa, pb);
                        rc.cmp(off(g, pa), off(w, pa), w != nullptr && lb > 0);
                    }
                }
            });
            rc.trapped(t);
            if (!hb->intact()) { r.violation("C02", "job:periodic", "source-canary", show(h), "a haystack block was written to"); }
        }
        if (r.wants_sample() && h.size() == std::size_t(maxHay)) { r.sample(cat(A::tname, " haystack=", show(h), " x ", needles.size(), " needles")); }
        if (r.deadline_passed()) {
            r.not_exhaustive("deadline");
            break;
        }
    }
    rc.finish();
    r.count("strings", hays.size() + needles.size());
    r.sample(cat("periodic/", A::tname, ": ", hays.size(), " haystacks (every prefix of length 1..4 over {a,b} repeated to length 0..", maxHay,
        ", also with the first / the last character flipped) x all ", needles.size(), " needles of length 0..", maxNeedle, " over {a,b}, both overloads"));
}

// ---------------------------------------------------------------------------------------
// job align/*: mem* / wmem* on exact-size unterminated blocks at every alignment offset
// ---------------------------------------------------------------------------------------

template <typename C>
std::basic_string<C> pattern(std::size_t n, int variant)
{
    // variant 0: all distinct non-zero values (some with the top bit set); variant 1: a NUL in the middle
    std::basic_string<C> s;
    for (std::size_t i = 0; i < n; ++i) {
        C c = C('A' + long(i));
        if (i % 5 == 3) { c = std::is_same_v<C, char> ? C(0x80 + long(i)) : C(long(WCHAR_MIN) + long(i)); }
        s.push_back(c);
    }
    if (variant == 1 && n > 0) { s[n / 2] = C(0); }
    return s;
}

template <typename C>
void sweep_align(mc::Reporter& r, int maxLen, int moveLen)
{
    using A = Api<C>;
    Rec<C> rc(r);
    C const absent = C('!');
    for (std::size_t n = 0; n <= std::size_t(maxLen); ++n) {
        for (std::size_t ks = 0; ks < 8; ++ks) {
            for (int variant = 0; variant < 2; ++variant) {
                auto const s = pattern<C>(n, variant);
                ABlk<C> src(ks, n);
                src.assign(s, false);
                C* const ps = src.data();
                std::size_t kd = 0, p = 0;
                long cur = 0;
                std::string const nul = variant ? "+nul_inside" : "";
                rc.kase = [&] {
                    std::string k = cat("unterminated array=", show(s), " (", n, " elements) at alignment offset ", ks);
                    if (rc.fid == F_mcpy || rc.fid == F_mmove || rc.fid == F_mset) { k += cat(" destination at alignment offset ", kd); }
                    if (rc.fid == F_mchr || rc.fid == F_mchr_nc) { k += cat(" ch=", cur); }
                    if (rc.fid == F_mcmp) { k += cat(" rhs: a copy at alignment offset ", kd, p < n ? cat(" with element ", p, " replaced by ", cur) : std::string(" (equal)")); }
                    if (rc.fid != F_mset) { k += cat(" count=", n); }
                    return k;
                };
                mc::Trap t = mc::guarded([&] {
                    // memchr: every element (first occurrence), an absent character, NUL
                    rc.cls = cat(ks ? "misaligned" : "aligned", nul);
                    std::vector<long> chars{long(absent), 0};
                    for (C c : s) { chars.push_back(long(c)); }
                    for (long ch : chars) {
                        cur = ch;
                        if (rc.on(F_mchr)) {
                            auto w = A::r_mchr(ps, ch, n);
                            auto g = A::e_mchr(ps, ch, n);
                            rc.cmp(off(g, ps), off(w, ps), w != nullptr);
                        }
                        if (rc.on(F_mchr_nc)) {
                            auto w = A::r_mchr(ps, ch, n);
                            C* g   = A::e_mchr_nc(ps, ch, n);
                            rc.cmp(off(g, ps), off(w, ps), w != nullptr);
                        }
                    }
                    for (kd = 0; kd < 8; ++kd) {
                        rc.cls = cat((ks || kd) ? "misaligned" : "aligned", nul);
                        if (rc.on(F_mcpy)) {
                            ABlk<C> de(kd, n), dw(kd, n);
                            C* ret = A::e_mcpy(de.data(), ps, n);
                            A::r_mcpy(dw.data(), ps, n);
                            rc.cmp_buf(de, dw, ret == de.data(), n > 0);
                        }
                        if (rc.on(F_mmove)) {
                            ABlk<C> de(kd, n), dw(kd, n);
                            C* ret = A::e_mmove(de.data(), ps, n);
                            A::r_mmove(dw.data(), ps, n);
                            rc.cmp_buf(de, dw, ret == de.data(), n > 0);
                        }
                        if (variant == 0 && ks < 2 && rc.on(F_mset)) {
                            for (long ch : {long('z'), 0L, long(std::is_same_v<C, char> ? 0x1FF : 0x10FFFF), -1L}) {
                                cur = ch;
                                ABlk<C> de(kd, n, 0x11), dw(kd, n, 0x11);
                                C* ret = A::e_mset(de.data(), ch, n);
                                A::r_mset(dw.data(), ch, n);
                                rc.cmp_buf(de, dw, ret == de.data(), n > 0);
                            }
                        }
                        if (rc.on(F_mcmp)) {
                            // rhs: an exact-size copy, equal or differing in exactly one element (smaller / larger / top bit)
                            ABlk<C> rhs(kd, n);
                            for (p = 0; p <= n; ++p) {
                                std::vector<long> reps;
                                if (p < n) {
                                    reps = {long(s[p]) + 1, long(s[p]) - 1, std::is_same_v<C, char> ? long(s[p]) ^ 0x80 : long(s[p]) ^ long(WCHAR_MIN), 0};
                                } else {
                                    reps = {0};
                                }
                                for (long rep : reps) {
                                    rhs.assign(s, false);
                                    if (p < n) {
                                        if (C(rep) == s[p]) { continue; }
                                        rhs.data()[p] = C(rep);
                                    }
                                    cur         = long(C(rep));
                                    int const w = sign(A::r_mcmp(ps, rhs.data(), n));
                                    rc.cmp(sign(A::e_mcmp(ps, rhs.data(), n)), w, w != 0);
                                    int const w2 = sign(A::r_mcmp(rhs.data(), ps, n));
                                    rc.cmp(sign(A::e_mcmp(rhs.data(), ps, n)), w2, w2 != 0);
                                }
                            }
                            p = n;
                        }
                    }
                });
                rc.trapped(t);
                if (!src.intact()) { r.violation("C02", "job:align", "source-canary", show(s), "a source block was written to"); }
            }
        }
        if (r.deadline_passed()) {
            r.not_exhaustive("deadline");
            break;
        }
    }

    // overlapping memmove (and memcpy on the disjoint tuples) inside one block of `moveLen` elements whose
    // start sits at every alignment offset; the block ends with the farther of the two ranges
    for (std::size_t k = 0; k < 8; ++k) {
        for (int variant = 0; variant < 2; ++variant) {
            auto const B = pattern<C>(std::size_t(moveLen), variant);
            std::size_t n = 0, d = 0, s = 0;
            rc.kase = [&] { return cat("buffer=", show(B), " at alignment offset ", k, " dst_off=", d, " src_off=", s, " count=", n); };
            mc::Trap t = mc::guarded([&] {
                for (n = 0; n <= std::size_t(moveLen); ++n) {
                    for (d = 0; d + n <= std::size_t(moveLen); ++d) {
                        for (s = 0; s + n <= std::size_t(moveLen); ++s) {
                            std::size_t const total = std::max(d, s) + n;
                            std::string c;
                            if (n == 0) { c = "count_zero"; }
                            else if (s == d) { c = "same"; }
                            else if (d > s && d < s + n) { c = "overlap_dst_after_src"; }
                            else if (s > d && s < d + n) { c = "overlap_dst_before_src"; }
                            else { c = "disjoint"; }
                            rc.cls = cat(c, k ? "+misaligned" : "", variant ? "+nul_inside" : "");
                            if (rc.on(F_mmove)) {
                                ABlk<C> de(k, total), dw(k, total);
                                std::copy(B.begin(), B.begin() + long(total), de.data());
                                std::copy(B.begin(), B.begin() + long(total), dw.data());
                                C* ret = A::e_mmove(de.data() + d, de.data() + s, n);
                                A::r_mmove(dw.data() + d, dw.data() + s, n);
                                rc.cmp_buf(de, dw, ret == de.data() + d, n > 0 && d != s);
                            }
                            bool const disjoint = (d + n <= s) || (s + n <= d);
                            if (disjoint && rc.on(F_mcpy)) {
                                ABlk<C> de(k, total), dw(k, total);
                                std::copy(B.begin(), B.begin() + long(total), de.data());
                                std::copy(B.begin(), B.begin() + long(total), dw.data());
                                C* ret = A::e_mcpy(de.data() + d, de.data() + s, n);
                                A::r_mcpy(dw.data() + d, dw.data() + s, n);
                                rc.cmp_buf(de, dw, ret == de.data() + d, n > 0);
                            }
                        }
                    }
                }
            });
            rc.trapped(t);
        }
    }
    rc.finish();
    r.sample(cat("align/", A::tname, ": lengths 0..", maxLen, " x source alignment offset 0..7 x destination/rhs offset 0..7 x {distinct values, NUL in the middle}: ", A::name(F_mcpy), ", ",
        A::name(F_mmove), ", ", A::name(F_mset), ", ", A::name(F_mcmp), " (equal + one element changed at every position, both argument orders), ", A::name(F_mchr),
        " (every element, absent, NUL); overlapping ", A::name(F_mmove), ": every (dst,src,count) inside ", moveLen, " elements x block alignment 0..7"));
}

// ---------------------------------------------------------------------------------------
// job big/*: lengths around 2^8 and 2^16 (counters narrower than size_t)
// ---------------------------------------------------------------------------------------

template <typename C>
void sweep_big(mc::Reporter& r)
{
    using A = Api<C>;
    Rec<C> rc(r);
    std::vector<std::size_t> const lens{254, 255, 256, 257, 511, 512, 513, 65534, 65535, 65536, 65537, 70001};
    for (std::size_t L : lens) {
        // a^(L-1) b ; the same with the last character c ; the needle "ab"
        std::basic_string<C> s(L, C('a'));
        s[L - 1] = C('b');
        auto t2  = s;
        t2[L - 1] = C('c');
        auto sb  = make_str<C>(s, 1, 0);
        auto tb  = make_str<C>(t2, 2, 0);
        auto ab  = make_str<C>(std::basic_string<C>{C('a'), C('b')}, 0, 0);
        auto oa  = make_str<C>(std::basic_string<C>{C('a')}, 0, 0);
        auto ob  = make_str<C>(std::basic_string<C>{C('b')}, 0, 0);
        C* const ps = sb->data();
        C* const pt = tb->data();
        rc.cls  = L >= 65535 ? "len_ge_65535" : "len_ge_254";
        rc.kase = [&] { return cat("str= a^", L - 1, " b (length ", L, "); second operand where needed: a^", L - 1, " c, \"ab\", \"a\", \"b\"; counts = ", L, " or ", L + 1); };
        mc::Trap t = mc::guarded([&] {
            C const* const cs = ps;
            C const* const ct = pt;
            if (rc.on(F_len)) { rc.cmp(A::e_len(cs), A::r_len(cs), true); }
            if (rc.on(F_chr)) { rc.cmp(off(A::e_chr(cs, int('b')), cs), off(A::r_chr(cs, int('b')), cs), true); }
            if (rc.on(F_chr)) { rc.cmp(off(A::e_chr(cs, 0), cs), off(A::r_chr(cs, 0), cs), true); }
            if (rc.on(F_chr_nc)) { rc.cmp(off(A::e_chr(ps, int('b')), cs), off(A::r_chr(cs, int('b')), cs), true); }
            if (rc.on(F_rchr)) { rc.cmp(off(A::e_rchr(cs, int('a')), cs), off(A::r_rchr(cs, int('a')), cs), true); }
            if (rc.on(F_rchr)) { rc.cmp(off(A::e_rchr(cs, 0), cs), off(A::r_rchr(cs, 0), cs), true); }
            if (rc.on(F_rchr_nc)) { rc.cmp(off(A::e_rchr(ps, int('a')), cs), off(A::r_rchr(cs, int('a')), cs), true); }
            if (rc.on(F_cmp)) { rc.cmp(sign(A::e_cmp(cs, ct)), sign(A::r_cmp(cs, ct)), true); }
            if (rc.on(F_cmp)) { rc.cmp(sign(A::e_cmp(ct, cs)), sign(A::r_cmp(ct, cs)), true); }
            for (std::size_t n : {L - 1, L, L + 1, npos}) {
                if (rc.on(F_ncmp)) { rc.cmp(sign(A::e_ncmp(cs, ct, n)), sign(A::r_ncmp(cs, ct, n)), n >= L); }
            }
            if (rc.on(F_spn)) { rc.cmp(A::e_spn(cs, static_cast<C const*>(oa->data())), A::r_spn(cs, static_cast<C const*>(oa->data())), true); }
            if (rc.on(F_cspn)) { rc.cmp(A::e_cspn(cs, static_cast<C const*>(ob->data())), A::r_cspn(cs, static_cast<C const*>(ob->data())), true); }
            if (rc.on(F_pbrk)) { rc.cmp(off(A::e_pbrk(cs, static_cast<C const*>(ob->data())), cs), off(A::r_pbrk(cs, static_cast<C const*>(ob->data())), cs), true); }
            if (rc.on(F_pbrk_nc)) { rc.cmp(off(A::e_pbrk(ps, ob->data()), cs), off(A::r_pbrk(cs, static_cast<C const*>(ob->data())), cs), true); }
            if (rc.on(F_str)) { rc.cmp(off(A::e_str(cs, static_cast<C const*>(ab->data())), cs), off(A::r_str(cs, static_cast<C const*>(ab->data())), cs), true); }
            if (rc.on(F_str_nc)) { rc.cmp(off(A::e_str(ps, ab->data()), cs), off(A::r_str(cs, static_cast<C const*>(ab->data())), cs), true); }
            if (rc.on(F_mchr)) { rc.cmp(off(A::e_mchr(cs, long('b'), L), cs), off(A::r_mchr(cs, long('b'), L), cs), true); }
            if (rc.on(F_mchr)) { rc.cmp(off(A::e_mchr(cs, long('c'), L), cs), off(A::r_mchr(cs, long('c'), L), cs), false); }
            if (rc.on(F_mchr_nc)) { rc.cmp(off(A::e_mchr_nc(ps, long('b'), L), cs), off(A::r_mchr(cs, long('b'), L), cs), true); }
            if (rc.on(F_mcmp)) { rc.cmp(sign(A::e_mcmp(cs, ct, L)), sign(A::r_mcmp(cs, ct, L)), true); }
            if (rc.on(F_mcmp)) { rc.cmp(sign(A::e_mcmp(cs, ct, L - 1)), sign(A::r_mcmp(cs, ct, L - 1)), false); }
            if (rc.on(F_cpy)) {
                ABlk<C> de(3, L + 1), dw(3, L + 1);
                C* ret = A::e_cpy(de.data(), cs);
                A::r_cpy(dw.data(), cs);
                rc.cmp_buf(de, dw, ret == de.data(), true);
            }
            for (std::size_t n : {L - 1, L, L + 1, L + 300}) {
                if (!rc.on(F_ncpy)) { continue; }
                ABlk<C> de(3, n), dw(3, n);
                C* ret = A::e_ncpy(de.data(), cs, n);
                A::r_ncpy(dw.data(), cs, n);
                rc.cmp_buf(de, dw, ret == de.data(), true);
            }
            if (rc.on(F_cat)) {
                ABlk<C> de(0, 2 * L + 1), dw(0, 2 * L + 1);
                std::copy(cs, cs + L + 1, de.data());
                std::copy(cs, cs + L + 1, dw.data());
                C* ret = A::e_cat(de.data(), ct);
                A::r_cat(dw.data(), ct);
                rc.cmp_buf(de, dw, ret == de.data(), true);
            }
            for (std::size_t n : {L - 1, L, npos}) {
                if (!rc.on(F_ncat)) { continue; }
                std::size_t const total = L + std::min(n, L) + 1;
                ABlk<C> de(0, total), dw(0, total);
                std::copy(cs, cs + L + 1, de.data());
                std::copy(cs, cs + L + 1, dw.data());
                C* ret = A::e_ncat(de.data(), ct, n);
                A::r_ncat(dw.data(), ct, n);
                rc.cmp_buf(de, dw, ret == de.data(), true);
            }
            if (rc.on(F_mcpy)) {
                ABlk<C> de(5, L), dw(5, L);
                C* ret = A::e_mcpy(de.data(), cs, L);
                A::r_mcpy(dw.data(), cs, L);
                rc.cmp_buf(de, dw, ret == de.data(), true);
            }
            if (rc.on(F_mset)) {
                ABlk<C> de(5, L, 0x11), dw(5, L, 0x11);
                C* ret = A::e_mset(de.data(), long('z'), L);
                A::r_mset(dw.data(), long('z'), L);
                rc.cmp_buf(de, dw, ret == de.data(), true);
            }
            for (int dir = 0; dir < 2; ++dir) {
                // overlapping by all but one element, both directions; the buffer counts 0,1,2,... so that a wrong direction shows
                if (!rc.on(F_mmove)) { continue; }
                ABlk<C> de(0, L + 1), dw(0, L + 1);
                for (std::size_t i = 0; i <= L; ++i) { de.data()[i] = dw.data()[i] = C(1 + i % 100); }
                C* ret = A::e_mmove(de.data() + dir, de.data() + (1 - dir), L);
                A::r_mmove(dw.data() + dir, dw.data() + (1 - dir), L);
                rc.cmp_buf(de, dw, ret == de.data() + dir, true);
            }
        });
        rc.trapped(t);
        if (!sb->intact() || !tb->intact()) { r.violation("C02", "job:big", "source-canary", cat("length ", L), "a source string block was written to"); }
    }
    rc.finish();
    r.sample(cat("big/", A::tname, ": a^(L-1) b for L in {254,255,256,257,511,512,513,65534,65535,65536,65537,70001}: every function of the family once or a few times (counts L-1, L, L+1, SIZE_MAX)"));
}

} // namespace

int main(int argc, char** argv)
{
    std::setlocale(LC_ALL, "C");
    mc::Main m(argc, argv);
    std::vector<std::string> const both{"quick", "thorough"};
    std::vector<std::string> const q{"quick"};
    std::vector<std::string> const th{"thorough"};

    m.job("intchar/char", both, [](mc::Reporter& r) { sweep_intchar_narrow(r); });
    m.job("intchar/wchar_t/len2", q, [](mc::Reporter& r) { sweep_intchar_wide(r, 2); });
    m.job("intchar/wchar_t/len3", th, [](mc::Reporter& r) { sweep_intchar_wide(r, 3); });
    m.job("order/char", both, [](mc::Reporter& r) { order_char(r); });
    m.job("order/wchar_t", both, [](mc::Reporter& r) { order_wide(r); });

    for (int p = 0; p < 2; ++p) {
        m.job(cat("long/char/len17/part", p), q, [p](mc::Reporter& r) { sweep_long<char>(r, 17, {'b', char(0x80)}, false, p, 2); });
        m.job(cat("long/wchar_t/len17/part", p), q, [p](mc::Reporter& r) { sweep_long<wchar_t>(r, 17, {L'b', WCHAR_MIN}, false, p, 2); });
    }
    for (int p = 0; p < 8; ++p) {
        m.job(cat("long/char/len33/part", p), th, [p](mc::Reporter& r) { sweep_long<char>(r, 33, {'b', char(0x80)}, true, p, 8); });
        m.job(cat("long/wchar_t/len33/part", p), th, [p](mc::Reporter& r) { sweep_long<wchar_t>(r, 33, {L'b', WCHAR_MIN}, true, p, 8); });
    }
    m.job("big/char", both, [](mc::Reporter& r) { sweep_big<char>(r); });
    m.job("big/wchar_t", both, [](mc::Reporter& r) { sweep_big<wchar_t>(r); });
    m.job("periodic/char", both, [](mc::Reporter& r) { sweep_periodic<char>(r, r.thorough() ? 24 : 16, 6); });
    m.job("periodic/wchar_t", both, [](mc::Reporter& r) { sweep_periodic<wchar_t>(r, r.thorough() ? 24 : 16, 6); });
    m.job("align/char", both, [](mc::Reporter& r) { sweep_align<char>(r, r.thorough() ? 40 : 24, r.thorough() ? 20 : 12); });
    m.job("align/wchar_t", both, [](mc::Reporter& r) { sweep_align<wchar_t>(r, r.thorough() ? 40 : 24, r.thorough() ? 20 : 12); });
    return m.run();
}
