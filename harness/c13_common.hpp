// Shared machinery of the C13 harnesses (engine E4, constant-evaluation replay).
//
// A *kernel* K describes one library call site over an explicitly enumerated input table:
//
//     struct K {
//         using In = ...;  using R = ...;            // trivially copyable; R arithmetic or std::array of it
//         static constexpr std::size_t N = ...;      // table size
//         static std::string subject();              // API-level call site
//         static constexpr In   in(std::size_t i);   // i-th input tuple (deterministic)
//         static constexpr bool valid(In const&);    // inside the documented domain?
//         static constexpr R    call(In const&);     // the tetl call(s); same code for both executions
//         static std::string    cls(In const&);      // argument class (predicate over the input only)
//         static std::string    show(In const&);     // replayable case text
//         static bool           nontrivial(In const&);
//     };
//
// c13::table<K> is a constexpr object: the compiler's abstract machine evaluates call(in(i)) for
// every valid i.  "Constant evaluation succeeds" is decided per entry without breaking the build:
// a range [lo,hi) of the table is evaluated inside an unevaluated requires-expression
// (`typename std::bool_constant<(run_range<K>(lo,hi), true)>`); a range that is not a constant
// expression is bisected down to single entries, which are then flagged ok=false.
// c13::run_kernel<K>() re-executes every entry at run time from volatile-laundered arguments
// (so is_constant_evaluated() is false and the optimiser cannot fold) and compares bit patterns
// (all NaNs are one value).
#pragma once

#include "mc.hpp"

#include <array>
#include <bit>
#include <cstdint>
#include <cstring>
#include <limits>
#include <string>
#include <type_traits>
#include <utility>

namespace c13 {

using u8  = std::uint8_t;
using u16 = std::uint16_t;
using u32 = std::uint32_t;
using u64 = std::uint64_t;
using i8  = std::int8_t;
using i16 = std::int16_t;
using i32 = std::int32_t;
using i64 = std::int64_t;

// ---------------------------------------------------------------------------------------
// laundering: the value travels through volatile bytes, so nothing about it is known to the
// optimiser and no call on it is manifestly constant-evaluated
// ---------------------------------------------------------------------------------------
template <typename T>
[[gnu::noinline]] T launder(T const& v)
{
    static_assert(std::is_trivially_copyable_v<T>);
    volatile unsigned char buf[sizeof(T)];
    auto const* s = reinterpret_cast<unsigned char const*>(&v);
    for (std::size_t i = 0; i < sizeof(T); ++i) { buf[i] = s[i]; }
    T out{};
    auto* d = reinterpret_cast<unsigned char*>(&out);
    for (std::size_t i = 0; i < sizeof(T); ++i) { d[i] = buf[i]; }
    return out;
}

// ---------------------------------------------------------------------------------------
// result comparison / rendering
// ---------------------------------------------------------------------------------------
template <typename T>
inline constexpr bool is_std_array = false;
template <typename T, std::size_t N>
inline constexpr bool is_std_array<std::array<T, N>> = true;

template <typename T>
constexpr int value_bytes()
{
    if constexpr (std::is_same_v<T, long double>) {
        return 10;
    } else {
        return int(sizeof(T));
    }
}

template <typename T>
bool same(T const& a, T const& b)
{
    if constexpr (is_std_array<T>) {
        for (std::size_t i = 0; i < a.size(); ++i) {
            if (!same(a[i], b[i])) { return false; }
        }
        return true;
    } else if constexpr (std::is_floating_point_v<T>) {
        if (a != a || b != b) { return (a != a) && (b != b); }
        return std::memcmp(&a, &b, value_bytes<T>()) == 0;
    } else {
        return a == b;
    }
}

inline std::string show_val(float v)
{
    char b[64];
    std::snprintf(b, sizeof b, "%a(0x%08x)", double(v), std::bit_cast<u32>(v));
    return b;
}
inline std::string show_val(double v)
{
    char b[80];
    std::snprintf(b, sizeof b, "%a(0x%016llx)", v, static_cast<unsigned long long>(std::bit_cast<u64>(v)));
    return b;
}
inline std::string show_val(long double v)
{
    char b[80];
    std::snprintf(b, sizeof b, "%LaL", v);
    return b;
}
inline std::string show_val(bool v) { return v ? "true" : "false"; }
inline std::string show_val(char v) { return std::to_string(int(v)); }
template <typename T>
    requires(std::is_integral_v<T> && !std::is_same_v<T, bool> && !std::is_same_v<T, char>)
std::string show_val(T v)
{
    if constexpr (std::is_signed_v<T>) {
        return std::to_string(static_cast<long long>(v));
    } else {
        return std::to_string(static_cast<unsigned long long>(v));
    }
}
template <typename T, std::size_t N>
std::string show_val(std::array<T, N> const& a)
{
    std::string o = "[";
    for (std::size_t i = 0; i < N; ++i) {
        if (i) { o += ","; }
        o += show_val(a[i]);
    }
    return o + "]";
}

template <typename T>
std::uint64_t hash_val(T const& v, std::uint64_t h = 1469598103934665603ULL)
{
    if constexpr (is_std_array<T>) {
        for (auto const& x : v) { h = hash_val(x, h); }
        return h;
    } else if constexpr (std::is_floating_point_v<T>) {
        if (v != v) { return mc::hash_mix(h, 0x7ff8); }
        return mc::fnv1a(&v, value_bytes<T>(), h);
    } else {
        auto const w = static_cast<std::uint64_t>(v);
        return mc::fnv1a(&w, sizeof w, h);
    }
}

// ---------------------------------------------------------------------------------------
// constant-evaluation tables with per-entry success probe
// ---------------------------------------------------------------------------------------
template <class K>
constexpr bool run_range(std::size_t lo, std::size_t hi)
{
    for (auto i = lo; i < hi; ++i) {
        auto const a = K::in(i);
        if (K::valid(a)) { (void)K::call(a); }
    }
    return true;
}

template <class K, std::size_t Lo, std::size_t Hi>
concept range_ok = requires { typename std::bool_constant<(run_range<K>(Lo, Hi), true)>; };

template <class K, std::size_t Lo, std::size_t Hi>
constexpr void probe(std::array<bool, K::N>& ok)
{
    if constexpr (Lo >= Hi) {
    } else if constexpr (range_ok<K, Lo, Hi>) {
        for (auto i = Lo; i < Hi; ++i) { ok[i] = true; }
    } else if constexpr (Hi - Lo == 1) {
        ok[Lo] = false;
    } else {
        probe<K, Lo, (Lo + Hi) / 2>(ok);
        probe<K, (Lo + Hi) / 2, Hi>(ok);
    }
}

template <class K>
struct Table {
    std::array<bool, K::N> ok{};              // constant evaluation of entry i succeeded
    std::array<typename K::R, K::N> v{};      // its result
};

/// the whole table in one evaluation (the common case: nothing fails)
template <class K>
constexpr std::array<typename K::R, K::N> eval_all()
{
    std::array<typename K::R, K::N> v{};
    for (std::size_t i = 0; i < K::N; ++i) {
        auto const a = K::in(i);
        if (K::valid(a)) { v[i] = K::call(a); }
    }
    return v;
}
template <class K>
concept all_ok = requires { typename std::bool_constant<(eval_all<K>(), true)>; };

// consteval, not constexpr: with a constexpr function g++ 12 -O2 evaluates the initialiser of `table` twice
// (once speculatively while folding), which doubles compile time and compiler memory of every table
template <class K>
consteval Table<K> make_table()
{
    Table<K> t;
    if constexpr (all_ok<K>) {
        for (auto& b : t.ok) { b = true; }
        t.v = eval_all<K>(); // same call as in the probe: the compiler reuses the cached result
    } else {
        probe<K, 0, K::N / 2>(t.ok);
        probe<K, K::N / 2, K::N>(t.ok);
        for (std::size_t i = 0; i < K::N; ++i) {
            auto const a = K::in(i);
            if (t.ok[i] && K::valid(a)) { t.v[i] = K::call(a); }
        }
    }
    return t;
}

template <class K>
inline constexpr Table<K> table = make_table<K>();

// ---------------------------------------------------------------------------------------
// run-time replay of one kernel
// ---------------------------------------------------------------------------------------
//
// The loop itself is one non-template function working through a small table of function
// pointers (per kernel only a few thunks are instantiated: this keeps -O2 compile time down).
struct Entry {
    bool valid{false};
    bool nontrivial{false};
    bool cx_ok{true};
    bool equal{true};
    std::uint64_t outcome{0};
};
struct KernelOps {
    std::size_t n{0};
    std::string (*subject)(){nullptr};
    void (*one)(std::size_t, Entry&){nullptr};                              // executes entry i at run time
    void (*text)(std::size_t, std::string*, std::string*, std::string*, std::string*){nullptr}; // show, cls, rt, cx
    bool (*cxok)(std::size_t){nullptr};                                     // did constant evaluation of entry i succeed?
};

template <class K>
[[gnu::noinline]] typename K::R call_rt(typename K::In const& a)
{
    return K::call(a);
}

template <class K>
struct Thunks {
    static void one(std::size_t k, Entry& e)
    {
        auto const a0 = K::in(k);
        e.valid       = K::valid(a0);
        if (!e.valid) { return; }
        e.nontrivial  = K::nontrivial(a0);
        auto const a  = launder(a0);
        auto const rt = call_rt<K>(a);
        e.outcome     = hash_val(rt);
        e.cx_ok       = table<K>.ok[k];
        e.equal       = e.cx_ok && same(rt, table<K>.v[k]);
    }
    static void text(std::size_t k, std::string* show, std::string* cls, std::string* rt, std::string* cx)
    {
        auto const a0 = K::in(k);
        if (show) { *show = K::show(a0); }
        if (cls) { *cls = K::cls(a0); }
        if (rt) { *rt = show_val(call_rt<K>(launder(a0))); }
        if (cx) { *cx = show_val(table<K>.v[k]); }
    }
    static bool cxok(std::size_t k) { return table<K>.ok[k]; }
    static constexpr KernelOps ops{K::N, &K::subject, &one, &text, &cxok};
};

[[gnu::noinline]] inline void run_kernel_erased(KernelOps const& ops, mc::Reporter& r)
{
    auto const subject = ops.subject();
    if (!r.want(subject)) { return; }
    volatile std::size_t i = 0;
    bool const hashed      = ops.n <= 20000;
    std::uint64_t const sh = mc::hash_str(subject);
    while (i < ops.n) {
        if (r.deadline_passed()) {
            r.not_exhaustive("deadline in " + subject);
            return;
        }
        auto const before = mc::san_hits();
        auto trap         = mc::guarded([&] {
            for (; i < ops.n; i = i + 1) {
                std::size_t const k = i;
                Entry e;
                ops.one(k, e);
                if (!e.valid) {
                    r.count("out_of_domain_skipped");
                    continue;
                }
                r.count("evaluations");
                if (e.nontrivial) {
                    if (hashed) {
                        std::string show; // distinct by content, not by index
                        ops.text(k, &show, nullptr, nullptr, nullptr);
                        r.nontrivial(mc::hash_mix(sh, mc::hash_str(show)));
                    } else {
                        r.count("distinct_nontrivial");
                    }
                }
                r.outcome(mc::hash_mix(sh, e.outcome));
                if (!e.cx_ok) {
                    std::string show, cls, rt;
                    ops.text(k, &show, &cls, &rt, nullptr);
                    r.count("cx_failures");
                    r.violation("C13", subject, "cx_fails:" + cls, show,
                        "not a constant expression (the compiler rejects the evaluation); run time returns " + rt);
                } else if (!e.equal) {
                    std::string show, cls, rt, cx;
                    ops.text(k, &show, &cls, &rt, &cx);
                    r.violation("C13", subject, cls, show, "run time " + rt + " != constant evaluation " + cx);
                } else if (r.wants_sample() && e.nontrivial && (k % 7 == 3)) {
                    std::string show, rt;
                    ops.text(k, &show, nullptr, &rt, nullptr);
                    r.sample(subject + " " + show + " -> " + rt + " (both)");
                }
            }
        });
        if (trap != mc::Trap::none) {
            std::size_t const k = i;
            std::string show, cls;
            ops.text(k, &show, &cls, nullptr, nullptr);
            r.violation(trap == mc::Trap::assert_fired ? "C05" : "C02", subject,
                trap == mc::Trap::assert_fired ? std::string("handler-on-valid-call") : std::string("rt-") + mc::trap_name(trap) + ":" + cls,
                show, mc::describe_trap(trap));
            if (!ops.cxok(k)) { // the compiler rejected this entry too: C13's half of the finding is not lost behind the trap
                r.count("cx_failures");
                r.violation("C13", subject, "cx_fails:" + cls, show,
                    "not a constant expression (the compiler rejects the evaluation); the run-time call ends in " + mc::describe_trap(trap));
            }
            i = k + 1;
        }
        if (mc::san_hits() != before) {
            r.violation("C02", subject, "sanitizer", "somewhere in the table", "ASan/UBSan report at run time");
        }
    }
}

template <class K>
void run_kernel(mc::Reporter& r)
{
    run_kernel_erased(Thunks<K>::ops, r);
}

template <class... Ks>
void run_all(mc::Reporter& r)
{
    (run_kernel<Ks>(r), ...);
}

} // namespace c13
