// C06, part "mutate": algorithms that permute or compact a range in place.
//   reverse rotate shift_left shift_right remove remove_if unique partition stable_partition
//   sort stable_sort nth_element partial_sort inplace_merge
//   bubble_sort exchange_sort gnome_sort insertion_sort merge_sort (tetl extensions)
// With -DC06_MOVEONLY the same families run over the move-only element type M, plus move/move_backward/
// swap_ranges/iter_swap (jobs moveonly/...).  The sort jobs continue beyond the main pool with every sequence
// over two keys up to length 10 (quick) / 14 (thorough).
// Specification masks: tail after remove/unique, vacated part after shift_*, order inside the
// classes of partition, order of equivalent elements for the unstable sorts (held to: sorted by
// the comparator + same multiset of (key,tag)), nth_element/partial_sort by their postconditions.
#include "c06_common.hpp"

using namespace c06;

// -DC06_MOVEONLY: the same families over the move-only element type M (the algorithms that may only move:
// everything here except the two sorts tetl implements by copying - see the note at stable_sort below)
#if defined(C06_MOVEONLY)
using El = M;
#else
using El = E;
#endif

namespace {

template <typename Cm>
bool plain_sorted(E const* f, E const* l)
{
    return std::is_sorted(f, l, [](E const& x, E const& y) { return Cm::plain(x, y); });
}

/// reference for sorts on flavours libstdc++ cannot sort through: sorts the block in the flavour's iteration order
template <typename F, typename Cm>
void ref_sort(Buf<El>& A, Cm cm)
{
    if constexpr (F::reversed) {
        std::stable_sort(std::reverse_iterator<El*>(A.e()), std::reverse_iterator<El*>(A.b()), cm);
    } else {
        std::stable_sort(A.b(), A.e(), cm);
    }
}

template <typename F>
void permute_family(Ctx& c, Seq const& a)
{
    auto const n  = a.size();
    bool const nt = n >= 2;
    std::string const fl = F::name;
    auto cls   = [&] { return len_class(n); };
    auto kase0 = [&] { return cat(fl, " a=", keys(a)); };

    if constexpr (F::rank >= 2) {
        if (c.want("reverse(first,last)")) {
            c.run("reverse(first,last)", nt, [&](auto lib, Obs& o) {
                Buf<El> A(mem<F>(a));
                C06_ALG(reverse)(lib, F::at(lib, A, 0), F::at(lib, A, n));
                o.buf(A);
            }, cls, kase0);
        }
    }
    if (c.want("rotate(first,n_first,last)")) {
        for (std::size_t mid = 0; mid <= n; ++mid) {
            c.run("rotate(first,n_first,last)", nt, [&](auto lib, Obs& o) {
                Buf<El> A(mem<F>(a));
                auto it = C06_ALG(rotate)(lib, F::at(lib, A, 0), F::at(lib, A, mid), F::at(lib, A, n));
                o.num(F::off(A, it));
                o.buf(A);
            }, [&] { return cat(len_class(n), mid == 0 ? "+mid_first" : mid == n ? "+mid_last" : ""); },
                [&] { return cat(fl, " a=", keys(a), " n_first=", mid); });
        }
    }
    // shift_*: n >= 0 is a precondition of the standard; n = 0 .. len+1
    for (std::size_t sh = 0; sh <= n + 1; ++sh) {
        auto scls = [&] { return cat(len_class(n), sh == 0 ? "+n_zero" : sh >= n ? "+n_ge_len" : ""); };
        auto kase = [&] { return cat(fl, " a=", keys(a), " n=", sh); };
        bool const moves = sh > 0 && sh < n;
        if (c.want("shift_left(first,last,n)")) {
            c.run("shift_left(first,last,n)", nt, [&](auto lib, Obs& o) {
                Buf<El> A(mem<F>(a));
                auto it        = C06_ALG(shift_left)(lib, F::at(lib, A, 0), F::at(lib, A, n), static_cast<std::ptrdiff_t>(sh));
                auto const ret = F::off(A, it);
                o.num(ret);
                // [first, ret) is specified; the rest only when nothing moves
                o.template view<F>(A, 0, moves ? static_cast<std::size_t>(n - sh) : n);
            }, scls, kase);
        }
        if constexpr (F::rank >= 2) { // tetl's shift_right needs bidirectional iterators (std: forward) - API gap for forward
            if (c.want("shift_right(first,last,n)")) {
                c.run("shift_right(first,last,n)", nt, [&](auto lib, Obs& o) {
                    Buf<El> A(mem<F>(a));
                    auto it = C06_ALG(shift_right)(lib, F::at(lib, A, 0), F::at(lib, A, n), static_cast<std::ptrdiff_t>(sh));
                    o.num(F::off(A, it));
                    o.template view<F>(A, moves ? sh : 0, n);
                }, scls, kase);
            }
        }
    }
    for (int k = 0; k <= 3; ++k) {
        El const value{k, value_tag};
        auto const keep = n - static_cast<std::size_t>(std::count_if(a.begin(), a.end(), [&](E const& e) { return e.key == k; }));
        if (c.want("remove(first,last,value)")) {
            c.run("remove(first,last,value)", nt, [&](auto lib, Obs& o) {
                Buf<El> A(mem<F>(a));
                allow(value);
                auto it = C06_ALG(remove)(lib, F::at(lib, A, 0), F::at(lib, A, n), value);
                o.num(F::off(A, it));
                o.template view<F>(A, 0, keep);
            }, [&] { return cat(len_class(n), keep == n ? "+nothing_removed" : keep == 0 ? "+all_removed" : "+some_removed"); },
                [&] { return cat(fl, " a=", keys(a), " value=", k); });
        }
    }
    for_types(UnPreds{}, [&](auto pred) {
        using P        = decltype(pred);
        auto const yes = static_cast<std::size_t>(std::count_if(a.begin(), a.end(), [](E const& e) { return P::plain(e); }));
        auto kase      = [&] { return cat(fl, " a=", keys(a), " pred=", P::name); };
        if (c.want("remove_if(first,last,pred)")) {
            c.run("remove_if(first,last,pred)", nt, [&](auto lib, Obs& o) {
                Buf<El> A(mem<F>(a));
                auto it = C06_ALG(remove_if)(lib, F::at(lib, A, 0), F::at(lib, A, n), P{});
                o.num(F::off(A, it));
                o.template view<F>(A, 0, n - yes);
            }, [&] { return cat(len_class(n), yes == 0 ? "+nothing_removed" : yes == n ? "+all_removed" : "+some_removed"); }, kase);
        }
        if (c.want("partition(first,last,pred)")) {
            c.run("partition(first,last,pred)", nt, [&](auto lib, Obs& o) {
                Buf<El> A(mem<F>(a));
                auto it        = C06_ALG(partition)(lib, F::at(lib, A, 0), F::at(lib, A, n), P{});
                auto const ret = F::off(A, it);
                o.num(ret);
                // the order inside each class is unspecified
                auto const cut = ret < 0 ? std::size_t(0) : std::min(static_cast<std::size_t>(ret), n);
                o.template bagv<F>(A, 0, cut);
                o.template bagv<F>(A, cut, n);
                bool ok = true;
                for (std::size_t i = 0; i < n; ++i) { ok = ok && (P::plain(at_view<F>(A, i)) == (i < cut)); }
                o.num(ok);
            }, cls, kase);
        }
        if constexpr (F::rank >= 3) { // tetl's stable_partition uses l - f and f + n (std: bidirectional) - API gap below random access
            if (c.want("stable_partition(first,last,pred)")) {
                c.run("stable_partition(first,last,pred)", nt, [&](auto lib, Obs& o) {
                    Buf<El> A(mem<F>(a));
                    auto it = C06_ALG(stable_partition)(lib, F::at(lib, A, 0), F::at(lib, A, n), P{});
                    o.num(F::off(A, it));
                    o.buf(A);
                }, cls, kase);
            }
        }
    });
    // unique: the predicate must be an equivalence relation
    {
        auto groups = [&](auto eq) {
            std::size_t k = 0;
            for (std::size_t i = 0; i < n; ++i) {
                if (i == 0 || !eq(a[i - 1], a[i])) { ++k; }
            }
            return k;
        };
        if (c.want("unique(first,last)")) {
            auto const k = groups([](E const& x, E const& y) { return x.key == y.key; });
            c.run("unique(first,last)", nt, [&](auto lib, Obs& o) {
                Buf<El> A(mem<F>(a));
                auto it = C06_ALG(unique)(lib, F::at(lib, A, 0), F::at(lib, A, n));
                o.num(F::off(A, it));
                o.template view<F>(A, 0, k);
            }, [&] { return cat(len_class(n), k == n ? "+no_duplicates" : ""); }, kase0);
        }
        if (c.want("unique(first,last,pred)")) {
            auto const k2 = groups([](E const& x, E const& y) { return (x.key & 1) == (y.key & 1); });
            c.run("unique(first,last,pred)", nt, [&](auto lib, Obs& o) {
                Buf<El> A(mem<F>(a));
                auto it = C06_ALG(unique)(lib, F::at(lib, A, 0), F::at(lib, A, n), EqMod2{});
                o.num(F::off(A, it));
                o.template view<F>(A, 0, k2);
            }, [&] { return cat(len_class(n), k2 == n ? "+no_duplicates" : ""); }, [&] { return cat(fl, " a=", keys(a), " pred=eqmod2"); });
            auto const k3 = n == 0 ? std::size_t(0) : std::size_t(1);
            c.run("unique(first,last,pred)", nt, [&](auto lib, Obs& o) {
                Buf<El> A(mem<F>(a));
                auto it = C06_ALG(unique)(lib, F::at(lib, A, 0), F::at(lib, A, n), True2{});
                o.num(F::off(A, it));
                o.template view<F>(A, 0, k3);
            }, [&] { return cat(len_class(n), k3 == n ? "+no_duplicates" : ""); }, [&] { return cat(fl, " a=", keys(a), " pred=true"); });
        }
    }
}

// ------------------------------------------------------------------------------------------
// sorting
// ------------------------------------------------------------------------------------------
// unstable sorts: "sorted by comp and a permutation of the input" (both facts hold for the reference by construction)
#define C06_UNSTABLE(SUBJ, ETLCALL, STDCALL)                                                                                    \
    if (c.want(SUBJ)) {                                                                                                         \
        c.run(SUBJ, nt, [&](auto lib, Obs& o) {                                                                                 \
            Buf<El> A(mem<F>(a));                                                                                                        \
            auto f = F::at(lib, A, 0);                                                                                          \
            auto l = F::at(lib, A, n);                                                                                          \
            if constexpr (decltype(lib)::is_etl) {                                                                              \
                ETLCALL;                                                                                                        \
            } else {                                                                                                            \
                STDCALL;                                                                                                        \
            }                                                                                                                   \
            o.num(sorted_view<F, Cm>(A, 0, n));                                                                              \
            o.bag(A);                                                                                                           \
        }, cls, kase);                                                                                                          \
    }
// stable sorts: element-for-element equal to std::stable_sort
#define C06_STABLE(SUBJ, ETLCALL, STDCALL)                                                                                      \
    if (c.want(SUBJ)) {                                                                                                         \
        c.run(SUBJ, nt, [&](auto lib, Obs& o) {                                                                                 \
            Buf<El> A(mem<F>(a));                                                                                                        \
            auto f = F::at(lib, A, 0);                                                                                          \
            auto l = F::at(lib, A, n);                                                                                          \
            if constexpr (decltype(lib)::is_etl) {                                                                              \
                ETLCALL;                                                                                                        \
            } else {                                                                                                            \
                STDCALL;                                                                                                        \
            }                                                                                                                   \
            o.buf(A);                                                                                                           \
        }, cls, kase);                                                                                                          \
    }

template <typename F>
void sort_family(Ctx& c, Seq const& a)
{
    auto const n  = a.size();
    bool const nt = n >= 2;
    std::string const fl = F::name;
    auto cls = [&] { return len_class(n); };
    {
        using Cm  = Less; // the overloads without comparator use operator<
        auto kase = [&] { return cat(fl, " a=", keys(a)); };
        if constexpr (F::rank >= 3) {
            C06_UNSTABLE("sort(first,last)", etl::sort(f, l), std::sort(f, l))
            C06_UNSTABLE("bubble_sort(first,last)", etl::bubble_sort(f, l), std::sort(f, l))
            C06_UNSTABLE("exchange_sort(first,last)", etl::exchange_sort(f, l), std::sort(f, l))
#if !defined(C06_MOVEONLY)
            // API gap: etl::insertion_sort (and stable_sort, which forwards to it) copies elements
            // (`auto key = *i; *j = *(j - 1);`) and does not compile for a move-only value type
            C06_STABLE("stable_sort(first,last)", etl::stable_sort(f, l), std::stable_sort(f, l))
            C06_STABLE("insertion_sort(first,last)", etl::insertion_sort(f, l), std::stable_sort(f, l))
#endif
            C06_STABLE("merge_sort(first,last)", etl::merge_sort(f, l), std::stable_sort(f, l))
        }
        C06_UNSTABLE("gnome_sort(first,last)", etl::gnome_sort(f, l), ((void)f, (void)l, ref_sort<F>(A, Cm{})))
    }
    for_types(Orders{}, [&](auto cmp) {
        using Cm  = decltype(cmp);
        auto kase = [&] { return cat(fl, " a=", keys(a), " comp=", Cm::name); };
        if constexpr (F::rank >= 3) {
            C06_UNSTABLE("sort(first,last,comp)", etl::sort(f, l, Cm{}), std::sort(f, l, Cm{}))
            C06_UNSTABLE("bubble_sort(first,last,comp)", etl::bubble_sort(f, l, Cm{}), std::sort(f, l, Cm{}))
            C06_UNSTABLE("exchange_sort(first,last,comp)", etl::exchange_sort(f, l, Cm{}), std::sort(f, l, Cm{}))
#if !defined(C06_MOVEONLY)
            C06_STABLE("stable_sort(first,last,comp)", etl::stable_sort(f, l, Cm{}), std::stable_sort(f, l, Cm{}))
            C06_STABLE("insertion_sort(first,last,comp)", etl::insertion_sort(f, l, Cm{}), std::stable_sort(f, l, Cm{}))
#endif
            C06_STABLE("merge_sort(first,last,comp)", etl::merge_sort(f, l, Cm{}), std::stable_sort(f, l, Cm{}))
        }
        C06_UNSTABLE("gnome_sort(first,last,comp)", etl::gnome_sort(f, l, Cm{}), ((void)f, (void)l, ref_sort<F>(A, Cm{})))

        if constexpr (F::rank >= 3) {
            for (std::size_t mid = 0; mid <= n; ++mid) {
                auto mcls  = [&] { return cat(len_class(n), mid == 0 ? "+mid_first" : mid == n ? "+mid_last" : ""); };
                auto mkase = [&] { return cat(fl, " a=", keys(a), " comp=", Cm::name, " mid=", mid); };
                // nth_element: nothing in [nth,last) is less than anything in [first,nth]; permutation
                if (c.want("nth_element(first,nth,last,comp)")) {
                    c.run("nth_element(first,nth,last,comp)", nt, [&](auto lib, Obs& o) {
                        Buf<El> A(mem<F>(a));
                        C06_ALG(nth_element)(lib, F::at(lib, A, 0), F::at(lib, A, mid), F::at(lib, A, n), Cm{});
                        bool ok = true;
                        for (std::size_t i = 0; i < mid; ++i) {
                            for (std::size_t j = mid; j < n; ++j) { ok = ok && !Cm::plain(at_view<F>(A, j), at_view<F>(A, i)); }
                        }
                        o.num(ok);
                        o.bag(A);
                    }, mcls, mkase);
                }
                // partial_sort: [first,middle) sorted and not greater than the rest; permutation
                if (c.want("partial_sort(first,middle,last,comp)")) {
                    c.run("partial_sort(first,middle,last,comp)", nt, [&](auto lib, Obs& o) {
                        Buf<El> A(mem<F>(a));
                        C06_ALG(partial_sort)(lib, F::at(lib, A, 0), F::at(lib, A, mid), F::at(lib, A, n), Cm{});
                        bool ok = sorted_view<F, Cm>(A, 0, mid);
                        for (std::size_t i = 0; i < mid; ++i) {
                            for (std::size_t j = mid; j < n; ++j) { ok = ok && !Cm::plain(at_view<F>(A, j), at_view<F>(A, i)); }
                        }
                        o.num(ok);
                        o.bag(A);
                    }, mcls, mkase);
                }
                if constexpr (std::is_same_v<Cm, Less>) {
                    if (c.want("nth_element(first,nth,last)")) {
                        c.run("nth_element(first,nth,last)", nt, [&](auto lib, Obs& o) {
                            Buf<El> A(mem<F>(a));
                            C06_ALG(nth_element)(lib, F::at(lib, A, 0), F::at(lib, A, mid), F::at(lib, A, n));
                            bool ok = true;
                            for (std::size_t i = 0; i < mid; ++i) {
                                for (std::size_t j = mid; j < n; ++j) { ok = ok && !Cm::plain(at_view<F>(A, j), at_view<F>(A, i)); }
                            }
                            o.num(ok);
                            o.bag(A);
                        }, mcls, mkase);
                    }
                    if (c.want("partial_sort(first,middle,last)")) {
                        c.run("partial_sort(first,middle,last)", nt, [&](auto lib, Obs& o) {
                            Buf<El> A(mem<F>(a));
                            C06_ALG(partial_sort)(lib, F::at(lib, A, 0), F::at(lib, A, mid), F::at(lib, A, n));
                            bool ok = sorted_view<F, Cm>(A, 0, mid);
                            for (std::size_t i = 0; i < mid; ++i) {
                                for (std::size_t j = mid; j < n; ++j) { ok = ok && !Cm::plain(at_view<F>(A, j), at_view<F>(A, i)); }
                            }
                            o.num(ok);
                            o.bag(A);
                        }, mcls, mkase);
                    }
                }
                // inplace_merge: both halves sorted by comp; stable, so element-for-element equal
                if (plain_sorted<Cm>(a.data(), a.data() + mid) && plain_sorted<Cm>(a.data() + mid, a.data() + n)) {
                    if (c.want("inplace_merge(first,middle,last,comp)")) {
                        c.run("inplace_merge(first,middle,last,comp)", nt, [&](auto lib, Obs& o) {
                            Buf<El> A(mem<F>(a));
                            C06_ALG(inplace_merge)(lib, F::at(lib, A, 0), F::at(lib, A, mid), F::at(lib, A, n), Cm{});
                            o.buf(A);
                        }, mcls, mkase);
                    }
                    if constexpr (std::is_same_v<Cm, Less>) {
                        if (c.want("inplace_merge(first,middle,last)")) {
                            c.run("inplace_merge(first,middle,last)", nt, [&](auto lib, Obs& o) {
                                Buf<El> A(mem<F>(a));
                                C06_ALG(inplace_merge)(lib, F::at(lib, A, 0), F::at(lib, A, mid), F::at(lib, A, n));
                                o.buf(A);
                            }, mcls, mkase);
                        }
                    }
                }
            }
        }
    });
}

template <typename F>
void job_permute(mc::Reporter& r, int qL, int tL)
{
    Ctx c(r);
    auto const bd   = bounds(r, qL, 0, tL, 0);
    auto const pool = make_pool(bd.L, 3, 0);
    r.count("sequences", pool.size());
    for (auto const& a : pool) {
        if (c.out_of_time()) { break; }
        permute_family<F>(c, a);
    }
    r.sample(cat(F::name, ": every sequence of length 0..", bd.L,
        " over keys {0,1,2}: reverse, rotate (every n_first), shift_left/right (n=0..len+1), remove/remove_if/unique/partition/stable_partition"));
    r.sample(cat(F::name, " a=", keys(pool.back()), " (last sequence)"));
}

/// `long2`: after the main pool, every sequence of length L+1..long2 over the two keys {0,1} (tags = positions):
/// the next size classes of the recursive/merging sorts (merge_sort recursion depth 4, inplace_merge with long
/// runs of equivalent elements on both sides, stable_partition/rotate inside them), where almost every element has
/// equivalent neighbours, so any loss of stability or of an element shows
template <typename F>
void job_sort(mc::Reporter& r, int qL, int tL, int qLong2 = 0, int tLong2 = 0)
{
    Ctx c(r);
    auto const bd   = bounds(r, qL, 0, tL, 0);
    auto const pool = make_pool(bd.L, 3, 0);
    std::uint64_t seqs = pool.size();
    for (auto const& a : pool) {
        if (c.out_of_time()) { break; }
        sort_family<F>(c, a);
    }
    int const long2 = r.thorough() ? tLong2 : qLong2;
    if (long2 > bd.L) {
        for (auto const& a : make_pool(long2, 2, 0)) {
            if (static_cast<int>(a.size()) <= bd.L) { continue; }
            if (c.out_of_time()) { break; }
            ++seqs;
            sort_family<F>(c, a);
        }
        r.sample(cat(F::name, ": every sequence of length ", bd.L + 1, "..", long2, " over keys {0,1}: the same sorts, comparators and splits"));
    }
    r.count("sequences", seqs);
    r.sample(cat(F::name, ": every sequence of length 0..", bd.L,
        " over keys {0,1,2}: 8 sorts x {operator<, less, greater, mod2less}, nth_element/partial_sort/inplace_merge at every split"));
    r.sample(cat(F::name, " a=", keys(pool.back()), " (last sequence)"));
}

// ------------------------------------------------------------------------------------------
// move / move_backward / swap_ranges / iter_swap (the move-only build has no copying algorithms, so the moving
// ones of c06_copy.cpp are repeated here over M); within one buffer: every source [i,j) and every destination
// the standard allows (d_first not in [first,last) / d_last not in (first,last])
// ------------------------------------------------------------------------------------------
template <typename F>
void move_family(Ctx& c, Seq const& a)
{
    auto const n  = a.size();
    bool const nt = n >= 2;
    std::string const fl = F::name;
    auto cls   = [&] { return len_class(n); };
    auto kase0 = [&] { return cat(fl, " a=", keys(a)); };
    if (c.want("move(first,last,d_first)")) {
        c.run("move(first,last,d_first)", nt, [&](auto lib, Obs& o) {
            Buf<El> A(mem<F>(a));
            Buf<El> D(n, filler);
            auto it = C06_ALG(move)(lib, F::at(lib, A, 0), F::at(lib, A, n), F::at(lib, D, 0));
            o.num(F::off(D, it));
            o.buf(D); // the moved-from source is unspecified: not compared
        }, cls, kase0);
    }
    if constexpr (F::rank >= 2) {
        if (c.want("move_backward(first,last,d_last)")) {
            c.run("move_backward(first,last,d_last)", nt, [&](auto lib, Obs& o) {
                Buf<El> A(mem<F>(a));
                Buf<El> D(n, filler);
                auto it = C06_ALG(move_backward)(lib, F::at(lib, A, 0), F::at(lib, A, n), F::at(lib, D, n));
                o.num(F::off(D, it));
                o.buf(D);
            }, cls, kase0);
        }
    }
    for (std::size_t i = 0; i <= n; ++i) {
        for (std::size_t j = i; j <= n; ++j) {
            auto const len = j - i;
            for (std::size_t d = 0; d + len <= n; ++d) {
                bool const overlap = d < j && i < d + len;
                auto ocls = [&] { return cat(len_class(len), overlap ? "+overlap" : "+disjoint"); };
                auto kase = [&] { return cat(fl, " a=", keys(a), " first=", i, " last=", j, " d_first=", d); };
                // positions that are moved-from and not overwritten afterwards are unspecified
                auto observe = [&](Obs& o, Buf<El>& A) {
                    o.sep();
                    for (std::size_t p = 0; p < n; ++p) {
                        bool const in_src = p >= i && p < j;
                        bool const in_dst = p >= d && p < d + len;
                        if (in_src && !in_dst) { continue; }
                        o.elem(at_view<F>(A, p));
                    }
                };
                if ((d < i || d >= j || len == 0) && c.want("move(first,last,d_first) within one buffer")) {
                    c.run("move(first,last,d_first) within one buffer", nt, [&](auto lib, Obs& o) {
                        Buf<El> A(mem<F>(a));
                        auto it = C06_ALG(move)(lib, F::at(lib, A, i), F::at(lib, A, j), F::at(lib, A, d));
                        o.num(F::off(A, it));
                        observe(o, A);
                    }, ocls, kase);
                }
                if constexpr (F::rank >= 2) {
                    auto const dl = d + len; // d_last
                    if ((dl <= i || dl > j || len == 0) && c.want("move_backward(first,last,d_last) within one buffer")) {
                        c.run("move_backward(first,last,d_last) within one buffer", nt, [&](auto lib, Obs& o) {
                            Buf<El> A(mem<F>(a));
                            auto it = C06_ALG(move_backward)(lib, F::at(lib, A, i), F::at(lib, A, j), F::at(lib, A, dl));
                            o.num(F::off(A, it));
                            observe(o, A);
                        }, ocls, [&] { return cat(fl, " a=", keys(a), " first=", i, " last=", j, " d_last=", dl); });
                    }
                }
            }
        }
    }
    if (c.want("iter_swap(a,b)")) {
        for (std::size_t i = 0; i < n; ++i) {
            for (std::size_t j = 0; j < n; ++j) {
                if (i == j) { continue; } // a self-swap of a type whose moved-from state is not its old value is unspecified
                c.run("iter_swap(a,b)", nt, [&](auto lib, Obs& o) {
                    Buf<El> A(mem<F>(a));
                    C06_ALG(iter_swap)(lib, F::at(lib, A, i), F::at(lib, A, j));
                    o.buf(A);
                }, [&] { return std::string("general"); }, [&] { return cat(fl, " a=", keys(a), " i=", i, " j=", j); });
            }
        }
    }
    // swap_ranges with every second range of the same pool that is long enough (tags shifted)
    if (c.want("swap_ranges(first1,last1,first2)")) {
        for (std::size_t m = n; m <= n + 1; ++m) {
            Seq b;
            for (std::size_t p = 0; p < m; ++p) { b.push_back(E{static_cast<int>((p + 1) % 3), second_tag0 + static_cast<int>(p)}); }
            c.run("swap_ranges(first1,last1,first2)", nt, [&](auto lib, Obs& o) {
                Buf<El> A(mem<F>(a));
                Buf<El> B(mem<F>(b));
                auto it = C06_ALG(swap_ranges)(lib, F::at(lib, A, 0), F::at(lib, A, n), F::at(lib, B, 0));
                o.num(F::off(B, it));
                o.buf(A);
                o.buf(B);
            }, [&] { return cat(len_class(n), m > n ? "+second_longer" : ""); }, [&] { return cat(fl, " a=", keys(a), " b=", keys(b)); });
        }
    }
}

template <typename F>
void job_move(mc::Reporter& r, int qL, int tL)
{
    Ctx c(r);
    auto const bd   = bounds(r, qL, 0, tL, 0);
    auto const pool = make_pool(bd.L, 3, 0);
    r.count("sequences", pool.size());
    for (auto const& a : pool) {
        if (c.out_of_time()) { break; }
        move_family<F>(c, a);
    }
    r.sample(cat(F::name, ": every sequence of length 0..", bd.L,
        " over keys {0,1,2}: move/move_backward to a separate block and within the block for every (first,last,d) the standard allows, "
        "iter_swap of every pair, swap_ranges"));
}

} // namespace

int main(int argc, char** argv)
{
    mc::Main m(argc, argv);
    std::vector<std::string> const both{"quick", "thorough"};
#if defined(C06_MOVEONLY)
    // move-only element type: quick 0..5, thorough 0..7 (sorts 0..8, + lengths up to 9 / 12 over two keys)
    m.job("moveonly/permute/ptr", both, [](mc::Reporter& r) { job_permute<PtrF>(r, 5, 7); });
    m.job("moveonly/permute/fwd", both, [](mc::Reporter& r) { job_permute<FwdF>(r, 5, 7); });
    m.job("moveonly/permute/bidi", both, [](mc::Reporter& r) { job_permute<BidiF>(r, 5, 7); });
    m.job("moveonly/sort/ptr", both, [](mc::Reporter& r) { job_sort<PtrF>(r, 5, 8, 9, 12); });
    m.job("moveonly/sort/ra", both, [](mc::Reporter& r) { job_sort<RaF>(r, 5, 8, 8, 11); });
    m.job("moveonly/move/ptr", both, [](mc::Reporter& r) { job_move<PtrF>(r, 5, 7); });
    m.job("moveonly/move/fwd", both, [](mc::Reporter& r) { job_move<FwdF>(r, 5, 7); });
    m.job("moveonly/move/bidi", both, [](mc::Reporter& r) { job_move<BidiF>(r, 5, 7); });
    m.job("sub/moveonly/permute/ptr", both, sub([](mc::Reporter& r) { job_permute<PtrF>(r, 5, 7); }));
    m.job("sub/moveonly/sort/ptr", both, sub([](mc::Reporter& r) { job_sort<PtrF>(r, 5, 7); }));
    m.job("sub/moveonly/move/bidi", both, sub([](mc::Reporter& r) { job_move<BidiF>(r, 5, 7); }));
#elif defined(MC_FLAVOUR_SAN)
    // sanitizer build: only the raw-pointer jobs (the wrappers check their own ranges; keeps the compile small)
    m.job("permute/ptr", both, [](mc::Reporter& r) { job_permute<PtrF>(r, 5, 8); });
    m.job("sort/ptr", both, [](mc::Reporter& r) { job_sort<PtrF>(r, 5, 8, 9, 11); });
#else
#if !defined(MC_PART) || MC_PART == 1
    m.job("permute/ptr", both, [](mc::Reporter& r) { job_permute<PtrF>(r, 5, 8); });
    m.job("permute/fwd", both, [](mc::Reporter& r) { job_permute<FwdF>(r, 5, 8); });
    m.job("sub/permute/ptr", both, sub([](mc::Reporter& r) { job_permute<PtrF>(r, 5, 8); }));
    m.job("sub/permute/fwd", both, sub([](mc::Reporter& r) { job_permute<FwdF>(r, 5, 8); }));
#endif
#if !defined(MC_PART) || MC_PART == 2
    m.job("permute/bidi", both, [](mc::Reporter& r) { job_permute<BidiF>(r, 5, 8); });
    m.job("permute/ra", both, [](mc::Reporter& r) { job_permute<RaF>(r, 5, 8); });
    m.job("permute/rev", both, [](mc::Reporter& r) { job_permute<RevF>(r, 5, 7); });
    m.job("sub/permute/bidi", both, sub([](mc::Reporter& r) { job_permute<BidiF>(r, 5, 8); }));
    m.job("sub/permute/rev", both, sub([](mc::Reporter& r) { job_permute<RevF>(r, 5, 7); }));
#endif
#if !defined(MC_PART) || MC_PART == 3
    // three keys: quick 0..6, thorough 0..10; beyond that over two keys: quick up to 10, thorough up to 14
    m.job("sort/ptr", both, [](mc::Reporter& r) { job_sort<PtrF>(r, 6, 10, 10, 14); });
    m.job("sort/bidi", both, [](mc::Reporter& r) { job_sort<BidiF>(r, 5, 9, 9, 13); });
    m.job("sub/sort/ptr", both, sub([](mc::Reporter& r) { job_sort<PtrF>(r, 5, 8, 7, 10); }));
    m.job("sub/sort/bidi", both, sub([](mc::Reporter& r) { job_sort<BidiF>(r, 5, 8); }));
#endif
#if !defined(MC_PART) || MC_PART == 4
    m.job("sort/ra", both, [](mc::Reporter& r) { job_sort<RaF>(r, 5, 9, 9, 13); });
    m.job("sort/rev", both, [](mc::Reporter& r) { job_sort<RevF>(r, 5, 8, 8, 12); });
    m.job("sub/sort/ra", both, sub([](mc::Reporter& r) { job_sort<RaF>(r, 5, 8); }));
#endif
#endif
    return m.run();
}
