// C08 round 2: run-time widening of the string_view check (see c08_common.hpp for the menu and the runner).
//
// Job families (MC_PART selects which are compiled into this binary):
//   menu/...    the COMPLETE overload menu (every search overload incl. the defaulted-pos forms, compare in all six
//               forms with every (pos1,count1,pos2,count2), starts_with/ends_with/contains x sv/ch/cstr, substr,
//               copy, remove_prefix/suffix, the relational operators for (view,view), (view,convertible),
//               (convertible,view), (view,cstr), (cstr,view), swap, iterators, element access, constructors) with
//               pos/count lists 0..len+2, npos, npos-1, npos-len, SIZE_MAX/2, SIZE_MAX/2+1
//   units/...   the same menu over alphabets of extreme code units per character type (negative char values,
//               value order != byte order, truncation collisions, the traits' eof value, WCHAR_MIN/-1)
//   traits/...  the same menu for basic_string_view<char, ci_traits> (case-insensitive) and <char16_t, rev_traits>
//               against std::basic_string_view with the SAME traits class
//   placed/...  the same menu with haystack and needle at every alignment offset inside exact-size blocks and with
//               bait characters in front of / behind the views (a read outside a view changes the result or is an
//               ASan report); (ptr,count) arguments point to arrays of exactly count characters, C strings end
//               with their terminator at the end of the block
//   long/...    ALL haystacks up to length 12 over {a,b} (char, thorough) resp. periodic haystacks w^k up to length
//               10-16 (period <= 6, also with the first / the last character flipped) x all needles up to length
//               6: the six searches with a view and a C-string needle at every pos, starts_with/ends_with/contains,
//               compare(sv/cstr), the relational operators
//   big/, huge/ views of 254..70001 characters (quick) and 2^31+2, 2^32+2 characters (thorough, char, zero-page mapping):
//               a hand-written call list around the end of the view (counters/offsets narrower than size_type)
//   literals    the ""_sv literals of the five character types
#include "c08_common.hpp"

#include <map>

#ifndef MC_PART
#define MC_PART 0
#endif

namespace {
using namespace c08;

template <typename C>
std::vector<C> chars(std::initializer_list<unsigned long> v)
{
    std::vector<C> o;
    for (auto x : v) { o.push_back(static_cast<C>(x)); }
    return o;
}

struct PlacePair {
    Place hay, needle;
};

template <typename C>
std::vector<PlacePair> exact_only()
{
    return {PlacePair{}};
}

/// placements: every start alignment with the view at the END of its block (leading bait), the view at the START
/// of its block followed by bait, and bait on both sides; for the haystack (needle exact), for the needle (haystack
/// exact) and for both together
template <typename C>
std::vector<PlacePair> placements(std::vector<C> const& alpha, bool thorough)
{
    std::vector<Place> ps;
    std::size_t const maxLead = 8 / sizeof(C) > 1 ? 8 / sizeof(C) - 1 : 1;
    for (std::size_t k = 1; k <= maxLead; ++k) {
        for (std::size_t b = 0; b < alpha.size() && b < (thorough ? alpha.size() : 2); ++b) { ps.push_back(Place{k, 0, unsigned(alpha[b]), 0}); }
    }
    for (std::size_t b = 0; b < alpha.size(); ++b) { ps.push_back(Place{0, 2, 0, unsigned(alpha[b])}); }
    for (std::size_t a = 0; a < alpha.size(); ++a) {
        for (std::size_t b = 0; b < alpha.size(); ++b) { ps.push_back(Place{1, 2, unsigned(alpha[a]), unsigned(alpha[b])}); }
    }
    std::vector<PlacePair> out;
    for (auto const& p : ps) { out.push_back(PlacePair{p, Place{}}); }
    for (auto const& p : ps) { out.push_back(PlacePair{Place{}, p}); }
    for (auto const& p : ps) { out.push_back(PlacePair{p, p}); }
    return out;
}

template <typename C, typename ETr, typename STr>
void sweep(mc::Reporter& r, unsigned Parts, std::string const& tag, std::vector<C> const& hayAlpha, std::size_t maxHay, std::vector<C> const& needleAlpha,
    std::size_t maxNeedle, std::vector<C> const& singles, std::vector<PlacePair> const& places, bool nullViews)
{
    Runner<C, ETr, STr> run(r, tag);
    auto const hayStrings = all_strings<C>(hayAlpha, maxHay);
    auto needleStrings    = all_strings<C>(needleAlpha, maxNeedle);
    needleStrings.push_back(std::basic_string<C>(maxHay + 1, needleAlpha[0])); // one needle longer than every haystack

    // needle operands per distinct needle placement
    std::map<std::string, std::vector<Operand<C>>> needlePools;
    for (auto const& pp : places) {
        auto& pool = needlePools[pp.needle.name()];
        if (!pool.empty()) { continue; }
        for (auto const& s : needleStrings) { pool.emplace_back(s, pp.needle, true); }
        if (nullViews && pp.needle.lead == 0 && pp.needle.trail == 0) { pool.emplace_back(std::basic_string<C>{}, pp.needle, false, true); }
    }

    for (auto const& hs : hayStrings) {
        std::map<std::string, std::unique_ptr<Operand<C>>> hays;
        std::map<std::string, bool> unaryDone;
        for (auto const& pp : places) {
            auto& H = hays[pp.hay.name()];
            if (!H) { H = std::make_unique<Operand<C>>(hs, pp.hay, false); }
            auto const& pool = needlePools[pp.needle.name()];
            for (auto const& N : pool) {
                bool& done = unaryDone[pp.hay.name()];
                run.run(Parts, *H, N, !done, singles);
                done = true;
            }
        }
        if (nullViews && hs.empty()) {
            Operand<C> const H(std::basic_string<C>{}, Place{}, false, true);
            bool done = false;
            for (auto const& N : needlePools[Place{}.name()]) {
                run.run(Parts, H, N, !done, singles);
                done = true;
            }
        }
        if (r.deadline_passed()) {
            r.not_exhaustive("deadline");
            break;
        }
    }
    run.finish();
    r.count("haystacks", hayStrings.size());
    r.count("needles", needleStrings.size());
    r.count("placements", places.size());
}

template <typename C>
std::vector<C> default_singles(std::vector<C> alpha)
{
    for (unsigned long x : {0x61ul, 0x62ul, 0x63ul, 0x0ul, 0x80ul, 0xFFul}) {
        if (std::find(alpha.begin(), alpha.end(), static_cast<C>(x)) == alpha.end()) { alpha.push_back(static_cast<C>(x)); }
    }
    return alpha;
}

template <typename C>
void add_menu(mc::Main& m, std::vector<std::string> tiers, std::size_t maxHay, std::size_t maxNeedle, bool withNul)
{
    m.job(cat("menu/", cname<C>(), "/hay", maxHay, "/needle", maxNeedle, withNul ? "/nul" : ""), tiers, [=](mc::Reporter& r) {
        auto alpha = chars<C>({'a', 'b'});
        if (withNul) { alpha.push_back(C(0)); }
        sweep<C, etl::char_traits<C>, std::char_traits<C>>(r, P_ALL, "", alpha, maxHay, alpha, maxNeedle, default_singles(alpha), exact_only<C>(), true);
    });
}

template <typename C>
std::vector<C> extreme_units()
{
    if constexpr (std::is_same_v<C, char> || std::is_same_v<C, char8_t>) {
        return chars<C>({'a', 0x7F, 0x80, 0xFF, 0xE1});
    } else if constexpr (std::is_same_v<C, char16_t>) {
        return chars<C>({'a', 0x0100, 0x0161, 0x8000, 0xFFFF});
    } else if constexpr (std::is_same_v<C, char32_t>) {
        return chars<C>({'a', 0x0100, 0x10061, 0x80000000ul, 0xFFFFFFFFul});
    } else {
        return chars<C>({'a', 0x0100, 0x10061, 0x80000000ul /* WCHAR_MIN */, 0xFFFFFFFFul /* -1 == WEOF */, 0x7FFFFFFFul});
    }
}

template <typename C>
void add_units(mc::Main& m, std::vector<std::string> tiers, std::size_t maxHay, std::size_t maxNeedle)
{
    m.job(cat("units/", cname<C>(), "/hay", maxHay, "/needle", maxNeedle), tiers, [=](mc::Reporter& r) {
        auto const alpha = extreme_units<C>();
        sweep<C, etl::char_traits<C>, std::char_traits<C>>(r, P_ALL, "extreme_units", alpha, maxHay, alpha, maxNeedle, default_singles(alpha), exact_only<C>(), false);
    });
}

template <typename C, typename Tr>
void add_traits(mc::Main& m, std::vector<std::string> tiers, std::size_t maxHay, std::size_t maxNeedle)
{
    m.job(cat("traits/", cname<C>(), tname<Tr>(), "/hay", maxHay, "/needle", maxNeedle), tiers, [=](mc::Reporter& r) {
        std::vector<C> alpha;
        if constexpr (std::is_same_v<Tr, ci_traits>) { alpha = chars<C>({'a', 'A', 'b', 'B', '1'}); } else { alpha = chars<C>({'a', 'b', 0x0161, 0xFFFF}); }
        sweep<C, Tr, Tr>(r, P_ALL, "custom_traits", alpha, maxHay, alpha, maxNeedle, default_singles(alpha), exact_only<C>(), true);
    });
}

template <typename C>
void add_placed(mc::Main& m, std::vector<std::string> tiers, std::size_t maxHay, std::size_t maxNeedle, bool thorough)
{
    m.job(cat("placed/", cname<C>(), "/hay", maxHay, "/needle", maxNeedle), tiers, [=](mc::Reporter& r) {
        auto const alpha = chars<C>({'a', 'b'});
        sweep<C, etl::char_traits<C>, std::char_traits<C>>(r, P_ALL & ~P_NEAR, "placed", alpha, maxHay, alpha, maxNeedle, chars<C>({'a', 'b', 0, 0xA5, 0xCD}),
            placements<C>(alpha, thorough), false);
    });
}

template <typename C, typename ETr = etl::char_traits<C>, typename STr = std::char_traits<C>>
void add_placed_traits(mc::Main& m, std::vector<std::string> tiers, std::size_t maxHay, std::size_t maxNeedle, bool thorough)
{
    m.job(cat("placed/", cname<C>(), tname<ETr>(), "/hay", maxHay, "/needle", maxNeedle), tiers, [=](mc::Reporter& r) {
        auto const alpha = std::is_same_v<ETr, ci_traits> ? chars<C>({'a', 'A'}) : chars<C>({'a', 0x0161});
        sweep<C, ETr, STr>(r, P_ALL & ~P_NEAR, "placed+custom_traits", alpha, maxHay, alpha, maxNeedle, default_singles(alpha), placements<C>(alpha, thorough), false);
    });
}

// periodic haystacks: w^k cut to every length, plus the same with the first / the last character flipped
template <typename C>
std::vector<std::basic_string<C>> periodic(std::size_t maxPeriod, std::size_t minLen, std::size_t maxLen)
{
    std::set<std::basic_string<C>> seen;
    std::vector<std::basic_string<C>> out;
    auto const words = all_strings<C>(chars<C>({'a', 'b'}), maxPeriod);
    auto flip        = [](C c) { return c == C('a') ? C('b') : C('a'); };
    for (auto const& w : words) {
        if (w.empty()) { continue; }
        for (std::size_t len = minLen; len <= maxLen; ++len) {
            std::basic_string<C> s;
            for (std::size_t i = 0; i < len; ++i) { s.push_back(w[i % w.size()]); }
            for (int variant = 0; variant < 3; ++variant) {
                auto t = s;
                if (variant == 1 && len > 0) { t.back() = flip(t.back()); }
                if (variant == 2 && len > 0) { t.front() = flip(t.front()); }
                if (seen.insert(t).second) { out.push_back(std::move(t)); }
            }
        }
    }
    return out;
}

/// maxPeriod == 0: ALL strings over {a,b} of length minLen..maxLen instead of the periodic family
template <typename C, typename ETr = etl::char_traits<C>, typename STr = std::char_traits<C>>
void add_long(mc::Main& m, std::vector<std::string> tiers, std::size_t maxPeriod, std::size_t minLen, std::size_t maxLen, std::size_t maxNeedle)
{
    m.job(cat("long/", cname<C>(), tname<ETr>(), maxPeriod ? cat("/period", maxPeriod) : std::string("/all"), "/len", minLen, "-", maxLen, "/needle", maxNeedle), tiers, [=](mc::Reporter& r) {
        Runner<C, ETr, STr> run(r, maxPeriod ? "periodic" : "long");
        std::vector<std::basic_string<C>> hays;
        if (maxPeriod) {
            hays = periodic<C>(maxPeriod, minLen, maxLen);
        } else {
            for (auto& s : all_strings<C>(chars<C>({'a', 'b'}), maxLen)) {
                if (s.size() >= minLen) { hays.push_back(std::move(s)); }
            }
        }
        std::vector<Operand<C>> needles;
        auto const needleAlpha = std::is_same_v<ETr, ci_traits> ? chars<C>({'A', 'B'}) : chars<C>({'a', 'b'});
        for (auto const& s : all_strings<C>(needleAlpha, maxNeedle)) {
            if (!s.empty()) { needles.emplace_back(s, Place{}, false); }
        }
        std::vector<C> const none;
        for (auto const& hs : hays) {
            Operand<C> const H(hs, Place{}, false);
            for (auto const& N : needles) { run.run(P_SV | P_CSTR | P_PRED | P_CMP1 | P_REL, H, N, false, none); }
            if (r.deadline_passed()) {
                r.not_exhaustive("deadline");
                break;
            }
        }
        run.finish();
        r.count("haystacks", hays.size());
        r.count("needles", needles.size());
    });
}

// ---------------------------------------------------------------------------------------------------------------
// big / huge views: sizes around 2^8, 2^9, 2^16 (quick) and 2^31, 2^32 (thorough, char, zero-page mapping) - a counter,
// an offset or a length held in a type narrower than size_type wraps there.  Hand-written call list (the full menu's
// pos lists are linear in the length); h = a^(L-1) b resp. NUL^(L-2) a b.
// ---------------------------------------------------------------------------------------------------------------
template <typename C>
struct BigStep {
    using EV = etl::basic_string_view<C>;
    using SV = std::basic_string_view<C>;
    mc::Reporter& r;
    std::string ctx;
    EV eh, en;
    SV sh, sn;
    std::uint64_t evals{0}, nontrivial{0};
    std::uint64_t san{mc::san_hits()};

    template <typename F>
    void call(char const* subj, char const* cls, std::string const& args, F f)
    {
        ll const want = f(sh, sn);
        ll got        = 0;
        san           = mc::san_hits();
        mc::Trap const t = mc::guarded([&] { got = f(eh, en); });
        std::string const k = cat(ctx, " call=", subj, " ", args);
        ++evals;
        if (want != 0 && want != -1) { ++nontrivial; }
        if (t != mc::Trap::none) {
            r.violation(t == mc::Trap::assert_fired ? "C05" : "C02", cat("basic_string_view::", subj), cat(cls, "/", mc::trap_name(t)), k, mc::describe_trap(t));
            return;
        }
        if (mc::san_hits() != san) { r.violation("C02", cat("basic_string_view::", subj), cls, k, "ASan/UBSan report (see job log)"); }
        if (got != want) { r.violation("C08", cat("basic_string_view::", subj), cls, k, cat("tetl=", got, " std=", want)); }
        if (r.wants_sample()) { r.sample(k); }
    }

    /// calls whose cost does not depend on the length (they start at / near the end or do not scan at all)
    void cheap(char const* cls, std::size_t L, C last)
    {
        auto A = [](auto... x) { return cat("(", x..., ")"); };
        call("size/length/empty", cls, "", [](auto h, auto) { return ll(h.size()); });
        call("begin/end", cls, "", [](auto h, auto) { return ll(h.end() - h.begin()); });
        call("rbegin/rend", cls, "", [](auto h, auto) { return ll(h.rend() - h.rbegin()); });
        call("back", cls, "", [](auto h, auto) { return ll(h.back()); });
        call("operator[]", cls, A(shz(L - 1)), [=](auto h, auto) { return ll(h[L - 1]) * 256 + ll(h[L - 2]); });
        call("rbegin/rend", cls, A(shz(L - 1)), [=](auto h, auto) { return ll(h.rbegin()[std::ptrdiff_t(L - 1)] == h.front()); });
        for (std::size_t pos : {L - 2, L - 1, L}) {
            for (std::size_t cnt : {std::size_t(0), std::size_t(1), std::size_t(2), L - 1, L, NPOS}) {
                call("substr(pos,count)", cls, A(shz(pos), ",", shz(cnt)), [=](auto h, auto) {
                    auto const sub = h.substr(pos, cnt);
                    return ll(sub.size()) * 4 + ll(sub.data() - h.data() == std::ptrdiff_t(pos)) * 2 + ll(!sub.empty() && sub.back() == last);
                });
                call("copy(dest,count,pos)", cls, A(shz(pos), ",", shz(cnt)), [=](auto h, auto) {
                    C d[4] = {C(1), C(1), C(1), C(1)};
                    auto const got = h.copy(d, cnt, pos);
                    return ll(got) * 65536 + ll(static_cast<std::make_unsigned_t<C>>(d[0])) % 251 * 256 + ll(static_cast<std::make_unsigned_t<C>>(d[1])) % 251 + ll(d[2] == C(1));
                });
                call("compare(pos1,count1,sv)", cls, A(shz(pos), ",", shz(cnt)), [=](auto h, auto n) { return sgn(h.compare(pos, cnt, n.substr(n.size() - 2))); });
                call("compare(pos1,count1,sv,pos2,count2)", cls, A(shz(pos), ",", shz(cnt), ",", shz(pos), ",", shz(cnt)), [=](auto h, auto n) { return sgn(h.compare(pos, cnt, n, pos, cnt)); });
            }
            call("find(ch,pos)", cls, A(shz(pos)), [=](auto h, auto) { return ll(h.find(last, pos)); });
            call("find(sv,pos)", cls, A(shz(pos)), [=](auto h, auto n) { return ll(h.find(n.substr(n.size() - 2), pos)); });
            call("find(sv,pos)", cls, A(shz(pos), " needle=last"), [=](auto h, auto n) { return ll(h.find(n.substr(n.size() - 1), pos)); });
            call("find_first_of(sv,pos)", cls, A(shz(pos)), [=](auto h, auto n) { return ll(h.find_first_of(n.substr(n.size() - 1), pos)); });
            call("find_first_not_of(sv,pos)", cls, A(shz(pos)), [=](auto h, auto n) { return ll(h.find_first_not_of(n.substr(0, 1), pos)); });
            call("find_first_not_of(ch,pos)", cls, A(shz(pos)), [=](auto h, auto) { return ll(h.find_first_not_of(h.front(), pos)); });
            // backward searches look for the character AT pos (found at once; a miss would walk the whole view)
            call("rfind(ch,pos)", cls, A(shz(pos)), [=](auto h, auto) { return ll(h.rfind(h[pos < L ? pos : L - 1], pos)); });
            call("find_last_of(sv,pos)", cls, A(shz(pos)), [=](auto h, auto) { return ll(h.find_last_of(h.substr(L - 2), pos)); });
            call("find_last_of(ch,pos)", cls, A(shz(pos)), [=](auto h, auto) { return ll(h.find_last_of(h[pos < L ? pos : L - 1], pos)); });
            call("find_last_not_of(sv,pos)", cls, A(shz(pos)), [=](auto h, auto n) { return ll(h.find_last_not_of(n.substr(n.size() - 1), pos)); });
            call("find_last_not_of(ch,pos)", cls, A(shz(pos)), [=](auto h, auto) { return ll(h.find_last_not_of(last, pos)); });
        }
        call("rfind(ch)", cls, "", [=](auto h, auto) { return ll(h.rfind(last)); });
        call("find_last_of(sv)", cls, "", [=](auto h, auto n) { return ll(h.find_last_of(n.substr(n.size() - 1))); });
        call("find_last_not_of(sv)", cls, "", [=](auto h, auto n) { return ll(h.find_last_not_of(n.substr(n.size() - 1))); });
        call("ends_with(sv)", cls, "needle=last two", [=](auto h, auto n) { return ll(h.ends_with(n.substr(n.size() - 2))); });
        call("ends_with(ch)", cls, "", [=](auto h, auto) { return ll(h.ends_with(last)); });
        call("starts_with(sv)", cls, "needle=first two", [=](auto h, auto n) { return ll(h.starts_with(n.substr(0, 2))); });
        for (std::size_t k : {L - 2, L - 1, L}) {
            call("remove_prefix(n)", cls, A(shz(k)), [=](auto h, auto) {
                auto const d = h.data();
                h.remove_prefix(k);
                return ll(h.size()) * 4 + ll(h.data() - d == std::ptrdiff_t(k)) * 2 + ll(!h.empty() && h.back() == last);
            });
            call("remove_suffix(n)", cls, A(shz(k)), [=](auto h, auto) {
                auto const d = h.data();
                h.remove_suffix(k);
                return ll(h.size()) * 2 + ll(h.data() == d);
            });
        }
        call("swap", cls, "", [=](auto h, auto n) {
            h.swap(n);
            return ll(n.size()) * 2 + ll(h.size() == n.size());
        });
    }

    /// calls that walk the whole view
    void scans(char const* cls, C last, bool all = true)
    {
        call("find(ch)", cls, "", [=](auto h, auto) { return ll(h.find(last)); });
        call("rfind(ch)", cls, "absent", [=](auto h, auto) { return ll(h.rfind(C('x'))); });
        call("find_first_not_of(ch)", cls, "", [=](auto h, auto) { return ll(h.find_first_not_of(h.front())); });
        call("compare(sv)", cls, "needle=other view of the same length, last character differs", [=](auto h, auto n) { return sgn(h.compare(n)); });
        if (!all) { return; }
        call("operator==", cls, "needle differs in the last character", [=](auto h, auto n) { return ll(h == n); });
        call("starts_with(sv)", cls, "needle=all but the last character", [=](auto h, auto n) { return ll(h.starts_with(n.substr(0, n.size() - 1))) * 2 + ll(h.starts_with(n)); });
        call("find(sv)", cls, "needle=last two", [=](auto h, auto n) { return ll(h.find(n.substr(n.size() - 2))); });
        call("find_first_of(sv)", cls, "", [=](auto h, auto n) { return ll(h.find_first_of(n.substr(n.size() - 1))); });
        call("find_last_not_of(ch)", cls, "absent", [=](auto h, auto) { return ll(h.find_last_not_of(C('x'))); });
        call("find_last_of(ch,pos)", cls, "absent", [=](auto h, auto) { return ll(h.find_last_of(C('x'))); });
        call("rfind(sv)", cls, "needle=last two", [=](auto h, auto n) { return ll(h.rfind(n.substr(n.size() - 2))); });
        call("contains(sv)", cls, "needle=last two", [=](auto h, auto n) { return ll(contains_(h, n.substr(n.size() - 2))); });
        call("compare(sv)", cls, "needle=the view itself", [=](auto h, auto) { return sgn(h.compare(h)); });
        call("operator<", cls, "needle differs in the last character", [=](auto h, auto n) { return ll(h < n) * 2 + ll(n < h); });
        call("ends_with(sv)", cls, "needle=all but the first character", [=](auto h, auto) { return ll(h.ends_with(h.substr(1))); });
        call("find(sv)", cls, "needle=all but the first character", [=](auto h, auto) { return ll(h.find(h.substr(1))); });
        call("begin/end", cls, "content", [=](auto h, auto) { return hash_range(h.begin(), h.end()); });
        call("rbegin/rend", cls, "content", [=](auto h, auto) { return hash_range(h.rbegin(), h.rend()); });
    }
};

template <typename C>
void add_big(mc::Main& m, std::vector<std::string> tiers)
{
    m.job(cat("big/", cname<C>()), tiers, [](mc::Reporter& r) {
        std::uint64_t evals = 0, nontriv = 0;
        for (std::size_t L : {254u, 255u, 256u, 257u, 511u, 512u, 513u, 65534u, 65535u, 65536u, 65537u, 70001u}) {
            std::basic_string<C> hs(L - 1, C('a'));
            hs.push_back(C('b'));
            std::basic_string<C> ns = hs;
            ns.back()               = C('c');
            mc::GuardedBlock<C> hb(L), nb(L);
            std::copy(hs.begin(), hs.end(), hb.data());
            std::copy(ns.begin(), ns.end(), nb.data());
            BigStep<C> st{r, cat(cname<C>(), " hay=a^", L - 1, " b needle=a^", L - 1, " c")};
            st.eh = {hb.data(), L};
            st.en = {nb.data(), L};
            st.sh = hs;
            st.sn = ns;
            st.cheap("big", L, C('b'));
            st.scans("big", C('b'));
            // the roles swapped: the needle's last two characters are "ac"
            st.ctx = cat(cname<C>(), " hay=a^", L - 1, " c needle=a^", L - 1, " b");
            std::swap(st.eh, st.en);
            std::swap(st.sh, st.sn);
            st.scans("big", C('c'));
            evals += st.evals;
            nontriv += st.nontrivial;
        }
        r.count("evaluations", evals);
        r.count("distinct_nontrivial", nontriv);
    });
}

#if !defined(MC_FLAVOUR_SAN)
} // namespace
#include <sys/mman.h>
namespace {
/// 2^31+2 and 2^32+2 characters: private anonymous mappings (zero pages; only the pages holding the few non-NUL
/// characters are ever written), char only, not under ASan
inline void add_huge(mc::Main& m, std::vector<std::string> tiers)
{
    m.job("huge/char", tiers, [](mc::Reporter& r) {
        std::uint64_t evals = 0, nontriv = 0;
        for (std::size_t L : {(std::size_t(1) << 31) + 2, (std::size_t(1) << 32) + 2}) {
            void* a = ::mmap(nullptr, L, PROT_READ | PROT_WRITE, MAP_PRIVATE | MAP_ANONYMOUS | MAP_NORESERVE, -1, 0);
            void* b = ::mmap(nullptr, L, PROT_READ | PROT_WRITE, MAP_PRIVATE | MAP_ANONYMOUS | MAP_NORESERVE, -1, 0);
            if (a == MAP_FAILED || b == MAP_FAILED) {
                r.not_exhaustive("cannot map the huge views");
                return;
            }
            char* ha  = static_cast<char*>(a);
            char* na  = static_cast<char*>(b);
            ha[L - 2] = 'a', ha[L - 1] = 'b';
            na[L - 2] = 'a', na[L - 1] = 'c';
            BigStep<char> st{r, cat("char hay=NUL^", shz(L - 2), " a b (", L, " characters) needle=NUL^", shz(L - 2), " a c")};
            st.eh = {ha, L};
            st.en = {na, L};
            st.sh = {ha, L}; // both sides only read: the model views the same mapping
            st.sn = {na, L};
            st.cheap("huge", L, 'b');
            if (L > (std::size_t(1) << 32)) { st.scans("huge", 'b', false); }
            evals += st.evals;
            nontriv += st.nontrivial;
            ::munmap(a, L);
            ::munmap(b, L);
            if (r.deadline_passed()) {
                r.not_exhaustive("deadline");
                break;
            }
        }
        r.count("evaluations", evals);
        r.count("distinct_nontrivial", nontriv);
    });
}
#endif

// ---------------------------------------------------------------------------------------------------------------
// literals
// ---------------------------------------------------------------------------------------------------------------
template <typename EV, typename SV>
void lit(mc::Reporter& r, std::uint64_t& evals, char const* what, EV e, SV s, void const* expected_data)
{
    using C = typename SV::value_type;
    static_assert(std::is_same_v<typename EV::value_type, C>);
    ++evals;
    bool const same = e.size() == s.size() && std::equal(s.begin(), s.end(), e.data());
    if (!same) {
        r.violation("C08", "operator\"\"_sv", "literal", cat(cname<C>(), " ", what), cat("tetl size=", e.size(), " content=", mc::show_chars(e.begin(), e.end()), " std size=", s.size()));
    }
    if (expected_data != nullptr && static_cast<void const*>(e.data()) != expected_data) {
        r.violation("C08", "operator\"\"_sv", "literal", cat(cname<C>(), " ", what), "data() does not point at the literal");
    }
}

void add_literals(mc::Main& m, std::vector<std::string> tiers)
{
    m.job("literals", tiers, [](mc::Reporter& r) {
        using namespace etl::literals;
        using namespace std::literals;
        std::uint64_t evals = 0;
#define C08_LIT(x) lit(r, evals, #x, x##_sv, x##sv, nullptr)
        C08_LIT("");
        C08_LIT("a");
        C08_LIT("abc");
        C08_LIT("a\0b");
        C08_LIT("\0");
        C08_LIT("\x80\xff");
        C08_LIT(L"");
        C08_LIT(L"abc");
        C08_LIT(L"a\0b");
        C08_LIT(L"\x20ac\x10061");
        C08_LIT(u8"");
        C08_LIT(u8"abc");
        C08_LIT(u8"a\0b");
        C08_LIT(u8"\u20ac");
        C08_LIT(u"");
        C08_LIT(u"abc");
        C08_LIT(u"a\0b");
        C08_LIT(u"\u20ac\ufffd");
        C08_LIT(U"");
        C08_LIT(U"abc");
        C08_LIT(U"a\0b");
        C08_LIT(U"\U0010ffff\u0100");
#undef C08_LIT
        // the literal operator is constexpr and the result usable in constant expressions
        static_assert("a\0b"_sv.size() == 3 && "a\0b"_sv[2] == 'b' && u"xy"_sv.back() == u'y' && U""_sv.empty() && L"q"_sv.front() == L'q'
                      && u8"12"_sv.find(u8'2') == 1);
        static_assert(std::is_same_v<decltype("a"_sv), etl::string_view> && std::is_same_v<decltype(L"a"_sv), etl::wstring_view>
                      && std::is_same_v<decltype(u8"a"_sv), etl::u8string_view> && std::is_same_v<decltype(u"a"_sv), etl::u16string_view>
                      && std::is_same_v<decltype(U"a"_sv), etl::u32string_view>);
        {
            static constexpr char text[] = "hello";
            lit(r, evals, "operator\"\"_sv(text, 5)", etl::literals::operator""_sv(text, 5), std::string_view(text, 5), text);
            lit(r, evals, "operator\"\"_sv(text, 0)", etl::literals::operator""_sv(text, 0), std::string_view(text, 0), text);
            lit(r, evals, "operator\"\"_sv(text+2, 2)", etl::literals::operator""_sv(text + 2, 2), std::string_view(text + 2, 2), text + 2);
        }
        r.count("evaluations", evals);
        r.count("distinct_nontrivial", evals);
        r.sample("\"a\\0b\"_sv, L\"...\"_sv, u8\"...\"_sv, u\"...\"_sv, U\"...\"_sv against the std ...sv literals: size and content");
        if (!etl_has_at) { r.note("API gap (not judged): basic_string_view::at is not provided"); }
        if (!etl_has_spaceship) { r.note("API gap (not judged): operator<=> is not provided for basic_string_view (the six relational operators are)"); }
    });
}

} // namespace

int main(int argc, char** argv)
{
    mc::Main m(argc, argv);
    std::vector<std::string> const q{"quick"};
    std::vector<std::string> const th{"thorough"};
    std::vector<std::string> const both{"quick", "thorough"};
#if MC_PART == 0
    // the quick set, first half (also part of the thorough tier): char, default and case-insensitive traits
    add_menu<char>(m, both, 5, 3, false);
    add_menu<char>(m, both, 3, 3, true);
    add_units<char>(m, both, 3, 2);
    add_traits<char, ci_traits>(m, both, 3, 2);
    add_placed<char>(m, both, 3, 3, false);
    add_placed_traits<char, ci_traits, ci_traits>(m, both, 2, 2, false);
    add_long<char>(m, both, 4, 5, 10, 5);
    add_literals(m, both);
    add_big<char>(m, both);
#elif MC_PART == 4
    // the quick set, second half: a wide signed character type and a custom traits class with reversed order
    add_menu<wchar_t>(m, both, 4, 3, false);
    add_units<wchar_t>(m, both, 2, 2);
    add_placed<wchar_t>(m, both, 3, 2, false);
    add_long<wchar_t>(m, both, 3, 5, 9, 4);
    add_traits<char16_t, rev_traits>(m, both, 3, 2);
    add_long<char16_t, rev_traits, rev_traits>(m, both, 3, 5, 8, 3);
    add_big<wchar_t>(m, both);
#elif MC_PART == 1
    add_menu<char>(m, th, 6, 4, false);
    add_menu<char>(m, th, 4, 3, true);
    add_units<char>(m, th, 3, 3);
    add_placed<char>(m, th, 4, 3, true);
    add_traits<char, ci_traits>(m, th, 3, 3);
    add_placed_traits<char, ci_traits, ci_traits>(m, th, 3, 2, true);
    add_long<char>(m, th, 0, 1, 9, 6);
    add_long<char>(m, th, 0, 10, 10, 6);
    add_long<char>(m, th, 0, 11, 11, 6);
    add_long<char>(m, th, 0, 12, 12, 6);
    add_long<char>(m, th, 6, 13, 14, 6);
    add_long<char>(m, th, 6, 15, 16, 6);
    add_long<char, ci_traits, ci_traits>(m, th, 5, 5, 10, 5);
    add_long<char, ci_traits, ci_traits>(m, th, 5, 11, 12, 5);
#if !defined(MC_FLAVOUR_SAN)
    add_huge(m, th);
#endif
#elif MC_PART == 2
    add_menu<char16_t>(m, th, 5, 4, false);
    add_menu<char16_t>(m, th, 4, 3, true);
    add_units<char16_t>(m, th, 3, 3);
    add_placed<char16_t>(m, th, 4, 3, true);
    add_long<char16_t>(m, th, 6, 5, 10, 6);
    add_long<char16_t>(m, th, 6, 11, 12, 6);
#elif MC_PART == 3
    add_menu<wchar_t>(m, th, 5, 4, false);
    add_units<wchar_t>(m, th, 3, 2);
    add_placed<wchar_t>(m, th, 4, 3, true);
    add_long<wchar_t>(m, th, 6, 5, 10, 6);
    add_long<wchar_t>(m, th, 6, 11, 12, 6);
    add_menu<char32_t>(m, th, 5, 4, false);
    add_menu<char32_t>(m, th, 3, 3, true);
    add_units<char32_t>(m, th, 3, 3);
    add_placed<char32_t>(m, th, 4, 3, true);
#elif MC_PART == 5
    add_menu<char8_t>(m, th, 5, 4, false);
    add_units<char8_t>(m, th, 3, 3);
    add_placed<char8_t>(m, th, 3, 3, true);
    add_long<char8_t>(m, th, 5, 5, 10, 5);
    add_traits<char16_t, rev_traits>(m, th, 4, 2);
    add_placed_traits<char16_t, rev_traits, rev_traits>(m, th, 3, 2, true);
#endif
    return m.run();
}
