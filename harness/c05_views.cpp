// C05 fault enumeration, part 3: span, array, optional, expected, variant, bitset, basic_bitset.
// Machinery and oracle: c05_common.hpp.
//
// Catalogue:
//   span<T> / span<T,N>   front/back on empty, operator[], first/last/subspan in the run-time and in the
//                         template form (the template forms of a dynamic-extent span can only be
//                         checked at run time), fixed-extent construction from (ptr, count != N)
//   array<T,N>            operator[] (the two TETL_PRECONDITION_SAFE sites), array<T,0> accessors
//   optional<T>, optional<T&>   operator* on the empty state, all four ref-qualifications
//   expected<T,E>         operator* on the error state, error() on the value state (4 each)
//   variant<Ts...>        operator[](index_v<I>) and unchecked_get<I> for every (I, active) pair, I != active
//   bitset<N>             set/reset/flip/test/operator[] with pos >= N; string constructors
//   basic_bitset<N,W>     operator[], unchecked_test/set/reset/flip with pos >= N
// optional::operator-> / expected::operator-> (return a null pointer for the empty state - documented for
// optional), value_or, has_value, reset, get_if<I>/get_if<T> (pointer / const pointer / nullptr) and
// holds_alternative have wide contracts: they appear as controls for every state (round 2).
// Round 2 also adds the fixed-extent span constructors from a sized range and from a dynamic span (non-const
// lvalue, const lvalue, prvalue sources); variant lives in MC_PART 4 (compile time).
#include "c05_common.hpp"

#include <etl/array.hpp>
#include <etl/bitset.hpp>
#include <etl/expected.hpp>
#include <etl/optional.hpp>
#include <etl/span.hpp>
#include <etl/string_view.hpp>
#include <etl/variant.hpp>
#include <etl/vector.hpp>

#include <utility>

using namespace c05;

#ifndef MC_PART
    #define MC_PART 1
#endif

namespace {

// ---------------------------------------------------------------------------------------------
// span
// ---------------------------------------------------------------------------------------------

template <typename Sp, std::size_t... Cs>
void span_template_counts(Catalogue& c, std::string const& st, std::size_t s, std::function<Sp*(Ctx&)> mk, char const* F, std::index_sequence<Cs...>)
{
    auto one = [&](auto constant) {
        constexpr std::size_t C = decltype(constant)::value;
        bool const bad          = C > s;
        auto add                = [&](char const* subject, std::string cls, std::string text, auto fn) {
            auto body = [=](Ctx& cx) {
                Sp* v = mk(cx);
                cx.call([&] { fn(*v); });
            };
            if (bad) {
                c.bad(subject, cls, cat(st, ": ", text), F, body);
            } else {
                c.ok(subject, cls, cat(st, ": ", text), body);
            }
        };
        std::string const cls = bad ? "count_past_bound" : (C == s ? "count_eq_size" : "count_lt_size");
        add("span::first<Count>()", cls, cat("first<", C, ">()"), [](Sp& v) { sink(v.template first<C>()); });
        add("span::last<Count>()", cls, cat("last<", C, ">()"), [](Sp& v) { sink(v.template last<C>()); });
        add("span::subspan<Offset,Count>()", bad ? "offset_past_bound" : (C == s ? "offset_eq_size" : "offset_lt_size"), cat("subspan<", C, ">()"),
            [](Sp& v) { sink(v.template subspan<C>()); });
        add("span::subspan<Offset,Count>()", cls, cat("subspan<0,", C, ">()"), [](Sp& v) { sink(v.template subspan<0, C>()); });
        if constexpr (C > 0) {
            // offset valid for C <= s+1, count 1 too long when C-1+1 > s
            add("span::subspan<Offset,Count>()", bad ? "count_past_bound" : "count_eq_rest", cat("subspan<", C - 1, ",1>()"),
                [](Sp& v) { sink(v.template subspan<C - 1, 1>()); });
        }
    };
    (one(std::integral_constant<std::size_t, Cs>{}), ...);
}

void span_dynamic_cases(Catalogue& c, bool thorough)
{
    using Sp            = etl::span<int>;
    constexpr auto dyn  = etl::dynamic_extent;
    c.config            = "span<int>";
    char const* const F = "_span/span.hpp";
    for (int L = -1; L <= 3; ++L) { // -1: default-constructed (null) span
        std::size_t const s  = L < 0 ? 0 : std::size_t(L);
        std::string const st = L < 0 ? std::string("null span") : cat("span of ", s);
        std::function<Sp*(Ctx&)> mk = [=](Ctx& cx) {
            if (L < 0) { return cx.make<Sp>(); }
            int* p = cx.buffer<int>(s, 10, 1);
            return cx.make<Sp>(p, s);
        };
        auto row = [&](bool bad, char const* subject, std::string cls, std::string text, auto fn) {
            auto body = [=](Ctx& cx) {
                Sp* v = mk(cx);
                cx.call([&] { fn(*v); });
            };
            if (bad) {
                c.bad(subject, cls, cat(st, ": ", text), F, body);
            } else {
                c.ok(subject, cls, cat(st, ": ", text), body);
            }
        };
        row(s == 0, "span::front()", s == 0 ? "empty" : "non_empty", "front()", [](Sp& v) { touch(v.front()); });
        row(s == 0, "span::back()", s == 0 ? "empty" : "non_empty", "back()", [](Sp& v) { touch(v.back()); });
        for (auto b : bad_values(s, thorough)) {
            row(true, "span::operator[](idx)", cat("index_", b.cls), cat("sp[", show_sz(b.v), "]"), [=](Sp& v) { touch(v[b.v]); });
        }
        if (s > 0) { row(false, "span::operator[](idx)", "index_last", cat("sp[", s - 1, "]"), [=](Sp& v) { touch(v[s - 1]); }); }
        for (auto b : bad_values(s + 1, thorough)) {
            std::string const P = show_sz(b.v);
            if (b.v != dyn) {
                row(true, "span::first(count)", cat("count_", b.cls), cat("first(", P, ")"), [=](Sp& v) { sink(v.first(b.v)); });
                row(true, "span::last(count)", cat("count_", b.cls), cat("last(", P, ")"), [=](Sp& v) { sink(v.last(b.v)); });
                row(true, "span::subspan(offset,count)", cat("count_", b.cls), cat("subspan(0, ", P, ")"), [=](Sp& v) { sink(v.subspan(0, b.v)); });
            } else {
                // SIZE_MAX is dynamic_extent for subspan's count (valid: "the rest"); first/last take it as a count
                row(true, "span::first(count)", cat("count_", b.cls), cat("first(", P, ")"), [=](Sp& v) { sink(v.first(b.v)); });
                row(true, "span::last(count)", cat("count_", b.cls), cat("last(", P, ")"), [=](Sp& v) { sink(v.last(b.v)); });
            }
            row(true, "span::subspan(offset,count)", cat("offset_", b.cls), cat("subspan(", P, ")"), [=](Sp& v) { sink(v.subspan(b.v)); });
            row(true, "span::subspan(offset,count)", cat("offset_", b.cls), cat("subspan(", P, ", 0)"), [=](Sp& v) { sink(v.subspan(b.v, 0)); });
        }
        if (s > 0) {
            // offset valid, count one more than the rest
            row(true, "span::subspan(offset,count)", "count_past_rest", cat("subspan(1, ", s, ")"), [=](Sp& v) { sink(v.subspan(1, s)); });
            row(true, "span::subspan(offset,count)", "count_past_rest", cat("subspan(", s, ", 1)"), [=](Sp& v) { sink(v.subspan(s, 1)); });
        }
        // offset valid, offset + count wraps around SIZE_MAX: a check written as `offset + count <= size()` misses these
        // (added after seeded breakage c05_subspan_sum_wraps)
        for (std::size_t o = 2; o <= s; ++o) {
            for (std::size_t cnt : {dyn - o + 1, dyn - 1}) {
                row(true, "span::subspan(offset,count)", "sum_wraps", cat("subspan(", o, ", SIZE_MAX-", dyn - cnt, ")"),
                    [=](Sp& v) { sink(v.subspan(o, cnt)); });
            }
        }
        row(false, "span::first(count)", "count_eq_size", cat("first(", s, ")"), [=](Sp& v) { sink(v.first(s)); });
        row(false, "span::last(count)", "count_eq_size", cat("last(", s, ")"), [=](Sp& v) { sink(v.last(s)); });
        row(false, "span::subspan(offset,count)", "offset_eq_size", cat("subspan(", s, ")"), [=](Sp& v) { sink(v.subspan(s)); });
        row(false, "span::subspan(offset,count)", "count_eq_size", cat("subspan(0, ", s, ")"), [=](Sp& v) { sink(v.subspan(0, s)); });
        row(false, "span::subspan(offset,count)", "offset_eq_size+count_0", cat("subspan(", s, ", 0)"), [=](Sp& v) { sink(v.subspan(s, 0)); });
        span_template_counts<Sp>(c, st, s, mk, F, std::make_index_sequence<5>{});
    }
}

template <std::size_t N>
void span_fixed_cases(Catalogue& c, bool thorough)
{
    using Sp            = etl::span<int, N>;
    c.config            = cat("span<int,", N, ">");
    char const* const F = "_span/span.hpp";
    std::string const st = cat("span of ", N);
    auto mk = [=](Ctx& cx) {
        int* p = cx.buffer<int>(N, 10, 1);
        return cx.make<Sp>(p, N);
    };
    auto row = [&](bool bad, char const* subject, std::string cls, std::string text, auto fn) {
        auto body = [=](Ctx& cx) {
            Sp* v = mk(cx);
            cx.call([&] { fn(*v); });
        };
        if (bad) {
            c.bad(subject, cls, cat(st, ": ", text), F, body);
        } else {
            c.ok(subject, cls, cat(st, ": ", text), body);
        }
    };
    row(N == 0, "span::front()", N == 0 ? "empty" : "non_empty", "front()", [](Sp& v) { touch(v.front()); });
    row(N == 0, "span::back()", N == 0 ? "empty" : "non_empty", "back()", [](Sp& v) { touch(v.back()); });
    for (auto b : bad_values(N, thorough)) {
        row(true, "span::operator[](idx)", cat("index_", b.cls), cat("sp[", show_sz(b.v), "]"), [=](Sp& v) { touch(v[b.v]); });
    }
    for (auto b : bad_values(N + 1, thorough)) {
        std::string const P = show_sz(b.v);
        row(true, "span::first(count)", cat("count_", b.cls), cat("first(", P, ")"), [=](Sp& v) { sink(v.first(b.v)); });
        row(true, "span::last(count)", cat("count_", b.cls), cat("last(", P, ")"), [=](Sp& v) { sink(v.last(b.v)); });
        row(true, "span::subspan(offset,count)", cat("offset_", b.cls), cat("subspan(", P, ")"), [=](Sp& v) { sink(v.subspan(b.v)); });
    }
    row(false, "span::first(count)", "count_eq_size", cat("first(", N, ")"), [=](Sp& v) { sink(v.first(N)); });
    row(false, "span::last(count)", "count_eq_size", cat("last(", N, ")"), [=](Sp& v) { sink(v.last(N)); });
    row(false, "span::subspan(offset,count)", "offset_eq_size", cat("subspan(", N, ")"), [=](Sp& v) { sink(v.subspan(N)); });
    // construction of a fixed-extent span from a range of another length ([span.cons]: count == extent)
    for (std::size_t cnt : {N + 1, N + 2, N == 0 ? N + 3 : N - 1}) {
        c.bad("span<T,N>::span(first,count)", cnt > N ? "count_gt_extent" : "count_lt_extent", cat("span<int,", N, ">(p, ", cnt, ")"), F,
            [=](Ctx& cx) {
                Sp* raw = cx.raw<Sp>();
                int* p  = cx.buffer<int>(N + 3, 10, 1);
                cx.call([&] { ::new (static_cast<void*>(raw)) Sp(p, cnt); });
            },
            false);
    }
    c.ok("span<T,N>::span(first,count)", "count_eq_extent", cat("span<int,", N, ">(p, ", N, ")"), [=](Ctx& cx) {
        Sp* raw = cx.raw<Sp>();
        int* p  = cx.buffer<int>(N + 3, 10, 1);
        cx.call([&] { ::new (static_cast<void*>(raw)) Sp(p, N); });
    });
    // round 2: the other two ways of giving a fixed-extent span a run-time size ([span.cons]: size == extent)
    //   span<T const,N>(sized contiguous range)   here: static_vector<int,N+3> of every size 0..N+3
    //   span<T,N>(span<U,dynamic_extent>)         here: dynamic spans of every length 0..N+3
    using CSp = etl::span<int const, N>;
    using SV  = etl::static_vector<int, N + 3>;
    for (std::size_t cnt = 0; cnt <= N + 3; ++cnt) {
        std::string const cls = cnt == N ? "size_eq_extent" : cnt > N ? "size_gt_extent" : "size_lt_extent";
        auto fromRange        = [=](Ctx& cx) {
            CSp* raw = cx.raw<CSp>();
            SV* v    = cx.make<SV>();
            for (std::size_t i = 0; i < cnt; ++i) { v->push_back(int(10 + i)); }
            cx.call([&] { ::new (static_cast<void*>(raw)) CSp(static_cast<SV const&>(*v)); });
        };
        auto fromSpan = [=](Ctx& cx) {
            Sp* raw = cx.raw<Sp>();
            int* p  = cx.buffer<int>(N + 3, 10, 1);
            auto* d = cx.make<etl::span<int>>(p, cnt);
            cx.call([&] { ::new (static_cast<void*>(raw)) Sp(*d); });
        };
        auto fromConstSpan = [=](Ctx& cx) {
            CSp* raw = cx.raw<CSp>();
            int* p   = cx.buffer<int>(N + 3, 10, 1);
            auto* d  = cx.make<etl::span<int>>(p, cnt);
            cx.call([&] { ::new (static_cast<void*>(raw)) CSp(*d); });
        };
        // a non-const lvalue span is taken by the range constructor (its constraint tests is_span<R> with R = span&),
        // a const lvalue and a prvalue by the converting constructor: all three must check the size
        auto fromConstLvalue = [=](Ctx& cx) {
            Sp* raw = cx.raw<Sp>();
            int* p  = cx.buffer<int>(N + 3, 10, 1);
            auto* d = cx.make<etl::span<int>>(p, cnt);
            cx.call([&] { ::new (static_cast<void*>(raw)) Sp(static_cast<etl::span<int> const&>(*d)); });
        };
        auto fromPrvalue = [=](Ctx& cx) {
            Sp* raw = cx.raw<Sp>();
            int* p  = cx.buffer<int>(N + 3, 10, 1);
            cx.call([&] { ::new (static_cast<void*>(raw)) Sp(etl::span<int>(p, cnt)); });
        };
        std::string const t1 = cat("span<int const,", N, ">(static_vector<int,", N + 3, "> of size ", cnt, ")");
        std::string const t2 = cat("span<int,", N, ">(span<int> of ", cnt, ")");
        std::string const t3 = cat("span<int const,", N, ">(span<int> of ", cnt, ")");
        std::string const t4 = cat("span<int,", N, ">(span<int> const& of ", cnt, ")");
        std::string const t5 = cat("span<int,", N, ">(span<int>(p, ", cnt, "))");
        if (cnt == N) {
            c.ok("span<T,N>::span(range)", cls, t1, fromRange);
            c.ok("span<T,N>::span(span<U,dynamic_extent>)", cls, t2, fromSpan);
            c.ok("span<T,N>::span(span<U,dynamic_extent>)", cls, t3, fromConstSpan);
            c.ok("span<T,N>::span(span<U,dynamic_extent>)", cls, t4, fromConstLvalue);
            c.ok("span<T,N>::span(span<U,dynamic_extent>)", cls, t5, fromPrvalue);
        } else {
            c.bad("span<T,N>::span(range)", cls, t1, F, fromRange, false);
            c.bad("span<T,N>::span(span<U,dynamic_extent>)", cls, t2, F, fromSpan, false);
            c.bad("span<T,N>::span(span<U,dynamic_extent>)", cls, t3, F, fromConstSpan, false);
            c.bad("span<T,N>::span(span<U,dynamic_extent>)", cls, t4, F, fromConstLvalue, false);
            c.bad("span<T,N>::span(span<U,dynamic_extent>)", cls, t5, F, fromPrvalue, false);
        }
    }
}

// ---------------------------------------------------------------------------------------------
// array
// ---------------------------------------------------------------------------------------------

template <std::size_t N>
void array_cases(Catalogue& c, bool thorough)
{
    using A             = etl::array<int, N>;
    c.config            = cat("array<int,", N, ">");
    char const* const F = "_array/array.hpp";
    auto mk = [](Ctx& cx) {
        A* a = cx.make<A>();
        if constexpr (N > 0) {
            for (std::size_t i = 0; i < N; ++i) { a->data()[i] = int(10 + i); }
        }
        return a;
    };
    auto row = [&](bool bad, char const* subject, std::string cls, std::string text, auto fn) {
        auto body = [=](Ctx& cx) {
            A* a = mk(cx);
            cx.call([&] { fn(*a); });
        };
        if (bad) {
            c.bad(subject, cls, text, F, body);
        } else {
            c.ok(subject, cls, text, body);
        }
    };
    char const* const z = N == 0 ? "zero_size+" : "";
#if defined(MC_FLAVOUR_CHKFAST)
    // only TETL_ENABLE_CONTRACT_CHECKS: the TETL_PRECONDITION_SAFE sites of operator[] are compiled out by design
    (void)thorough;
    (void)z;
    for (auto b : std::vector<BadArg>{}) {
#else
    for (auto b : bad_values(N, thorough)) {
#endif
        row(true, "array::operator[](pos)", cat(z, "index_", b.cls), cat("a[", show_sz(b.v), "]"), [=](A& a) { touch(a[b.v]); });
        row(true, "array::operator[](pos) const", cat(z, "index_", b.cls), cat("ca[", show_sz(b.v), "]"), [=](A& a) { touch(static_cast<A const&>(a)[b.v]); });
    }
    if constexpr (N > 0) {
        row(false, "array::operator[](pos)", "index_last", cat("a[", N - 1, "]"), [=](A& a) { touch(a[N - 1]); });
        row(false, "array::operator[](pos) const", "index_last", cat("ca[", N - 1, "]"), [=](A& a) { touch(static_cast<A const&>(a)[N - 1]); });
        row(false, "array::front()", "non_empty", "front()", [](A& a) { touch(a.front()); });
        row(false, "array::back()", "non_empty", "back()", [](A& a) { touch(a.back()); });
    } else {
        row(true, "array::front()", "zero_size", "front()", [](A& a) { touch(a.front()); });
        row(true, "array::front() const", "zero_size", "front() const", [](A& a) { touch(static_cast<A const&>(a).front()); });
        row(true, "array::back()", "zero_size", "back()", [](A& a) { touch(a.back()); });
        row(true, "array::back() const", "zero_size", "back() const", [](A& a) { touch(static_cast<A const&>(a).back()); });
    }
}

// ---------------------------------------------------------------------------------------------
// optional / expected / variant
// ---------------------------------------------------------------------------------------------

struct NTV { // non-trivial payload
    int v;
    NTV() noexcept : v(0) { }
    NTV(int x) noexcept : v(x) { }
    NTV(NTV const& o) noexcept : v(o.v) { }
    NTV& operator=(NTV const& o) noexcept
    {
        v = o.v;
        return *this;
    }
    ~NTV() { v = -77; }
};

template <typename T>
void optional_cases(Catalogue& c, char const* tn)
{
    using O             = etl::optional<T>;
    c.config            = cat("optional<", tn, ">");
    char const* const F = "_optional/optional.hpp|_variant/variant.hpp";
    for (int state = 0; state < 3; ++state) { // 0 default-empty, 1 engaged, 2 engaged then reset
        bool const empty     = state != 1;
        std::string const st = state == 0 ? "empty" : state == 1 ? "engaged" : "reset after engaged";
        auto mk              = [=](Ctx& cx) {
            O* o = cx.make<O>();
            if (state >= 1) { o->emplace(T(7)); }
            if (state == 2) { o->reset(); }
            return o;
        };
        auto row = [&](char const* subject, auto fn) {
            auto body = [=](Ctx& cx) {
                O* o = mk(cx);
                cx.call([&] { fn(*o); });
            };
            if (empty) {
                c.bad(subject, state == 0 ? "empty" : "empty_after_reset", cat(st, ": ", subject), F, body);
            } else {
                c.ok(subject, "engaged", cat(st, ": ", subject), body);
            }
        };
        row("optional::operator*() &", [](O& o) { touch(*o); });
        row("optional::operator*() const&", [](O& o) { touch(*static_cast<O const&>(o)); });
        row("optional::operator*() &&", [](O& o) { touch(*std::move(o)); });
        row("optional::operator*() const&&", [](O& o) { touch(*std::move(static_cast<O const&>(o))); });
        // round 2: the wide-contract observers of the same states never reach the handler
        auto wide = [&](char const* subject, auto fn) {
            c.ok(subject, empty ? "empty" : "engaged", cat(st, ": ", subject), [=](Ctx& cx) {
                O* o = mk(cx);
                cx.call([&] { fn(*o); });
            });
        };
        wide("optional::operator->()", [](O& o) { sink(o.operator->()); });
        wide("optional::operator->() const", [](O& o) { sink(static_cast<O const&>(o).operator->()); });
        wide("optional::value_or(default) const&", [](O& o) { sink(static_cast<O const&>(o).value_or(T(3))); });
        wide("optional::value_or(default) &&", [](O& o) { sink(std::move(o).value_or(T(3))); });
        wide("optional::has_value()", [](O& o) { sink(o.has_value()); });
        wide("optional::reset()", [](O& o) { o.reset(); });
        wide("optional::operator==(optional,nullopt)", [](O& o) { sink(o == etl::nullopt); });
    }
}

void optional_ref_cases(Catalogue& c)
{
    using O             = etl::optional<int&>;
    c.config            = "optional<int&>";
    char const* const F = "_optional/optional.hpp";
    for (int state = 0; state < 4; ++state) { // 0 default, 1 bound, 2 bound then reset, 3 from nullopt
        bool const empty     = state != 1;
        std::string const st = state == 0 ? "empty" : state == 1 ? "bound" : state == 2 ? "reset after bound" : "nullopt";
        auto body            = [=](Ctx& cx) {
            int* target = cx.buffer<int>(1, 5, 0);
            O* o        = state == 3 ? cx.make<O>(etl::nullopt) : (state == 0 ? cx.make<O>() : cx.make<O>(*target));
            if (state == 2) { o->reset(); }
            cx.call([&] { touch(**o); });
        };
        if (empty) {
            c.bad("optional<T&>::operator*()", state == 2 ? "empty_after_reset" : "empty", cat(st, ": *o"), F, body);
        } else {
            c.ok("optional<T&>::operator*()", "bound", cat(st, ": *o"), body);
        }
        c.ok("optional<T&>::operator->()", empty ? "empty" : "bound", cat(st, ": o.operator->()"), [=](Ctx& cx) {
            int* target = cx.buffer<int>(1, 5, 0);
            O* o        = state == 3 ? cx.make<O>(etl::nullopt) : (state == 0 ? cx.make<O>() : cx.make<O>(*target));
            if (state == 2) { o->reset(); }
            cx.call([&] { sink(o->operator->()); });
        });
    }
}

template <typename T, typename E>
void expected_cases(Catalogue& c, char const* tn, char const* en)
{
    using X             = etl::expected<T, E>;
    c.config            = cat("expected<", tn, ",", en, ">");
    char const* const F = "_expected/expected.hpp|_variant/variant.hpp";
    for (int state = 0; state < 3; ++state) { // 0 value (default), 1 error, 2 error then emplace(value)
        bool const has       = state != 1;
        std::string const st = state == 0 ? "value" : state == 1 ? "error" : "value emplaced over error";
        auto mk              = [=](Ctx& cx) {
            X* x = state == 0 ? cx.make<X>(etl::in_place, T(7)) : cx.make<X>(etl::unexpect, E(3));
            if (state == 2) { x->emplace(T(8)); }
            return x;
        };
        auto row = [&](bool bad, char const* subject, auto fn) {
            auto body = [=](Ctx& cx) {
                X* x = mk(cx);
                cx.call([&] { fn(*x); });
            };
            if (bad) {
                c.bad(subject, has ? "holds_value" : "holds_error", cat(st, ": ", subject), F, body);
            } else {
                c.ok(subject, has ? "holds_value" : "holds_error", cat(st, ": ", subject), body);
            }
        };
        row(!has, "expected::operator*() &", [](X& x) { touch(*x); });
        row(!has, "expected::operator*() const&", [](X& x) { touch(*static_cast<X const&>(x)); });
        row(!has, "expected::operator*() &&", [](X& x) { touch(*std::move(x)); });
        row(!has, "expected::operator*() const&&", [](X& x) { touch(*std::move(static_cast<X const&>(x))); });
        row(has, "expected::error() &", [](X& x) { touch(x.error()); });
        row(has, "expected::error() const&", [](X& x) { touch(static_cast<X const&>(x).error()); });
        row(has, "expected::error() &&", [](X& x) { touch(std::move(x).error()); });
        row(has, "expected::error() const&&", [](X& x) { touch(std::move(static_cast<X const&>(x)).error()); });
        // round 2: wide-contract observers of the same states
        row(false, "expected::operator->()", [](X& x) { sink(x.operator->()); });
        row(false, "expected::operator->() const", [](X& x) { sink(static_cast<X const&>(x).operator->()); });
        row(false, "expected::value_or(fallback) const&", [](X& x) { sink(static_cast<X const&>(x).value_or(T(3))); });
        row(false, "expected::value_or(fallback) &&", [](X& x) { sink(std::move(x).value_or(T(3))); });
        row(false, "expected::has_value()", [](X& x) { sink(x.has_value()); });
    }
}

template <typename F>
auto stateless_call(F fn)
{
    return [=](Ctx& cx) {
        (void)cx.raw<char>(1);
        cx.call([&] { fn(); });
    };
}

template <typename T, typename V>
struct unique_alternative;
template <typename T, typename... Ts>
struct unique_alternative<T, etl::variant<Ts...>> : std::bool_constant<(std::size_t(std::is_same_v<T, Ts>) + ...) == 1> { };

template <typename V, std::size_t Active, std::size_t... Is>
void variant_rows(Catalogue& c, char const* F, bool viaAssign, std::index_sequence<Is...>)
{
    auto one = [&](auto constant) {
        constexpr std::size_t I = decltype(constant)::value;
        bool const bad          = I != Active;
        std::string const st    = cat("active=", Active, viaAssign ? " (reached by assignment from alternative 0)" : "");
        auto mk                 = [=](Ctx& cx) {
            V* v = viaAssign ? cx.make<V>() : cx.make<V>(etl::in_place_index<Active>);
            if (viaAssign) { v->template emplace<Active>(); }
            return v;
        };
        auto row = [&](char const* subject, auto fn) {
            auto body = [=](Ctx& cx) {
                V* v = mk(cx);
                cx.call([&] { fn(*v); });
            };
            std::string const cls = bad ? (I < Active ? "index_lt_active" : "index_gt_active") : "index_eq_active";
            if (bad) {
                c.bad(subject, cls, cat(st, ": ", subject, " with I=", I), F, body);
            } else {
                c.ok(subject, cls, cat(st, ": ", subject, " with I=", I), body);
            }
        };
        row("variant::operator[](index_v<I>) &", [](V& v) { touch(v[etl::index_v<I>]); });
        row("variant::operator[](index_v<I>) const&", [](V& v) { touch(static_cast<V const&>(v)[etl::index_v<I>]); });
        row("variant::operator[](index_v<I>) &&", [](V& v) { touch(std::move(v)[etl::index_v<I>]); });
        row("variant::operator[](index_v<I>) const&&", [](V& v) { touch(std::move(static_cast<V const&>(v))[etl::index_v<I>]); });
        row("unchecked_get<I>(variant&)", [](V& v) { touch(etl::unchecked_get<I>(v)); });
        row("unchecked_get<I>(variant const&)", [](V& v) { touch(etl::unchecked_get<I>(static_cast<V const&>(v))); });
        row("unchecked_get<I>(variant&&)", [](V& v) { touch(etl::unchecked_get<I>(std::move(v))); });
        row("unchecked_get<I>(variant const&&)", [](V& v) { touch(etl::unchecked_get<I>(std::move(static_cast<V const&>(v)))); });
        // wide-contract sibling
        auto body = [=](Ctx& cx) {
            V* v = mk(cx);
            cx.call([&] { sink(etl::get_if<I>(v)); });
        };
        c.ok("get_if<I>(variant*)", bad ? "index_ne_active" : "index_eq_active", cat(st, ": get_if<", I, ">(&v)"), body);
        // (variants of up to three alternatives: keeps the compile time of this translation unit in bounds)
        if constexpr (sizeof...(Is) <= 3) {
            if (viaAssign) { return; }
            // round 2: the other get_if forms and holds_alternative (wide contracts, null pointer included)
            c.ok("get_if<I>(variant const*)", bad ? "index_ne_active" : "index_eq_active", cat(st, ": get_if<", I, ">(&cv)"), [=](Ctx& cx) {
                V* v = mk(cx);
                cx.call([&] { sink(etl::get_if<I>(static_cast<V const*>(v))); });
            });
            if constexpr (Active == 0) {
                c.ok("get_if<I>(variant*)", "null_pointer", cat("get_if<", I, ">((variant*)nullptr)"), stateless_call([] { sink(etl::get_if<I>(static_cast<V*>(nullptr))); }));
                c.ok("get_if<I>(variant const*)", "null_pointer", cat("get_if<", I, ">((variant const*)nullptr)"),
                    stateless_call([] { sink(etl::get_if<I>(static_cast<V const*>(nullptr))); }));
            }
            using Alt = etl::variant_alternative_t<I, V>;
            if constexpr (unique_alternative<Alt, V>::value) {
                c.ok("get_if<T>(variant*)", bad ? "type_ne_active" : "type_eq_active", cat(st, ": get_if<alternative ", I, ">(&v)"), [=](Ctx& cx) {
                    V* v = mk(cx);
                    cx.call([&] { sink(etl::get_if<Alt>(v)); });
                });
                c.ok("get_if<T>(variant const*)", bad ? "type_ne_active" : "type_eq_active", cat(st, ": get_if<alternative ", I, ">(&cv)"), [=](Ctx& cx) {
                    V* v = mk(cx);
                    cx.call([&] { sink(etl::get_if<Alt>(static_cast<V const*>(v))); });
                });
                c.ok("holds_alternative<T>(variant)", bad ? "type_ne_active" : "type_eq_active", cat(st, ": holds_alternative<alternative ", I, ">(v)"), [=](Ctx& cx) {
                    V* v = mk(cx);
                    cx.call([&] { sink(etl::holds_alternative<Alt>(*v)); });
                });
            }
        }
    };
    (one(std::integral_constant<std::size_t, Is>{}), ...);
}

template <typename V, std::size_t... As>
void variant_cases(Catalogue& c, char const* name, std::index_sequence<As...> all)
{
    c.config            = name;
    char const* const F = "_variant/variant.hpp";
    (variant_rows<V, As>(c, F, false, all), ...);
    (variant_rows<V, As>(c, F, true, all), ...);
}

// ---------------------------------------------------------------------------------------------
// bitset / basic_bitset
// ---------------------------------------------------------------------------------------------

template <std::size_t N>
void bitset_cases(Catalogue& c, bool thorough)
{
    using B             = etl::bitset<N>;
    c.config            = cat("bitset<", N, ">");
    char const* const F = "_bitset/bitset.hpp|_bitset/basic_bitset.hpp|_string_view/basic_string_view.hpp";
    for (int state = 0; state < 3; ++state) { // 0 all clear, 1 all set, 2 alternating
        std::string const st = state == 0 ? "all clear" : state == 1 ? "all set" : "alternating";
        auto mk              = [=](Ctx& cx) {
            B* b = cx.make<B>();
            if (state == 1) { b->set(); }
            if (state == 2) {
                for (std::size_t i = 0; i < N; i += 2) { b->set(i); }
            }
            return b;
        };
        auto row = [&](bool bad, char const* subject, std::string cls, std::string text, auto fn) {
            auto body = [=](Ctx& cx) {
                B* b = mk(cx);
                cx.call([&] { fn(*b); });
            };
            if (bad) {
                c.bad(subject, cls, cat(st, ": ", text), F, body);
            } else {
                c.ok(subject, cls, cat(st, ": ", text), body);
            }
        };
        auto menu = [&](bool bad, std::string cls, std::size_t pos) {
            std::string const P = show_sz(pos);
            row(bad, "bitset::set(pos,value)", cls, cat("set(", P, ", true)"), [=](B& b) { b.set(pos, true); });
            row(bad, "bitset::set(pos,value)", cls, cat("set(", P, ", false)"), [=](B& b) { b.set(pos, false); });
            row(bad, "bitset::reset(pos)", cls, cat("reset(", P, ")"), [=](B& b) { b.reset(pos); });
            row(bad, "bitset::flip(pos)", cls, cat("flip(", P, ")"), [=](B& b) { b.flip(pos); });
            row(bad, "bitset::test(pos)", cls, cat("test(", P, ")"), [=](B& b) { sink(b.test(pos)); });
            row(bad, "bitset::operator[](pos)", cls, cat("b[", P, "] = true"), [=](B& b) { b[pos] = true; });
            row(bad, "bitset::operator[](pos) const", cls, cat("cb[", P, "]"), [=](B& b) { sink(static_cast<B const&>(b)[pos]); });
        };
        for (auto b : bad_values(N, thorough)) { menu(true, cat("pos_", b.cls), b.v); }
        menu(false, "pos_last", N - 1);
        menu(false, "pos_0", 0);
    }
    // string constructors: tetl requires that the characters used fit (len <= N); pos must be inside the string
    using SV = etl::string_view;
    auto digits = [](Ctx& cx, std::size_t n, bool terminated) {
        char* p = cx.raw<char>(n + (terminated ? 1 : 0));
        for (std::size_t i = 0; i < n; ++i) { p[i] = (i % 2) != 0 ? '1' : '0'; }
        if (terminated) { p[n] = '\0'; }
        return p;
    };
    for (std::size_t len : {N, N + 1, N + 2}) {
        bool const bad        = len > N;
        std::string const cls = bad ? "length_gt_bits" : "length_eq_bits";
        auto add              = [&](char const* subject, std::string text, auto fn) {
            auto body = [=](Ctx& cx) {
                B* raw  = cx.raw<B>();
                char* p = digits(cx, len, true);
                cx.call([&] { fn(raw, p, len); });
            };
            if (bad) {
                c.bad(subject, cls, text, F, body, false);
            } else {
                c.ok(subject, cls, text, body);
            }
        };
        add("bitset::bitset(string_view,pos,n,zero,one)", cat("bitset(string_view of ", len, ")"), [](B* raw, char* p, std::size_t n) { ::new (static_cast<void*>(raw)) B(SV(p, n)); });
        add("bitset::bitset(string_view,pos,n,zero,one)", cat("bitset(string_view of ", len, ", 0, ", len, ")"),
            [](B* raw, char* p, std::size_t n) { ::new (static_cast<void*>(raw)) B(SV(p, n), 0, n); });
        add("bitset::bitset(cstr,n,zero,one)", cat("bitset(cstr of ", len, ")"), [](B* raw, char* p, std::size_t) { ::new (static_cast<void*>(raw)) B(static_cast<char const*>(p)); });
        add("bitset::bitset(cstr,n,zero,one)", cat("bitset(cstr, ", len, ")"), [](B* raw, char* p, std::size_t n) { ::new (static_cast<void*>(raw)) B(static_cast<char const*>(p), n); });
    }
    for (auto b : bad_values(3, thorough)) {
        for (std::size_t n : {std::size_t(0), std::size_t(1), SV::npos}) {
            c.bad("bitset::bitset(string_view,pos,n,zero,one)", cat("pos_", b.cls), cat("bitset(string_view of 2, ", show_sz(b.v), ", ", show_sz(n), ")"), F,
                [=](Ctx& cx) {
                    B* raw  = cx.raw<B>();
                    char* p = digits(cx, 2, false);
                    cx.call([&] { ::new (static_cast<void*>(raw)) B(SV(p, 2), b.v, n); });
                },
                false);
        }
    }
    c.ok("bitset::bitset(string_view,pos,n,zero,one)", "pos_eq_size", "bitset(string_view of 2, 2)", [=](Ctx& cx) {
        B* raw  = cx.raw<B>();
        char* p = digits(cx, 2, false);
        cx.call([&] { ::new (static_cast<void*>(raw)) B(SV(p, 2), 2); });
    });
}

template <std::size_t N, typename W>
void basic_bitset_cases(Catalogue& c, bool thorough, char const* wn)
{
    using B             = etl::basic_bitset<N, W>;
    c.config            = cat("basic_bitset<", N, ",", wn, ">");
    char const* const F = "_bitset/basic_bitset.hpp";
    for (int state = 0; state < 2; ++state) {
        std::string const st = state == 0 ? "all clear" : "all set";
        auto mk              = [=](Ctx& cx) {
            B* b = cx.make<B>();
            if (state == 1) { b->set(); }
            return b;
        };
        auto row = [&](bool bad, char const* subject, std::string cls, std::string text, auto fn) {
            auto body = [=](Ctx& cx) {
                B* b = mk(cx);
                cx.call([&] { fn(*b); });
            };
            if (bad) {
                c.bad(subject, cls, cat(st, ": ", text), F, body);
            } else {
                c.ok(subject, cls, cat(st, ": ", text), body);
            }
        };
        auto menu = [&](bool bad, std::string cls, std::size_t pos) {
            std::string const P = show_sz(pos);
            row(bad, "basic_bitset::unchecked_set(pos,value)", cls, cat("unchecked_set(", P, ", true)"), [=](B& b) { b.unchecked_set(pos, true); });
            row(bad, "basic_bitset::unchecked_set(pos,value)", cls, cat("unchecked_set(", P, ", false)"), [=](B& b) { b.unchecked_set(pos, false); });
            row(bad, "basic_bitset::unchecked_reset(pos)", cls, cat("unchecked_reset(", P, ")"), [=](B& b) { b.unchecked_reset(pos); });
            row(bad, "basic_bitset::unchecked_flip(pos)", cls, cat("unchecked_flip(", P, ")"), [=](B& b) { b.unchecked_flip(pos); });
            row(bad, "basic_bitset::unchecked_test(pos)", cls, cat("unchecked_test(", P, ")"), [=](B& b) { sink(b.unchecked_test(pos)); });
            row(bad, "basic_bitset::operator[](pos)", cls, cat("b[", P, "] = true"), [=](B& b) { b[pos] = true; });
            row(bad, "basic_bitset::operator[](pos) const", cls, cat("cb[", P, "]"), [=](B& b) { sink(static_cast<B const&>(b)[pos]); });
        };
        for (auto b : bad_values(N, thorough)) { menu(true, cat("pos_", b.cls), b.v); }
        menu(false, "pos_last", N - 1);
    }
}

} // namespace

int main(int argc, char** argv)
{
    mc::Main m(argc, argv);
    std::vector<std::string> const both{"quick", "thorough"};
#if MC_PART == 1
    m.job("span", both, [](mc::Reporter& r) {
        Catalogue c;
        span_dynamic_cases(c, r.thorough());
        span_fixed_cases<0>(c, r.thorough());
        span_fixed_cases<3>(c, r.thorough());
        if (r.thorough()) { span_fixed_cases<1>(c, true); }
        run(r, c);
    });
    m.job("array", both, [](mc::Reporter& r) {
        Catalogue c;
        array_cases<0>(c, r.thorough());
        array_cases<1>(c, r.thorough());
        array_cases<3>(c, r.thorough());
        run(r, c);
    });
#elif MC_PART == 2
    m.job("optional+expected", both, [](mc::Reporter& r) {
        Catalogue c;
        optional_cases<int>(c, "int");
        optional_cases<NTV>(c, "NTV");
        optional_ref_cases(c);
        expected_cases<int, char>(c, "int", "char");
        expected_cases<NTV, int>(c, "NTV", "int");
        if (r.thorough()) {
            optional_cases<char>(c, "char");
            expected_cases<int, NTV>(c, "int", "NTV");
        }
        run(r, c);
    });
#elif MC_PART == 4 // round 2: variant in a translation unit of its own (compile time)
    m.job("variant", both, [](mc::Reporter& r) {
        Catalogue c;
        variant_cases<etl::variant<int, char, float>>(c, "variant<int,char,float>", std::make_index_sequence<3>{});
        variant_cases<etl::variant<int, NTV>>(c, "variant<int,NTV>", std::make_index_sequence<2>{});
        if (r.thorough()) { variant_cases<etl::variant<char, NTV, int, short>>(c, "variant<char,NTV,int,short>", std::make_index_sequence<4>{}); }
        run(r, c);
    });
#elif MC_PART == 3
    m.job("bitset", both, [](mc::Reporter& r) {
        Catalogue c;
        bitset_cases<1>(c, r.thorough());
        bitset_cases<8>(c, r.thorough());
        bitset_cases<65>(c, r.thorough());
        if (r.thorough()) {
            bitset_cases<9>(c, true);
            bitset_cases<64>(c, true);
            bitset_cases<63>(c, true);
        }
        run(r, c);
    });
    m.job("basic_bitset", both, [](mc::Reporter& r) {
        Catalogue c;
        basic_bitset_cases<8, unsigned char>(c, r.thorough(), "u8");
        basic_bitset_cases<65, std::size_t>(c, r.thorough(), "size_t");
        if (r.thorough()) {
            basic_bitset_cases<9, unsigned char>(c, true, "u8");
            basic_bitset_cases<17, unsigned short>(c, true, "u16");
            basic_bitset_cases<64, unsigned int>(c, true, "u32");
        }
        run(r, c);
    });
#endif
    return m.run();
}
