// C06, algorithms whose two operands have DIFFERENT types (added after two seeded breakages the single-type sweeps
// cannot see:
//   c13_equal_memcmp_mixed_signedness - equal(first1,last1,first2) got a run-time memcmp path for "integers of the
//     same width": (signed char)-1 and (unsigned char)255 have equal bytes and unequal values;
//   c06_accumulate_typed_plus - accumulate(first,last,init) forwarded to plus<Type>: every element is converted to
//     the accumulator type BEFORE the addition instead of the sum being converted after it).
// Part A, two-range algorithms over raw pointers of two element types of the same width and different signedness
// (and int/long, int/double as wider pairs): every pair of sequences of length 0..3 over the bit patterns
// {0x01, 0x7F, 0x80, 0xFF} (each type reads the pattern in its own way) x {equal (3 and 4 iterators), mismatch (3
// and 4), lexicographical_compare, search, find_end, find_first_of, is_permutation (3 and 4), count, find} against
// std at run time; the sequences of length <= 2 are also evaluated in a constexpr table (a difference between the
// table and the run-time result is reported for C13 as well).
// Part B, numeric algorithms with accumulator type != element type: accumulate (3 and 4 arguments), inner_product
// (4 and 6 arguments), partial_sum, adjacent_difference (both forms each), iota, for (accumulator, element) in
// {(int,double), (float,double), (double,int), (long long,int), (unsigned char,int), (int,float)} and a class-type
// accumulator whose operator+(Acc,int) differs from operator+(Acc,Acc): every element sequence of length 0..4 over
// five values with fractional parts of both signs, compared bit for bit with std.  reduce / transform_reduce are
// GENERALIZED_SUMs (grouping unspecified) and are only judged where every grouping gives the same value (integers).
#include "mc.hpp"

#include <etl/algorithm.hpp>
#include <etl/numeric.hpp>

#include <algorithm>
#include <array>
#include <cstring>
#include <limits>
#include <numeric>
#include <string>
#include <vector>

using mc::cat;

namespace {

// ---------------------------------------------------------------------------------------------------- part A
constexpr unsigned char patterns[4] = {0x01, 0x7F, 0x80, 0xFF};

template <typename T>
constexpr T from_pattern(unsigned char p)
{
    if constexpr (std::is_floating_point_v<T>) {
        return p == 0x01 ? T(1) : (p == 0x7F ? T(127.5) : (p == 0x80 ? T(-128) : T(-1)));
    } else if constexpr (sizeof(T) == 1) {
        return static_cast<T>(p);
    } else {
        // wider integers: sign-extend the pattern for signed types, zero-extend into the top byte for unsigned
        using U = std::make_unsigned_t<T>;
        U const top = static_cast<U>(U(p) << (8 * (sizeof(T) - 1)));
        return static_cast<T>(p == 0x01 ? U(1) : top | (p == 0xFF ? static_cast<U>(~U(0) >> 8) : U(0)));
    }
}

struct Seq {
    unsigned char n;
    unsigned char p[3];
};
constexpr std::size_t NSEQ3 = 1 + 4 + 16 + 64;
constexpr std::size_t NSEQ2 = 1 + 4 + 16;
constexpr Seq seq_at(std::size_t k)
{
    Seq s{0, {0, 0, 0}};
    if (k == 0) { return s; }
    --k;
    if (k < 4) {
        s.n    = 1;
        s.p[0] = patterns[k];
        return s;
    }
    k -= 4;
    if (k < 16) {
        s.n    = 2;
        s.p[0] = patterns[k / 4];
        s.p[1] = patterns[k % 4];
        return s;
    }
    k -= 16;
    s.n    = 3;
    s.p[0] = patterns[k / 16];
    s.p[1] = patterns[(k / 4) % 4];
    s.p[2] = patterns[k % 4];
    return s;
}

constexpr std::size_t NALG = 12;
constexpr char const* alg_names[NALG] = {"equal(first1,last1,first2)", "equal(first1,last1,first2,last2)", "mismatch(first1,last1,first2)", "mismatch(first1,last1,first2,last2)",
    "lexicographical_compare(first1,last1,first2,last2)", "search(first,last,s_first,s_last)", "find_end(first,last,s_first,s_last)", "find_first_of(first,last,s_first,s_last)",
    "is_permutation(first1,last1,first2)", "is_permutation(first1,last1,first2,last2)", "count(first,last,value)", "find(first,last,value)"};

struct EtlNs {
    template <typename... A>
    static constexpr auto equal(A... a) { return etl::equal(a...); }
    template <typename... A>
    static constexpr auto mismatch(A... a) { return etl::mismatch(a...); }
    template <typename... A>
    static constexpr auto lexicographical_compare(A... a) { return etl::lexicographical_compare(a...); }
    template <typename... A>
    static constexpr auto search(A... a) { return etl::search(a...); }
    template <typename... A>
    static constexpr auto find_end(A... a) { return etl::find_end(a...); }
    template <typename... A>
    static constexpr auto find_first_of(A... a) { return etl::find_first_of(a...); }
    template <typename... A>
    static constexpr auto is_permutation(A... a) { return etl::is_permutation(a...); }
    template <typename... A>
    static constexpr auto count(A... a) { return etl::count(a...); }
    template <typename... A>
    static constexpr auto find(A... a) { return etl::find(a...); }
};
struct StdNs {
    template <typename... A>
    static constexpr auto equal(A... a) { return std::equal(a...); }
    template <typename... A>
    static constexpr auto mismatch(A... a) { return std::mismatch(a...); }
    template <typename... A>
    static constexpr auto lexicographical_compare(A... a) { return std::lexicographical_compare(a...); }
    template <typename... A>
    static constexpr auto search(A... a) { return std::search(a...); }
    template <typename... A>
    static constexpr auto find_end(A... a) { return std::find_end(a...); }
    template <typename... A>
    static constexpr auto find_first_of(A... a) { return std::find_first_of(a...); }
    template <typename... A>
    static constexpr auto is_permutation(A... a) { return std::is_permutation(a...); }
    template <typename... A>
    static constexpr auto count(A... a) { return std::count(a...); }
    template <typename... A>
    static constexpr auto find(A... a) { return std::find(a...); }
};

// result of algorithm `alg` on (a[0..na), b[0..nb)) as one integer; -1 = not applicable (3-iterator forms need nb >= na)
template <typename L, typename T1, typename T2>
constexpr long run_alg(std::size_t alg, T1 const* a, std::size_t na, T2 const* b, std::size_t nb)
{
    switch (alg) {
    case 0: return nb >= na ? long(L::equal(a, a + na, b)) : -1;
    case 1: return long(L::equal(a, a + na, b, b + nb));
    case 2: return nb >= na ? long(L::mismatch(a, a + na, b).first - a) : -1;
    case 3: {
        auto const r = L::mismatch(a, a + na, b, b + nb);
        return long(r.first - a) * 8 + long(r.second - b);
    }
    case 4: return long(L::lexicographical_compare(a, a + na, b, b + nb));
    case 5: return long(L::search(a, a + na, b, b + nb) - a);
    case 6: return long(L::find_end(a, a + na, b, b + nb) - a);
    case 7: return long(L::find_first_of(a, a + na, b, b + nb) - a);
    case 8: return nb >= na ? long(L::is_permutation(a, a + na, b)) : -1;
    case 9: return long(L::is_permutation(a, a + na, b, b + nb));
    case 10: return nb >= 1 ? long(L::count(a, a + na, b[0])) : -1;
    default: return nb >= 1 ? long(L::find(a, a + na, b[0]) - a) : -1;
    }
}

template <typename L, typename T1, typename T2>
constexpr long run_on(std::size_t alg, Seq const& sa, Seq const& sb)
{
    // exact-size arrays would need allocation; the one-past elements are never part of a valid answer
    T1 a[4] = {from_pattern<T1>(sa.p[0]), from_pattern<T1>(sa.p[1]), from_pattern<T1>(sa.p[2]), T1{}};
    T2 b[4] = {from_pattern<T2>(sb.p[0]), from_pattern<T2>(sb.p[1]), from_pattern<T2>(sb.p[2]), T2{}};
    return run_alg<L, T1, T2>(alg, a, sa.n, b, sb.n);
}

template <typename T1, typename T2>
constexpr auto cx_table()
{
    std::array<long, NALG * NSEQ2 * NSEQ2> t{};
    for (std::size_t alg = 0; alg < NALG; ++alg) {
        for (std::size_t i = 0; i < NSEQ2; ++i) {
            for (std::size_t j = 0; j < NSEQ2; ++j) { t[(alg * NSEQ2 + i) * NSEQ2 + j] = run_on<EtlNs, T1, T2>(alg, seq_at(i), seq_at(j)); }
        }
    }
    return t;
}

template <typename T>
std::string show_seq(Seq const& s)
{
    std::string out = "[";
    for (unsigned k = 0; k < s.n; ++k) {
        if (k) { out += ","; }
        if constexpr (std::is_floating_point_v<T>) {
            out += cat(double(from_pattern<T>(s.p[k])));
        } else {
            out += cat(static_cast<long long>(from_pattern<T>(s.p[k])));
        }
    }
    return out + "]";
}

template <typename T1, typename T2>
void two_range(mc::Reporter& r, char const* n1, char const* n2)
{
    static constexpr auto ct = cx_table<T1, T2>();
    std::uint64_t ev = 0, nt = 0;
    for (std::size_t alg = 0; alg < NALG; ++alg) {
        for (std::size_t i = 0; i < NSEQ3; ++i) {
            for (std::size_t j = 0; j < NSEQ3; ++j) {
                Seq const sa = seq_at(i), sb = seq_at(j);
                // run time, through volatile copies so that nothing is folded
                volatile unsigned char va[3] = {sa.p[0], sa.p[1], sa.p[2]};
                volatile unsigned char vb[3] = {sb.p[0], sb.p[1], sb.p[2]};
                Seq const ra{sa.n, {va[0], va[1], va[2]}}, rb{sb.n, {vb[0], vb[1], vb[2]}};
                long const e = run_on<EtlNs, T1, T2>(alg, ra, rb);
                long const s = run_on<StdNs, T1, T2>(alg, ra, rb);
                ++ev;
                if (sa.n >= 1 && sb.n >= 1) { ++nt; }
                r.outcome(mc::hash_str(cat(alg, ":", s)));
                bool high = false;
                for (unsigned k = 0; k < sa.n; ++k) { high = high || sa.p[k] >= 0x80; }
                for (unsigned k = 0; k < sb.n; ++k) { high = high || sb.p[k] >= 0x80; }
                std::string const cls  = cat("mixed_element_types", high ? "+sign_bit_set" : "");
                std::string const kase = cat(alg_names[alg], " on ", n1, show_seq<T1>(sa), " and ", n2, show_seq<T2>(sb));
                if (e != s) { r.violation("C06", alg_names[alg], cls, kase, cat("tetl ", e, " std ", s)); }
                if (i < NSEQ2 && j < NSEQ2) {
                    long const c = ct[(alg * NSEQ2 + i) * NSEQ2 + j];
                    ++ev;
                    if (c != s) { r.violation("C06", alg_names[alg], cat(cls, "+constant_evaluation"), kase, cat("tetl (constant evaluation) ", c, " std ", s)); }
                    if (c != e) { r.violation("C13", alg_names[alg], cat(cls, "+constant_evaluation"), kase, cat("compile time ", c, " run time ", e)); }
                }
            }
        }
    }
    r.sample(cat("two ranges of ", n1, " and ", n2, ": 85 x 85 sequences over the patterns {01,7F,80,FF} x 12 algorithm forms; 21 x 21 also constant-evaluated"));
    r.count("evaluations", ev);
    r.count("distinct_nontrivial", nt);
}

// ---------------------------------------------------------------------------------------------------- part B
struct Acc {
    int sum{0};
    int n{0};
    Acc() = default;
    Acc(int x) : sum(x), n(0) { } // NOLINT implicit on purpose: plus<Acc> can convert an element
    friend Acc operator+(Acc a, int x) { return mk(a.sum + x, a.n + 1); }
    friend Acc operator+(Acc a, Acc b) { return mk(a.sum + b.sum, a.n + 100); }
    friend Acc operator*(Acc a, int x) { return mk(a.sum * x, a.n + 1000); }
    friend bool operator==(Acc const&, Acc const&) = default;
    static Acc mk(int s, int n)
    {
        Acc r;
        r.sum = s;
        r.n   = n;
        return r;
    }
};
template <typename T>
std::string bits_of(T const& v)
{
    if constexpr (std::is_same_v<T, Acc>) {
        return cat("Acc{sum ", v.sum, ", n ", v.n, "}");
    } else if constexpr (std::is_floating_point_v<T>) {
        unsigned char b[sizeof(T)];
        std::memcpy(b, &v, sizeof(T));
        std::string s = cat(static_cast<long double>(v), " (");
        for (std::size_t k = sizeof(T); k-- > 0;) { s += "0123456789abcdef"[b[k] >> 4], s += "0123456789abcdef"[b[k] & 15]; }
        return s + ")";
    } else {
        return cat(static_cast<long long>(v));
    }
}

template <typename E>
std::vector<E> values()
{
    if constexpr (std::is_floating_point_v<E>) {
        return {E(2.5), E(-0.75), E(0.5), E(-1.5), E(16777217.0)};
    } else {
        return {E(3), E(-2), E(200), E(-129), E(7000)};
    }
}

template <typename A, typename E>
void numeric(mc::Reporter& r, char const* an, char const* en, std::uint64_t& ev)
{
    auto const vals = values<E>();
    std::vector<std::vector<E>> seqs{{}};
    for (std::size_t lo = 0, len = 1; len <= 4; ++len) {
        std::size_t const hi = seqs.size();
        for (std::size_t i = lo; i < hi; ++i) {
            for (E v : vals) {
                auto s = seqs[i];
                s.push_back(v);
                seqs.push_back(s);
            }
        }
        lo = hi;
    }
    auto showv = [](std::vector<E> const& s) {
        std::string o = "[";
        for (std::size_t k = 0; k < s.size(); ++k) { o += (k ? "," : "") + bits_of(s[k]); }
        return o + "]";
    };
    A const init = [] {
        if constexpr (std::is_same_v<A, Acc>) {
            return Acc(1);
        } else {
            return A(1);
        }
    }();
    auto judge = [&](char const* subject, std::vector<E> const& s, auto const& e, auto const& w) {
        ++ev;
        r.outcome(mc::hash_str(bits_of(w)));
        if (!(bits_of(e) == bits_of(w))) {
            r.violation("C06", subject, cat("accumulator_", an, "+element_", en), cat(subject, " init=", bits_of(init), " elements ", en, showv(s)), cat("tetl ", bits_of(e), " std ", bits_of(w)));
        }
    };
    for (auto const& s : seqs) {
        E const* f = s.data();
        E const* l = s.data() + s.size();
        judge("accumulate(first,last,init)", s, etl::accumulate(f, l, init), std::accumulate(f, l, init));
        if constexpr (!std::is_same_v<A, Acc>) {
            auto op = [](A a, E x) { return static_cast<A>(a - x / 2); };
            judge("accumulate(first,last,init,op)", s, etl::accumulate(f, l, init, op), std::accumulate(f, l, init, op));
            judge("inner_product(first1,last1,first2,init)", s, etl::inner_product(f, l, f, init), std::inner_product(f, l, f, init));
            auto add = [](A a, E x) { return static_cast<A>(a + x); };
            auto mul = [](E x, E y) { return static_cast<E>(x - y / 4); };
            judge("inner_product(first1,last1,first2,init,op1,op2)", s, etl::inner_product(f, l, f, init, add, mul), std::inner_product(f, l, f, init, add, mul));
            // partial_sum / adjacent_difference: input E, output A (the running value lives in E, each result is converted)
            std::vector<A> oe(s.size() + 1, A(77)), os(s.size() + 1, A(77));
            auto const pe = etl::partial_sum(f, l, oe.data());
            auto const ps = std::partial_sum(f, l, os.data());
            ++ev;
            if (oe != os || (pe - oe.data()) != (ps - os.data())) { r.violation("C06", "partial_sum(first,last,dest)", cat("output_", an, "+element_", en), cat("partial_sum of ", en, showv(s), " into ", an), "written values or returned iterator differ from std"); }
            std::fill(oe.begin(), oe.end(), A(77));
            std::fill(os.begin(), os.end(), A(77));
            auto const ae = etl::adjacent_difference(f, l, oe.data());
            auto const as = std::adjacent_difference(f, l, os.data());
            ++ev;
            if (oe != os || (ae - oe.data()) != (as - os.data())) { r.violation("C06", "adjacent_difference(first,last,dest)", cat("output_", an, "+element_", en), cat("adjacent_difference of ", en, showv(s), " into ", an), "written values or returned iterator differ from std"); }
            if constexpr (std::is_integral_v<A> && std::is_integral_v<E>) {
                // every grouping of an integer sum converted once at the end... is NOT the same when A is narrower; only A wider than E
                if constexpr (sizeof(A) > sizeof(E)) { judge("reduce(first,last,init)", s, etl::reduce(f, l, init), std::reduce(f, l, init)); }
            }
        } else {
            if constexpr (std::is_same_v<E, int>) {
                judge("inner_product(first1,last1,first2,init)", s, etl::inner_product(f, l, f, init), std::inner_product(f, l, f, init));
            }
        }
    }
    // iota: the counter has type A, the elements type E
    if constexpr (!std::is_same_v<A, Acc>) {
        for (std::size_t n = 0; n <= 4; ++n) {
            std::vector<E> xe(n + 1, E(9)), xs(n + 1, E(9));
            etl::iota(xe.data(), xe.data() + n, A(init));
            std::iota(xs.data(), xs.data() + n, A(init));
            ++ev;
            if (xe != xs) { r.violation("C06", "iota(first,last,value)", cat("value_", an, "+element_", en), cat("iota over ", n, " elements of ", en, " from ", an, "(1)"), "written values differ from std"); }
        }
    }
    r.sample(cat("accumulator ", an, " over elements ", en, ": 781 sequences of length 0..4 x accumulate/inner_product/partial_sum/adjacent_difference/iota"));
}

// ---------------------------------------------------------------------------------------------------- part C
// count arguments of a NARROW integer type on ranges longer than that type can express (added after seeded breakage
// c06_search_n_narrow_count_cast: an early-out `static_cast<Size>(last - first) < count` truncated the range length to
// the caller's count type).  Enumerated: Size in {signed char, unsigned char, short, unsigned short} x range lengths
// {127, 128, 129, 200, 255, 256, 257, 300} x run position {front, middle, back, absent} x run length {1, 2, 3} for
// search_n (with and without predicate); copy_n / fill_n / generate_n / for_each_n with every count in {0, 1, 2, 100}
// of each Size on a 300-element range; against std.
template <typename Size>
void narrow_counts(mc::Reporter& r, char const* sname, std::uint64_t& ev)
{
    for (int len : {127, 128, 129, 200, 255, 256, 257, 300}) {
        for (int where = 0; where < 4; ++where) {
            for (int run = 1; run <= 3; ++run) {
                std::vector<int> v(std::size_t(len), 0);
                for (int i = 0; i < len; ++i) { v[std::size_t(i)] = (i % 2 == 0) ? 1 : 2; } // no run of equal elements
                int const at = where == 0 ? 0 : (where == 1 ? len / 2 : (where == 2 ? len - run : -1));
                if (at >= 0) {
                    for (int k = 0; k < run; ++k) { v[std::size_t(at + k)] = 7; }
                }
                int* const f = v.data();
                int* const l = f + len;
                Size const n = static_cast<Size>(run);
                long const e1 = etl::search_n(f, l, n, 7) - f;
                long const s1 = std::search_n(f, l, n, 7) - f;
                long const e2 = etl::search_n(f, l, n, 7, [](int a, int b) { return a == b; }) - f;
                long const s2 = std::search_n(f, l, n, 7, [](int a, int b) { return a == b; }) - f;
                ev += 2;
                r.outcome(mc::hash_str(cat(s1, ":", len)));
                std::string const cls  = cat("count_type_", sname, len > int(std::numeric_limits<Size>::max()) ? "+range_longer_than_count_type" : "");
                std::string const kase = cat("search_n over ", len, " ints, run of ", run, " x 7 ", at < 0 ? std::string("absent") : cat("at ", at), ", count passed as ", sname);
                if (e1 != s1) { r.violation("C06", "search_n(first,last,count,value)", cls, kase, cat("tetl ", e1, " std ", s1)); }
                if (e2 != s2) { r.violation("C06", "search_n(first,last,count,value,pred)", cls, kase, cat("tetl ", e2, " std ", s2)); }
            }
        }
    }
    for (int c : {0, 1, 2, 100}) {
        Size const n = static_cast<Size>(c);
        std::vector<int> src(300), de(300, -1), ds(300, -1);
        for (int i = 0; i < 300; ++i) { src[std::size_t(i)] = i; }
        long const e = etl::copy_n(src.data(), n, de.data()) - de.data();
        long const s = std::copy_n(src.data(), n, ds.data()) - ds.data();
        std::vector<int> fe(300, -1), fs(300, -1);
        long const e3 = etl::fill_n(fe.data(), n, 5) - fe.data();
        long const s3 = std::fill_n(fs.data(), n, 5) - fs.data();
        int ge = 0, gs = 0;
        std::vector<int> he(300, -1), hs(300, -1);
        long const e4 = etl::generate_n(he.data(), n, [&] { return ge++; }) - he.data();
        long const s4 = std::generate_n(hs.data(), n, [&] { return gs++; }) - hs.data();
        ev += 3;
        std::string const cls = cat("count_type_", sname);
        if (e != s || de != ds) { r.violation("C06", "copy_n(first,count,result)", cls, cat("copy_n of ", c, " (", sname, ") elements"), "written range or returned iterator differs from std"); }
        if (e3 != s3 || fe != fs) { r.violation("C06", "fill_n(first,count,value)", cls, cat("fill_n of ", c, " (", sname, ") elements"), "written range or returned iterator differs from std"); }
        if (e4 != s4 || he != hs) { r.violation("C06", "generate_n(first,count,g)", cls, cat("generate_n of ", c, " (", sname, ") elements"), "written range or returned iterator differs from std"); }
    }
}

// ---------------------------------------------------------------------------------------------------- part D
// floating-point elements whose BIT PATTERN matters (+0 / -0 compare equal, NaN compares unequal to itself): the writing
// and comparing algorithms at run time, in constant evaluation and on std (added after seeded breakages
// c06_equal_memcmp_floating and c13_fill_memset_negative_zero - a run-time memset(0) for `value == T{}` lost the sign of
// -0.0; C13's own kernels use integer elements).  Enumerated: T in {float, double} x every sequence of length 0..3
// over {+0, -0, 1.5, NaN} x value in the same set x {fill, fill_n, copy, copy_n, copy_backward, move, replace, remove
// (prefix kept), count, find, equal with itself / with the sign-flipped sequence}; outputs compared bit for bit.
template <typename T>
constexpr T fval(int k)
{
    return k == 0 ? T(0) : (k == 1 ? -T(0) : (k == 2 ? T(1.5) : std::numeric_limits<T>::quiet_NaN()));
}
template <typename T>
constexpr unsigned long long fbits(T v)
{
    if constexpr (sizeof(T) == 4) {
        return __builtin_bit_cast(unsigned, v);
    } else {
        return __builtin_bit_cast(unsigned long long, v);
    }
}
constexpr std::size_t NFOP = 12;
constexpr char const* fop_names[NFOP] = {"fill(first,last,value)", "fill_n(first,count,value)", "copy(first,last,result)", "copy_n(first,count,result)", "copy_backward(first,last,d_last)",
    "move(first,last,result)", "replace(first,last,old,new)", "remove(first,last,value)", "count(first,last,value)", "find(first,last,value)", "equal(first1,last1,first2)", "equal(first1,last1,first2) sign-flipped"};

// digest of the outcome of operation `op` on the sequence coded by `code` (base 4, length n) with value index vi
template <typename L, typename T>
constexpr unsigned long long frun(std::size_t op, std::size_t n, std::size_t code, int vi)
{
    T a[4] = {fval<T>(int(code % 4)), fval<T>(int((code / 4) % 4)), fval<T>(int((code / 16) % 4)), T(9)};
    T b[4] = {T(7), T(7), T(7), T(7)};
    T const v = fval<T>(vi);
    unsigned long long h = 0;
    auto mix             = [&](unsigned long long x) { h = h * 1099511628211ULL + x + 1; };
    switch (op) {
    case 0: L::fill(b, b + n, v); break;
    case 1: L::fill_n(b, n, v); break;
    case 2: L::copy(a, a + n, b); break;
    case 3: L::copy_n(a, n, b); break;
    case 4: L::copy_backward(a, a + n, b + n); break;
    case 5: L::move(a, a + n, b); break;
    case 6:
        L::replace(a, a + n, v, T(2.5));
        for (std::size_t i = 0; i < n; ++i) { b[i] = a[i]; }
        break;
    case 7: {
        auto* e = L::remove(a, a + n, v);
        mix(static_cast<unsigned long long>(e - a));
        for (auto* p = a; p != e; ++p) { mix(fbits(*p)); }
        return h;
    }
    case 8: return static_cast<unsigned long long>(L::count(a, a + n, v));
    case 9: return static_cast<unsigned long long>(L::find(a, a + n, v) - a);
    case 10: {
        T c[4] = {a[0], a[1], a[2], a[3]};
        return static_cast<unsigned long long>(L::equal(a, a + n, c));
    }
    default: {
        T c[4] = {-a[0], -a[1], -a[2], a[3]};
        return static_cast<unsigned long long>(L::equal(a, a + n, c));
    }
    }
    for (std::size_t i = 0; i < 4; ++i) { mix(fbits(b[i])); }
    return h;
}
struct EtlF {
    template <typename... A> static constexpr auto fill(A... a) { return etl::fill(a...); }
    template <typename... A> static constexpr auto fill_n(A... a) { return etl::fill_n(a...); }
    template <typename... A> static constexpr auto copy(A... a) { return etl::copy(a...); }
    template <typename... A> static constexpr auto copy_n(A... a) { return etl::copy_n(a...); }
    template <typename... A> static constexpr auto copy_backward(A... a) { return etl::copy_backward(a...); }
    template <typename... A> static constexpr auto move(A... a) { return etl::move(a...); }
    template <typename... A> static constexpr auto replace(A... a) { return etl::replace(a...); }
    template <typename... A> static constexpr auto remove(A... a) { return etl::remove(a...); }
    template <typename... A> static constexpr auto count(A... a) { return etl::count(a...); }
    template <typename... A> static constexpr auto find(A... a) { return etl::find(a...); }
    template <typename... A> static constexpr auto equal(A... a) { return etl::equal(a...); }
};
struct StdF {
    template <typename... A> static constexpr auto fill(A... a) { return std::fill(a...); }
    template <typename... A> static constexpr auto fill_n(A... a) { return std::fill_n(a...); }
    template <typename... A> static constexpr auto copy(A... a) { return std::copy(a...); }
    template <typename... A> static constexpr auto copy_n(A... a) { return std::copy_n(a...); }
    template <typename... A> static constexpr auto copy_backward(A... a) { return std::copy_backward(a...); }
    template <typename... A> static constexpr auto move(A... a) { return std::move(a...); }
    template <typename... A> static constexpr auto replace(A... a) { return std::replace(a...); }
    template <typename... A> static constexpr auto remove(A... a) { return std::remove(a...); }
    template <typename... A> static constexpr auto count(A... a) { return std::count(a...); }
    template <typename... A> static constexpr auto find(A... a) { return std::find(a...); }
    template <typename... A> static constexpr auto equal(A... a) { return std::equal(a...); }
};
constexpr std::size_t NFSEQ = 1 + 4 + 16 + 64; // (n, code) pairs
constexpr void fseq_at(std::size_t k, std::size_t& n, std::size_t& code)
{
    if (k == 0) { n = 0, code = 0; return; }
    --k;
    if (k < 4) { n = 1, code = k; return; }
    k -= 4;
    if (k < 16) { n = 2, code = k; return; }
    n = 3, code = k - 16;
}
template <typename T>
constexpr auto ftable()
{
    std::array<unsigned long long, NFOP * NFSEQ * 4> t{};
    for (std::size_t op = 0; op < NFOP; ++op) {
        for (std::size_t k = 0; k < NFSEQ; ++k) {
            std::size_t n = 0, code = 0;
            fseq_at(k, n, code);
            for (int vi = 0; vi < 4; ++vi) { t[(op * NFSEQ + k) * 4 + std::size_t(vi)] = frun<EtlF, T>(op, n, code, vi); }
        }
    }
    return t;
}
template <typename T>
void floating_bits(mc::Reporter& r, char const* tn, std::uint64_t& ev)
{
    static constexpr auto ct = ftable<T>();
    for (std::size_t op = 0; op < NFOP; ++op) {
        for (std::size_t k = 0; k < NFSEQ; ++k) {
            std::size_t n = 0, code = 0;
            fseq_at(k, n, code);
            for (int vi = 0; vi < 4; ++vi) {
                volatile std::size_t vn = n, vc = code;
                volatile int vv          = vi;
                auto const e = frun<EtlF, T>(op, vn, vc, vv);
                auto const s = frun<StdF, T>(op, vn, vc, vv);
                auto const c = ct[(op * NFSEQ + k) * 4 + std::size_t(vi)];
                ev += 2;
                r.outcome(s);
                std::string const cls  = cat(tn, vi == 1 ? "+negative_zero_value" : (vi == 3 ? "+nan_value" : ""));
                std::string const kase = cat(fop_names[op], " on ", tn, " sequence #", code, " of length ", n, " over {+0,-0,1.5,NaN}, value index ", vi);
                if (e != s) { r.violation("C06", fop_names[op], cat(cls, "+bit_pattern"), kase, "run-time result (bit for bit) differs from std"); }
                if (c != s) { r.violation("C06", fop_names[op], cat(cls, "+bit_pattern+constant_evaluation"), kase, "constant-evaluated result (bit for bit) differs from std"); }
                if (c != e) { r.violation("C13", fop_names[op], cat(cls, "+bit_pattern"), kase, "constant evaluation and run time disagree (bit for bit)"); }
            }
        }
    }
}

} // namespace

int main(int argc, char** argv)
{
    mc::Main m(argc, argv);
    std::vector<std::string> const both{"quick", "thorough"};
    m.job("mixed/two-range/8-bit", both, [](mc::Reporter& r) {
        two_range<signed char, unsigned char>(r, "signed char", "unsigned char");
        two_range<unsigned char, signed char>(r, "unsigned char", "signed char");
        two_range<char, char8_t>(r, "char", "char8_t");
    });
    m.job("mixed/two-range/16-bit", both, [](mc::Reporter& r) {
        two_range<short, unsigned short>(r, "short", "unsigned short");
        two_range<char16_t, short>(r, "char16_t", "short");
    });
    m.job("mixed/two-range/wide", both, [](mc::Reporter& r) {
        two_range<int, unsigned>(r, "int", "unsigned");
        two_range<long, unsigned long>(r, "long", "unsigned long");
        two_range<int, long>(r, "int", "long");
        two_range<signed char, int>(r, "signed char", "int");
        two_range<int, double>(r, "int", "double");
    });
    m.job("mixed/numeric", both, [](mc::Reporter& r) {
        std::uint64_t ev = 0;
        numeric<int, double>(r, "int", "double", ev);
        numeric<float, double>(r, "float", "double", ev);
        numeric<double, int>(r, "double", "int", ev);
        numeric<long long, int>(r, "long long", "int", ev);
        numeric<unsigned char, int>(r, "unsigned char", "int", ev);
        numeric<int, float>(r, "int", "float", ev);
        numeric<Acc, int>(r, "Acc", "int", ev);
        r.count("evaluations", ev);
        r.count("distinct_nontrivial", ev);
    });
    m.job("mixed/two-range/floating-bit-patterns", both, [](mc::Reporter& r) {
        std::uint64_t ev = 0;
        floating_bits<float>(r, "float", ev);
        floating_bits<double>(r, "double", ev);
        r.sample("fill/fill_n/copy/copy_n/copy_backward/move/replace/remove/count/find/equal on float and double sequences over {+0,-0,1.5,NaN}: run time, constexpr table and std, compared bit for bit");
        r.count("evaluations", ev);
        r.count("distinct_nontrivial", ev);
    });
    m.job("mixed/narrow-count-types", both, [](mc::Reporter& r) {
        std::uint64_t ev = 0;
        narrow_counts<signed char>(r, "signed char", ev);
        narrow_counts<unsigned char>(r, "unsigned char", ev);
        narrow_counts<short>(r, "short", ev);
        narrow_counts<unsigned short>(r, "unsigned short", ev);
        narrow_counts<int>(r, "int", ev);
        r.sample("search_n / copy_n / fill_n / generate_n with the count passed as signed char, unsigned char, short, unsigned short, int on ranges of 127..300 elements");
        r.count("evaluations", ev);
        r.count("distinct_nontrivial", ev);
    });
    return m.run();
}
