// C16, the exact set under REAL constant evaluation.  For float and double the run-time entry points
// of most cmath functions go to a compiler builtin, so the library's own code (gcem, the *_fallback
// functions, the ladders in remainder/fma/copysign/signbit) only runs when etl::f is evaluated by the
// compiler.  c16_unary.cpp / c16_binary.cpp call those pieces directly at run time; this harness goes
// through the public entry point inside `static constexpr` tables (the dispatch on
// is_constant_evaluated() is part of what is checked) and compares every table entry, bit for bit,
// with glibc evaluated at run time on the same (volatile-laundered) input.
//
// Enumerated (all constexpr-constructed without bit_cast, identical for the table and the reference):
//   U(T)  unary inputs, both signs of: 0, k*denorm_min (k=1..9), min-k*denorm_min (k=1,2),
//         min+k*denorm_min (k=0..4), min/2, 1.5min, 2min, eps/2, eps, n+{0,.25,.5,.75} with the two
//         neighbours of n+.5 and the value below n+1 (n=0..5), for k in {22..25,31,32,51..54,62..65,112,113}:
//         2^k, its two neighbours, 2^k+-0.5, 2^k+-1, 2^k+-1.5, 1.5*2^k; 0.1, 1e10, 1e30, max/2, max and
//         the value below, inf, NaN
//   P(T)  binary inputs, both signs of 34 magnitudes (0, 1..3 denorm_min, around min, eps, .1, .3, .5, 1 and
//         neighbours, 1.5 ... 7, 2^digits-1, 2^digits, 2^digits+2, 1e10, 2^63, around max/2, max, inf) and NaN
//   F(T)  fma inputs, both signs of {0, denorm_min, min, .1, 1/3, .5, 1-eps/2, 1, 1+eps, 1.5, 3, max, inf} and NaN
//   float, double: floor ceil trunc round rint lrint llrint fabs abs signbit isnan isinf isfinite over U;
//                  copysign fmin fmax fdim nextafter fmod remainder over P x P; fma over F^3
//   long double:   the functions whose run-time path is a builtin (rint lrint llrint signbit over U, fma over F^3);
//                  the others run the same code at run time and are compared there (c16_longdouble.cpp)
// lrint/llrint only where the rounded value is representable; fmin/fmax of two zeros of opposite sign are
// compared as magnitudes (C leaves the sign open).
#include "c16_common.hpp"

#include <etl/cmath.hpp>

#include <array>

using namespace c16;
using mc::cat;
using LD = long double;

namespace {

// ---------------------------------------------------------------------------------------
// constexpr construction of the inputs
// ---------------------------------------------------------------------------------------
template <typename T>
constexpr T c_pow2(int k)
{
    T p = 1;
    for (; k > 0; --k) { p *= 2; }
    for (; k < 0; ++k) { p /= 2; }
    return p;
}
/// lower edge of the binade of x (x > 0, finite, normal)
template <typename T>
constexpr T c_binade(T x)
{
    T p = 1;
    while (p <= x / 2) { p *= 2; }
    while (p > x) { p /= 2; }
    return p;
}
/// next value above x (x > 0, finite)
template <typename T>
constexpr T c_up(T x)
{
    using L = std::numeric_limits<T>;
    if (x < L::min()) { return x + L::denorm_min(); }
    return x + c_binade(x) * L::epsilon();
}
/// next value below x (x > 0, finite)
template <typename T>
constexpr T c_down(T x)
{
    using L = std::numeric_limits<T>;
    if (x <= L::min()) { return x - L::denorm_min(); }
    T const p = c_binade(x);
    return (x == p) ? x - p * (L::epsilon() / 2) : x - p * L::epsilon();
}

template <typename T, std::size_t Cap>
struct Inputs {
    std::array<T, Cap> v{};
    std::size_t n{0};
    constexpr void add(T x)
    {
        v[n++] = x;
        v[n++] = -x;
    }
};

inline constexpr std::size_t kUCap = 600;
template <typename T>
constexpr auto unary_inputs() -> Inputs<T, kUCap>
{
    using L = std::numeric_limits<T>;
    Inputs<T, kUCap> in;
    T const dm = L::denorm_min();
    T const mn = L::min();
    in.add(T(0));
    for (int k = 1; k <= 9; ++k) { in.add(T(k) * dm); }
    for (int k = 1; k <= 2; ++k) { in.add(mn - T(k) * dm); }
    for (int k = 0; k <= 4; ++k) { in.add(mn + T(k) * dm); }
    in.add(mn / 2);
    in.add(mn * T(1.5));
    in.add(mn * 2);
    in.add(L::epsilon() / 2);
    in.add(L::epsilon());
    for (int n = 0; n <= 5; ++n) {
        T const x = T(n);
        if (n != 0) { in.add(x); }
        in.add(x + T(0.25));
        in.add(x + T(0.5));
        in.add(x + T(0.75));
        in.add(c_up(x + T(0.5)));
        in.add(c_down(x + T(0.5)));
        in.add(c_down(x + T(1)));
    }
    for (int k : {22, 23, 24, 25, 31, 32, 51, 52, 53, 54, 62, 63, 64, 65, 112, 113}) {
        T const p = c_pow2<T>(k);
        in.add(p);
        in.add(c_up(p));
        in.add(c_down(p));
        in.add(p + T(0.5));
        in.add(p - T(0.5));
        in.add(p + T(1));
        in.add(p - T(1));
        in.add(p + T(1.5));
        in.add(p - T(1.5));
        in.add(p * T(1.5));
    }
    in.add(T(0.1L));
    in.add(T(1e10L));
    in.add(T(1e30L));
    in.add(L::max() / 2);
    in.add(L::max());
    in.add(c_down(L::max()));
    in.add(L::infinity());
    in.add(L::quiet_NaN());
    return in;
}

inline constexpr std::size_t kPCap = 80;
template <typename T>
constexpr auto binary_inputs() -> Inputs<T, kPCap>
{
    using L = std::numeric_limits<T>;
    Inputs<T, kPCap> in;
    T const dm = L::denorm_min();
    T const mn = L::min();
    T const pd = c_pow2<T>(L::digits);
    in.add(T(0));
    in.add(dm);
    in.add(dm * 2);
    in.add(dm * 3);
    in.add(mn - dm);
    in.add(mn);
    in.add(mn + dm);
    in.add(L::epsilon());
    in.add(T(0.1L));
    in.add(T(0.3L));
    in.add(T(0.5));
    in.add(c_down(T(1)));
    in.add(T(1));
    in.add(c_up(T(1)));
    in.add(T(1.5));
    in.add(T(2));
    in.add(T(2.5));
    in.add(T(3));
    in.add(T(3.5));
    in.add(T(5.5));
    in.add(T(7));
    in.add(pd - 1);
    in.add(pd);
    in.add(pd + 2);
    in.add(T(1e10L));
    in.add(c_pow2<T>(63));
    in.add(c_down(L::max() / 2));
    in.add(L::max() / 2);
    in.add(c_up(L::max() / 2));
    in.add(L::max() / 2 * T(1.5));
    in.add(c_down(L::max()));
    in.add(L::max());
    in.add(L::infinity());
    in.v[in.n++] = L::quiet_NaN();
    in.v[in.n++] = -L::quiet_NaN();
    return in;
}

inline constexpr std::size_t kFCap = 32;
template <typename T>
constexpr auto fma_inputs() -> Inputs<T, kFCap>
{
    using L = std::numeric_limits<T>;
    Inputs<T, kFCap> in;
    in.add(T(0));
    in.add(L::denorm_min());
    in.add(L::min());
    in.add(T(0.1L));
    in.add(T(1) / T(3));
    in.add(T(0.5));
    in.add(T(1) - L::epsilon() / 2);
    in.add(T(1));
    in.add(T(1) + L::epsilon());
    in.add(T(1.5));
    in.add(T(3));
    in.add(L::max());
    in.add(L::infinity());
    in.v[in.n++] = L::quiet_NaN();
    return in;
}

// ---------------------------------------------------------------------------------------
// naming / comparison
// ---------------------------------------------------------------------------------------
template <typename T>
char const* tname()
{
    if constexpr (std::is_same_v<T, float>) { return "float"; }
    if constexpr (std::is_same_v<T, double>) { return "double"; }
    return "long double";
}
template <typename T>
std::string shw(T v)
{
    if constexpr (std::is_floating_point_v<T>) {
        char b[64];
        std::snprintf(b, sizeof b, "%La", static_cast<LD>(v));
        return b;
    } else if constexpr (std::is_same_v<T, bool>) {
        return v ? "true" : "false";
    } else {
        return std::to_string(v);
    }
}
template <typename R>
bool same(R a, R b)
{
    if constexpr (std::is_floating_point_v<R>) {
        if (a != a || b != b) { return (a != a) && (b != b); }
        return a == b && std::signbit(a) == std::signbit(b);
    } else {
        return a == b;
    }
}
char const* ld_coarse(LD v)
{
    if (v != v) { return "nan"; }
    if (std::isinf(v)) { return v > 0 ? "+inf" : "-inf"; }
    if (v == 0) { return std::signbit(v) ? "-0" : "+0"; }
    LD const a = std::fabs(v);
    if (a < LDBL_MIN) { return v < 0 ? "-denorm" : "+denorm"; }
    if (a >= 0x1p63L) { return v < 0 ? "-huge" : "+huge"; }
    if (a < 1) { return v < 0 ? "-frac" : "+frac"; }
    return (std::floor(a) == a) ? (v < 0 ? "-int" : "+int") : (v < 0 ? "-fin" : "+fin");
}
template <typename T>
std::string uclass(T x, bool coarse_only)
{
    if constexpr (std::is_same_v<T, LD>) {
        (void)coarse_only;
        return ld_coarse(x);
    } else {
        return coarse_only ? std::string(coarse_name(coarse_id(x))) : exact_class_name(exact_class_id(x));
    }
}

// ---------------------------------------------------------------------------------------
// operations: E = the tetl call (constant-evaluated), R = glibc at run time
// ---------------------------------------------------------------------------------------
template <typename T>
constexpr bool fits_ll(T x)
{
    // the ROUNDED value must be representable: 2^63 - 0.5 exists in long double and rounds to 2^63
    return x == x && x >= T(-0x1p63L) && x < T(0x1p63L) - T(0.5);
}
/// floor(log2(|x|)) for finite non-zero x
template <typename T>
constexpr int c_ilogb(T x)
{
    T a   = x < 0 ? -x : x;
    int e = 0;
    while (a >= 2) {
        a /= 2;
        ++e;
    }
    while (a < 1) {
        a *= 2;
        --e;
    }
    return e;
}
template <typename T>
constexpr bool c_isinf(T x)
{
    return x == std::numeric_limits<T>::infinity() || x == -std::numeric_limits<T>::infinity();
}
/// Which fma(x, y, z) can be asked of the constant evaluator at all.  g++ does not fold a floating-point operation
/// that raises "invalid" (0 * inf, inf - inf), overflows, or delivers an inexact subnormal/zero result: such a call
/// is simply not a constant expression (seen: error: '(0.0 * +Inf)' is not a constant expression,
/// '__builtin_fma(4.94e-324, 4.94e-324, 0.0)' is not a constant expression).  That is the compiler's rule, not
/// tetl's, so those triples are left out of the table (counted as out_of_domain_skipped); the predicate is
/// conservative (exponent arithmetic only): a finite triple is kept when the product is exactly zero, or when
/// neither an overflow nor a result below the normal range is possible.  ex/ey/ez = c_ilogb of the arguments.
template <typename T>
constexpr bool fma_foldable(T x, T y, T z, int ex, int ey, int ez)
{
    using L = std::numeric_limits<T>;
    if (x != x || y != y || z != z) { return true; }
    bool const xi = c_isinf(x), yi = c_isinf(y), zi = c_isinf(z);
    if ((xi && y == 0) || (yi && x == 0)) { return false; }
    if (xi || yi) { return !zi || (((x < 0) != (y < 0)) == (z < 0)); }
    if (zi) { return true; }
    if (x == 0 || y == 0) { return true; } // the product is an exact zero, the sum is z or a zero
    int const ep = ex + ey;                // the product is in [2^ep, 2^(ep+2))
    if (ep + 3 >= L::max_exponent - 1) { return false; }
    if (z == 0) { return ep >= L::min_exponent - 1; }
    if (ez + 3 >= L::max_exponent - 1) { return false; }
    bool const opposite = ((x < 0) != (y < 0)) != (z < 0);
    bool const close    = ep - ez <= 3 && ez - ep <= 3;
    if (opposite && close) { return ep - 2 * L::digits - 2 >= L::min_exponent - 1; } // any non-zero difference is normal
    return (ep > ez ? ep : ez) - 3 >= L::min_exponent - 1;
}
/// fdim(x, y) = x - y overflows (not a constant expression for g++, see fma_foldable)
template <typename T>
constexpr bool fdim_overflows(T x, T y)
{
    using L = std::numeric_limits<T>;
    if (x != x || y != y || c_isinf(x) || c_isinf(y)) { return false; }
    return x > y && x / 2 - y / 2 > L::max() / 2;
}
#define C16_UOP(NAME, ETL, REF, VALID, COARSE)                                                    \
    struct NAME##_op {                                                                            \
        static constexpr char const* name = #NAME;                                                \
        static constexpr bool coarse      = COARSE;                                               \
        template <typename T>                                                                     \
        static constexpr auto e(T x)                                                              \
        {                                                                                         \
            return ETL;                                                                           \
        }                                                                                         \
        template <typename T>                                                                     \
        static auto r(T x)                                                                        \
        {                                                                                         \
            return REF;                                                                           \
        }                                                                                         \
        template <typename T>                                                                     \
        static constexpr bool valid(T x)                                                          \
        {                                                                                         \
            (void)x;                                                                              \
            return VALID;                                                                         \
        }                                                                                         \
    };
C16_UOP(floor, etl::floor(x), std::floor(x), true, false)
C16_UOP(ceil, etl::ceil(x), std::ceil(x), true, false)
C16_UOP(trunc, etl::trunc(x), std::trunc(x), true, false)
C16_UOP(round, etl::round(x), std::round(x), true, false)
C16_UOP(rint, etl::rint(x), std::rint(x), true, false)
C16_UOP(lrint, etl::lrint(x), std::lrint(x), fits_ll(x), false)
C16_UOP(llrint, etl::llrint(x), std::llrint(x), fits_ll(x), false)
C16_UOP(fabs, etl::fabs(x), std::fabs(x), true, true)
C16_UOP(abs, etl::abs(x), std::fabs(x), true, true)
C16_UOP(signbit, etl::signbit(x), std::signbit(x), true, true)
C16_UOP(isnan, etl::isnan(x), std::isnan(x), true, true)
C16_UOP(isinf, etl::isinf(x), std::isinf(x), true, true)
C16_UOP(isfinite, etl::isfinite(x), std::isfinite(x), true, true)

template <typename T>
constexpr T zz(T x, T y, T r)
{
    return (x == 0 && y == 0) ? (r < 0 ? -r : (r == 0 ? T(0) : r)) : r;
}
#define C16_BOP(NAME, ETL, REF, REL, VALID)                                                            \
    struct NAME##_op {                                                                            \
        static constexpr char const* name = #NAME;                                                \
        static constexpr Rel rel          = REL;                                                  \
        template <typename T>                                                                     \
        static constexpr T e(T x, T y)                                                            \
        {                                                                                         \
            return ETL;                                                                           \
        }                                                                                         \
        template <typename T>                                                                     \
        static T r(T x, T y)                                                                      \
        {                                                                                         \
            return REF;                                                                           \
        }                                                                                         \
        template <typename T>                                                                     \
        static constexpr bool valid(T x, T y)                                                     \
        {                                                                                         \
            (void)x;                                                                              \
            (void)y;                                                                              \
            return VALID;                                                                         \
        }                                                                                         \
    };
C16_BOP(copysign, etl::copysign(x, y), std::copysign(x, y), Rel::order, true)
C16_BOP(fmin, zz(x, y, etl::fmin(x, y)), zz(x, y, std::fmin(x, y)), Rel::order, true)
C16_BOP(fmax, zz(x, y, etl::fmax(x, y)), zz(x, y, std::fmax(x, y)), Rel::order, true)
C16_BOP(fdim, etl::fdim(x, y), std::fdim(x, y), Rel::order, !fdim_overflows(x, y))
C16_BOP(nextafter, etl::nextafter(x, y), std::nextafter(x, y), Rel::order, true)
C16_BOP(fmod, etl::fmod(x, y), std::fmod(x, y), Rel::quotient, true)
C16_BOP(remainder, etl::remainder(x, y), std::remainder(x, y), Rel::quotient, true)

template <typename Op, typename T>
constexpr auto utable()
{
    constexpr auto in = unary_inputs<T>();
    using R           = decltype(Op::e(T{}));
    std::array<R, kUCap> out{};
    for (std::size_t i = 0; i < in.n; ++i) {
        if (Op::valid(in.v[i])) { out[i] = Op::e(in.v[i]); }
    }
    return out;
}
template <typename Op, typename T>
constexpr auto btable()
{
    constexpr auto in = binary_inputs<T>();
    std::array<T, kPCap * kPCap> out{};
    for (std::size_t i = 0; i < in.n; ++i) {
        for (std::size_t j = 0; j < in.n; ++j) {
            if (Op::valid(in.v[i], in.v[j])) { out[i * kPCap + j] = Op::e(in.v[i], in.v[j]); }
        }
    }
    return out;
}
template <typename T>
constexpr auto fma_exponents() -> std::array<int, kFCap>
{
    constexpr auto in = fma_inputs<T>();
    std::array<int, kFCap> e{};
    for (std::size_t i = 0; i < in.n; ++i) {
        T const v = in.v[i];
        e[i]      = (v != v || c_isinf(v) || v == 0) ? 0 : c_ilogb(v);
    }
    return e;
}
template <typename T>
constexpr auto ftable()
{
    constexpr auto in = fma_inputs<T>();
    constexpr auto ex = fma_exponents<T>();
    std::array<T, kFCap * kFCap * kFCap> out{};
    for (std::size_t i = 0; i < in.n; ++i) {
        for (std::size_t j = 0; j < in.n; ++j) {
            for (std::size_t k = 0; k < in.n; ++k) {
                if (fma_foldable(in.v[i], in.v[j], in.v[k], ex[i], ex[j], ex[k])) { out[(i * kFCap + j) * kFCap + k] = etl::fma(in.v[i], in.v[j], in.v[k]); }
            }
        }
    }
    return out;
}

struct Ctx {
    mc::Reporter& r;
    u64 evals{0}, nontrivial{0}, skipped{0};
    void flush()
    {
        r.count("evaluations", evals);
        r.count("distinct_nontrivial", nontrivial);
        r.count("out_of_domain_skipped", skipped);
    }
};

template <typename Op, typename T>
void check_unary(Ctx& c)
{
    static constexpr auto in  = unary_inputs<T>();
    static constexpr auto tbl = utable<Op, T>(); // <- constant evaluation of etl::f
    std::string const subject = cat("etl::", Op::name, " (constant evaluation)");
    if (!c.r.want(subject)) { return; }
    for (std::size_t i = 0; i < in.n; ++i) {
        volatile T vx = in.v[i];
        T const x     = vx;
        if (!Op::valid(x)) {
            ++c.skipped;
            continue;
        }
        auto const want = Op::r(x);
        using R         = decltype(Op::e(T{}));
        R const got     = tbl[i];
        R const wantr   = static_cast<R>(want);
        ++c.evals;
        if (x == x && !std::isinf(x) && x != 0) { ++c.nontrivial; }
        c.r.outcome(mc::hash_str(cat(Op::name, tname<T>(), shw(wantr))));
        if (!same(got, wantr)) {
            c.r.violation("C16", subject, uclass(x, Op::coarse), cat("constexpr etl::", Op::name, "(", tname<T>(), " ", shw(x), ")"),
                cat("constant-evaluated ", shw(got), " libm ", shw(wantr)));
        }
    }
    c.r.sample(cat(subject, " ", tname<T>(), ": ", in.n, " inputs, e.g. ", Op::name, "(", shw(in.v[in.n / 3]), ") = ", shw(tbl[in.n / 3])));
}

template <typename Op, typename T>
void check_binary(Ctx& c)
{
    static constexpr auto in  = binary_inputs<T>();
    static constexpr auto tbl = btable<Op, T>();
    std::string const subject = cat("etl::", Op::name, " (constant evaluation)");
    if (!c.r.want(subject)) { return; }
    for (std::size_t i = 0; i < in.n; ++i) {
        for (std::size_t j = 0; j < in.n; ++j) {
            volatile T vx = in.v[i];
            volatile T vy = in.v[j];
            T const x = vx, y = vy;
            if (!Op::valid(x, y)) {
                ++c.skipped; // the operation overflows: not a constant expression for g++
                continue;
            }
            T const want = Op::r(x, y);
            T const got  = tbl[i * kPCap + j];
            ++c.evals;
            if (!same(want, x) && !same(want, y)) { ++c.nontrivial; }
            if (!same(got, want)) {
                c.r.violation("C16", subject, bin_class(x, y, Op::rel), cat("constexpr etl::", Op::name, "(", tname<T>(), " ", shw(x), ", ", shw(y), ")"),
                    cat("constant-evaluated ", shw(got), " libm ", shw(want)));
            }
        }
        c.r.outcome(mc::hash_str(cat(Op::name, tname<T>(), shw(Op::r(T(in.v[i]), T(2.5))))));
    }
    c.r.sample(cat(subject, " ", tname<T>(), ": ", in.n, "^2 pairs, e.g. ", Op::name, "(5.5, -2) = ", shw(Op::e(T(5.5), T(-2)))));
}

template <typename T>
char const* c3(T v)
{
    if (v != v) { return "nan"; }
    if (std::isinf(v)) { return v > 0 ? "+inf" : "-inf"; }
    if (v == 0) { return std::signbit(v) ? "-0" : "+0"; }
    return v < 0 ? "-fin" : "+fin";
}
template <typename T>
void check_fma(Ctx& c)
{
    static constexpr auto in  = fma_inputs<T>();
    static constexpr auto tbl = ftable<T>();
    static constexpr auto ex  = fma_exponents<T>();
    std::string const subject = "etl::fma (constant evaluation)";
    if (!c.r.want(subject)) { return; }
    for (std::size_t i = 0; i < in.n; ++i) {
        for (std::size_t j = 0; j < in.n; ++j) {
            for (std::size_t k = 0; k < in.n; ++k) {
                volatile T vx = in.v[i];
                volatile T vy = in.v[j];
                volatile T vz = in.v[k];
                T const x = vx, y = vy, z = vz;
                T const want   = std::fma(x, y, z);
                if (!fma_foldable(x, y, z, ex[i], ex[j], ex[k])) {
                    ++c.skipped; // not a constant expression for g++ (see fma_foldable)
                    continue;
                }
                volatile T prd = x * y;
                T const two    = prd + z;
                T const got    = tbl[(i * kFCap + j) * kFCap + k];
                ++c.evals;
                if (!same(want, two)) { ++c.nontrivial; } // the fused result differs from the twice-rounded one
                if (!same(got, want)) {
                    c.r.violation("C16", subject, cat(c3(x), ",", c3(y), ",", c3(z)), cat("constexpr etl::fma(", tname<T>(), " ", shw(x), ", ", shw(y), ", ", shw(z), ")"),
                        cat("constant-evaluated ", shw(got), " libm ", shw(want)));
                }
            }
            c.r.outcome(mc::hash_str(cat("fma", tname<T>(), shw(std::fma(T(in.v[i]), T(in.v[j]), T(0.1L))))));
        }
    }
    c.r.sample(cat(subject, " ", tname<T>(), ": ", in.n, "^3 triples, e.g. fma(0.1, 3, -1/3) = ", shw(etl::fma(T(0.1L), T(3), -T(1) / T(3)))));
}

template <typename T>
void all_unary(mc::Reporter& r)
{
    Ctx c{r};
    check_unary<floor_op, T>(c);
    check_unary<ceil_op, T>(c);
    check_unary<trunc_op, T>(c);
    check_unary<round_op, T>(c);
    check_unary<rint_op, T>(c);
    check_unary<lrint_op, T>(c);
    check_unary<llrint_op, T>(c);
    check_unary<fabs_op, T>(c);
    check_unary<abs_op, T>(c);
    check_unary<signbit_op, T>(c);
    check_unary<isnan_op, T>(c);
    check_unary<isinf_op, T>(c);
    check_unary<isfinite_op, T>(c);
    c.flush();
}
template <typename T>
void all_binary(mc::Reporter& r)
{
    Ctx c{r};
    check_binary<copysign_op, T>(c);
    check_binary<fmin_op, T>(c);
    check_binary<fmax_op, T>(c);
    check_binary<fdim_op, T>(c);
    check_binary<nextafter_op, T>(c);
    check_binary<fmod_op, T>(c);
    check_binary<remainder_op, T>(c);
    c.flush();
}

} // namespace

int main(int argc, char** argv)
{
    mc::Main m(argc, argv);
    m.job("cx/float/unary", {"quick", "thorough"}, [](mc::Reporter& r) { all_unary<float>(r); });
    m.job("cx/double/unary", {"quick", "thorough"}, [](mc::Reporter& r) { all_unary<double>(r); });
    m.job("cx/float/binary", {"quick", "thorough"}, [](mc::Reporter& r) { all_binary<float>(r); });
    m.job("cx/double/binary", {"quick", "thorough"}, [](mc::Reporter& r) { all_binary<double>(r); });
    m.job("cx/fma", {"quick", "thorough"}, [](mc::Reporter& r) {
        Ctx c{r};
        check_fma<float>(c);
        check_fma<double>(c);
        check_fma<LD>(c);
        c.flush();
    });
    m.job("cx/long double", {"quick", "thorough"}, [](mc::Reporter& r) {
        Ctx c{r};
        check_unary<rint_op, LD>(c);
        check_unary<lrint_op, LD>(c);
        check_unary<llrint_op, LD>(c);
        check_unary<signbit_op, LD>(c);
        c.flush();
    });
    return m.run();
}
