// C07 round 2, direction 1: the SHAPE of a visitation rather than the state of one variant.
//
//  * visit / visit_with_index over one, two and three variants of DIFFERENT arity whose
//    alternatives are const-qualified (variant<int const, char>), pointers (variant<int*, int const*,
//    nullptr_t>), reference-like (variant<std::reference_wrapper<int>, long>), duplicates
//    (variant<int,int>, variant<int,float,int>) and plain arithmetic types, every tuple of active
//    indices x 2 values per alternative, in all value categories of every variant argument
//    (1 variant: 4, 2 variants: 16, 3 variants: 6 chosen combinations);
//  * the visitor logs the exact parameter type it was instantiated with (cv + reference kind) and
//    the value; compared with std::visit on std::variant with the same alternative list;
//  * visitors that are overload sets (etl::overload of by-value lambdas + a generic fallback): which
//    member of the set is chosen shows whether the alternative TYPE handed over is the right one;
//  * the visitor's own value category (ref-qualified call operators; std::visit invokes
//    std::forward<Visitor>(vis));
//  * result kinds: void, a reference (identity of the referenced object and the exact return type),
//    a reference to the visited alternative itself (duplicate alternative lists: all alternatives
//    have one type), a move-only type;
//  * visit_with_index (no std counterpart): closed form - exactly the active (index, value) tuple,
//    constness of value() = constness of the alternative or of the variant.
#include "mc.hpp"

#include <etl/variant.hpp>

#include <cstddef>
#include <functional>
#include <string>
#include <type_traits>
#include <utility>
#include <variant>

using mc::cat;

namespace {

int g_cells[4] = {10, 11, 12, 13};
long g_slots[16];

// ------------------------------------------------------------------------------ names and values
template <typename T>
std::string tname()
{
    if constexpr (std::is_same_v<T, int>) {
        return "int";
    } else if constexpr (std::is_same_v<T, char>) {
        return "char";
    } else if constexpr (std::is_same_v<T, long>) {
        return "long";
    } else if constexpr (std::is_same_v<T, short>) {
        return "short";
    } else if constexpr (std::is_same_v<T, unsigned>) {
        return "unsigned";
    } else if constexpr (std::is_same_v<T, float>) {
        return "float";
    } else if constexpr (std::is_same_v<T, int*>) {
        return "int*";
    } else if constexpr (std::is_same_v<T, int const*>) {
        return "int const*";
    } else if constexpr (std::is_same_v<T, std::nullptr_t>) {
        return "nullptr_t";
    } else if constexpr (std::is_same_v<T, std::reference_wrapper<int>>) {
        return "reference_wrapper<int>";
    } else {
        return "?";
    }
}
/// exact parameter type: base name + const + reference kind
template <typename X>
std::string qname()
{
    using B       = std::remove_reference_t<X>;
    std::string s = tname<std::remove_cv_t<B>>();
    if (std::is_const_v<B>) { s += " const"; }
    s += std::is_lvalue_reference_v<X> ? "&" : (std::is_rvalue_reference_v<X> ? "&&" : "");
    return s;
}

template <typename T>
T mk(int k)
{
    if constexpr (std::is_same_v<T, int*> || std::is_same_v<T, int const*>) {
        return &g_cells[k + 1];
    } else if constexpr (std::is_same_v<T, std::nullptr_t>) {
        return nullptr;
    } else if constexpr (std::is_same_v<T, std::reference_wrapper<int>>) {
        return std::ref(g_cells[k + 2]);
    } else if constexpr (std::is_same_v<T, float>) {
        return static_cast<float>(k) + 0.5F;
    } else {
        return static_cast<T>(3 + k);
    }
}
inline long num(int const* p) { return p == nullptr ? -1 : static_cast<long>(p - g_cells) + 100; }
inline long num(std::nullptr_t) { return -2; }
inline long num(std::reference_wrapper<int> const& r) { return static_cast<long>(&r.get() - g_cells) + 200; }
inline long num(float f) { return static_cast<long>(f * 2); }
template <typename T>
    requires(std::is_integral_v<T>)
long num(T x)
{
    return static_cast<long>(x);
}

// value category selector: 0 = &, 1 = const&, 2 = &&, 3 = const&&
template <int C, typename V>
constexpr decltype(auto) as(V& v)
{
    if constexpr (C == 0) {
        return (v);
    } else if constexpr (C == 1) {
        return std::as_const(v);
    } else if constexpr (C == 2) {
        return std::move(v);
    } else {
        return std::move(std::as_const(v));
    }
}
constexpr char const* catname(int c)
{
    constexpr char const* n[] = {"&", "const&", "&&", "const&&"};
    return n[c];
}

// ------------------------------------------------------------------------------ variant families
enum Shape : unsigned { plain = 0, const_alt = 1, pointer_alt = 2, refwrap_alt = 4, duplicate_alt = 8 };

template <unsigned Sh, typename... Ts>
struct Fam {
    using E                        = etl::variant<Ts...>;
    using S                        = std::variant<Ts...>;
    static constexpr std::size_t n = sizeof...(Ts);
    static constexpr unsigned shape = Sh;
    template <std::size_t I>
    using alt = std::variant_alternative_t<I, S>;
    template <std::size_t I>
    static E make_e(int k)
    {
        return E{etl::in_place_index<I>, mk<std::remove_const_t<alt<I>>>(k)};
    }
    template <std::size_t I>
    static S make_s(int k)
    {
        return S{std::in_place_index<I>, mk<std::remove_const_t<alt<I>>>(k)};
    }
    static std::string name()
    {
        std::string s = "variant<";
        bool first    = true;
        ((s += (first ? "" : ","), s += qname<Ts>(), first = false), ...);
        return s + ">";
    }
};

inline std::string shape_class(unsigned sh)
{
    std::string s;
    auto add = [&](char const* t) { s += (s.empty() ? "" : "+"), s += t; };
    if ((sh & const_alt) != 0) { add("const_alternative"); }
    if ((sh & pointer_alt) != 0) { add("pointer_alternatives"); }
    if ((sh & refwrap_alt) != 0) { add("reference_wrapper_alternative"); }
    if ((sh & duplicate_alt) != 0) { add("duplicate_alternatives"); }
    if (s.empty()) { s = "plain_alternatives"; }
    return s;
}

constexpr int kValues = 2;

/// fn(etl variant, std variant, index, k) for every alternative and both values
template <typename F, std::size_t... Is, typename Fn>
void for_each_state(std::index_sequence<Is...>, Fn&& fn)
{
    for (int k = 0; k < kValues; ++k) {
        (fn(F::template make_e<Is>(k), F::template make_s<Is>(k), Is, k), ...);
    }
}
template <typename F, typename Fn>
void for_each_state(Fn&& fn)
{
    for_each_state<F>(std::make_index_sequence<F::n>{}, std::forward<Fn>(fn));
}

// ------------------------------------------------------------------------------ visitors
/// generic: logs the exact parameter types and the values
struct Gen {
    std::string* out;
    template <typename... X>
    int operator()(X&&... x) const
    {
        int r = 1;
        ((*out += cat(qname<X&&>(), "=", num(x), " ")), ...);
        ((r = r * 31 + static_cast<int>(num(x)) + 7), ...);
        return r;
    }
};
struct GenVoid {
    std::string* out;
    template <typename... X>
    void operator()(X&&... x) const
    {
        ((*out += cat(qname<X&&>(), "=", num(x), " ")), ...);
    }
};
/// returns a reference to a slot chosen by the arguments
struct GenRef {
    template <typename... X>
    long& operator()(X&&... x) const
    {
        long h = 0;
        ((h = h * 3 + num(x)), ...);
        return g_slots[static_cast<std::size_t>(h < 0 ? -h : h) % 16];
    }
};
struct GenConstRef {
    template <typename... X>
    long const& operator()(X&&... x) const
    {
        long h = 1;
        ((h = h * 5 + num(x)), ...);
        return g_slots[static_cast<std::size_t>(h < 0 ? -h : h) % 16];
    }
};
/// returns the visited alternative itself (only callable when every alternative has one type)
struct Self {
    template <typename X>
    X&& operator()(X&& x) const
    {
        return std::forward<X>(x);
    }
};
struct MoveOnly {
    long v;
    explicit MoveOnly(long x) : v(x) { }
    MoveOnly(MoveOnly&& o) noexcept : v(o.v) { o.v = -777; }
    MoveOnly(MoveOnly const&)                    = delete;
    auto operator=(MoveOnly const&) -> MoveOnly& = delete;
};
struct GenMoveOnly {
    template <typename... X>
    MoveOnly operator()(X&&... x) const
    {
        long h = 2;
        ((h = h * 7 + num(x)), ...);
        return MoveOnly{h};
    }
};
/// ref-qualified call operators: logs how the visitor itself was invoked
struct RefQual {
    std::string* out;
    template <typename... X>
    int operator()(X&&...) &
    {
        *out += "visitor&";
        return 1;
    }
    template <typename... X>
    int operator()(X&&...) const&
    {
        *out += "visitor const&";
        return 2;
    }
    template <typename... X>
    int operator()(X&&...) &&
    {
        *out += "visitor&&";
        return 3;
    }
    template <typename... X>
    int operator()(X&&...) const&&
    {
        *out += "visitor const&&";
        return 4;
    }
};
/// overload set of by-value lambdas with a generic fallback, one argument
inline auto overload1(std::string* out)
{
    return etl::overload{
        [out](int x) { *out += cat("int:", x); return 1; },
        [out](char x) { *out += cat("char:", int(x)); return 2; },
        [out](long x) { *out += cat("long:", x); return 3; },
        [out](int const* x) { *out += cat("int const*:", num(x)); return 4; },
        [out](std::nullptr_t) { *out += "nullptr_t"; return 5; },
        [out](auto const& x) { *out += cat("fallback<", qname<decltype(x)>(), ">:", num(x)); return 6; },
    };
}
/// overload set for two arguments: a few exact pairs, the rest goes to the fallback
inline auto overload2(std::string* out)
{
    return etl::overload{
        [out](int x, int y) { *out += cat("(int,int):", x, ",", y); return 1; },
        [out](int x, char y) { *out += cat("(int,char):", x, ",", int(y)); return 2; },
        [out](char x, int y) { *out += cat("(char,int):", int(x), ",", y); return 3; },
        [out](long x, long y) { *out += cat("(long,long):", x, ",", y); return 4; },
        [out](int* x, char y) { *out += cat("(int*,char):", num(x), ",", int(y)); return 5; },
        [out](auto const& x, auto const& y) {
            *out += cat("fallback<", qname<decltype(x)>(), ",", qname<decltype(y)>(), ">:", num(x), ",", num(y));
            return 6;
        },
    };
}
/// visit_with_index visitor
struct LogIdx {
    std::string* out;
    template <typename... P>
    int operator()(P... p) const
    {
        ((*out += cat("[", static_cast<std::size_t>(p.index), (std::is_const_v<std::remove_reference_t<decltype(p.value())>> ? "c" : "m"), "=",
              num(p.value()), "]")),
            ...);
        return int(sizeof...(P));
    }
};

struct Ctx {
    mc::Reporter& r;
    std::uint64_t evals{0};
    std::uint64_t nontrivial{0};

    void trap(mc::Trap t, std::string const& subject, std::string const& cls, std::string const& kase)
    {
        r.violation(t == mc::Trap::assert_fired ? "C05" : "C02", subject, cat(cls, "/", mc::trap_name(t)), kase, mc::describe_trap(t));
    }
    /// one tetl-vs-std comparison of a visitor log and result
    template <typename A, typename B>
    void same(std::string const& subject, std::string const& cls, std::string const& kase, char const* what, A const& got, B const& want)
    {
        r.count("comparisons");
        if (!(got == want)) { r.violation("C07", subject, cls, kase, cat(what, ": tetl ", got, " std ", want)); }
    }
};

inline char const* subj(int arity)
{
    return arity == 1 ? "visit(F,variant)" : (arity == 2 ? "visit(F,variant,variant)" : "visit(F,variant,variant,variant)");
}
inline char const* subj_idx(int arity)
{
    return arity == 1 ? "visit_with_index(F,variant)" : (arity == 2 ? "visit_with_index(F,variant,variant)" : "visit_with_index(F,variant,variant,variant)");
}

/// arity relation of a tuple of variants (the dispatch encodes the index tuple as a mixed-radix number)
inline std::string arity_class(std::initializer_list<std::size_t> ns)
{
    bool up = true, down = true;
    std::size_t prev = 0;
    bool first = true;
    for (auto n : ns) {
        if (!first) {
            up   = up && prev <= n;
            down = down && prev >= n;
        }
        prev  = n;
        first = false;
    }
    if (up && down) { return "same_arity"; }
    return up ? "increasing_arity" : (down ? "decreasing_arity" : "mixed_arity");
}

// ------------------------------------------------------------------------------ one variant
template <typename F, int C>
void single_cat(Ctx& c)
{
    for_each_state<F>([&](auto e, auto s, std::size_t i, int k) {
        auto const kase = cat(F::name(), " index ", i, " value#", k, " as ", catname(C));
        auto const cls  = cat(shape_class(F::shape), "/", catname(C));
        std::string le, ls;
        int re = 0, rs = 0;
        mc::Trap t = mc::guarded([&] {
            re = etl::visit(Gen{&le}, as<C>(e));
            rs = std::visit(Gen{&ls}, as<C>(s));
        });
        ++c.evals;
        ++c.nontrivial;
        c.r.outcome(mc::hash_str(ls));
        if (t != mc::Trap::none) { return c.trap(t, subj(1), cls, kase); }
        c.same(subj(1), cls, kase, "visitor saw", le, ls);
        c.same(subj(1), cls, kase, "result", re, rs);
        static_assert(std::is_same_v<decltype(etl::visit(std::declval<Gen>(), as<C>(std::declval<typename F::E&>()))), int>);
        // void result
        le.clear(), ls.clear();
        t = mc::guarded([&] {
            etl::visit(GenVoid{&le}, as<C>(e));
            std::visit(GenVoid{&ls}, as<C>(s));
        });
        static_assert(std::is_void_v<decltype(etl::visit(std::declval<GenVoid>(), as<C>(std::declval<typename F::E&>())))>);
        ++c.evals;
        if (t != mc::Trap::none) { return c.trap(t, subj(1), "void_result", kase); }
        c.same(subj(1), "void_result", kase, "visitor saw", le, ls);
        // visit_with_index: exactly the active index, value() const iff the alternative or the variant is const
        std::string li;
        int ri = 0;
        t      = mc::guarded([&] { ri = etl::visit_with_index(LogIdx{&li}, as<C>(e)); });
        ++c.evals;
        if (t != mc::Trap::none) { return c.trap(t, subj_idx(1), cls, kase); }
        long want_num = 0;
        bool alt_const = false;
        std::visit([&](auto const& x) { want_num = num(x); }, s);
        [&]<std::size_t... Is>(std::index_sequence<Is...>) {
            ((Is == i ? (alt_const = std::is_const_v<typename F::template alt<Is>>, 0) : 0), ...);
        }(std::make_index_sequence<F::n>{});
        bool const is_c = alt_const || C == 1 || C == 3;
        c.same(subj_idx(1), cls, kase, "visitor saw", li, cat("[", i, is_c ? "c" : "m", "=", want_num, "]"));
        c.same(subj_idx(1), cls, kase, "result", ri, 1);
        if (c.r.wants_sample()) { c.r.sample(kase + " -> " + ls); }
    });
}

template <typename F>
void single_results(Ctx& c)
{
    for_each_state<F>([&](auto e, auto s, std::size_t i, int k) {
        auto const kase = cat(F::name(), " index ", i, " value#", k);
        auto const sh   = shape_class(F::shape);
        // reference result: exact return type and identity of the referenced object
        {
            using RE = decltype(etl::visit(GenRef{}, std::declval<typename F::E&>()));
            using RS = decltype(std::visit(GenRef{}, std::declval<typename F::S&>()));
            auto const cls = std::string("reference_result");
            c.same(subj(1), cls, kase, "return type is the visitor's (long&)", std::is_same_v<RE, RS>, true);
            long* pe = nullptr;
            long* ps = nullptr;
            mc::Trap t = mc::guarded([&] {
                auto&& re = etl::visit(GenRef{}, e);
                pe        = std::addressof(re);
                auto&& rs = std::visit(GenRef{}, s);
                ps        = std::addressof(rs);
            });
            ++c.evals;
            ++c.nontrivial;
            if (t != mc::Trap::none) { return c.trap(t, subj(1), cls, kase); }
            bool const in_slots = pe >= g_slots && pe < g_slots + 16;
            c.same(subj(1), cls, kase, "refers to slot", in_slots ? cat("slot ", pe - g_slots) : std::string("a temporary"), cat("slot ", ps - g_slots));
        }
        {
            using RE = decltype(etl::visit(GenConstRef{}, std::declval<typename F::E const&>()));
            using RS = decltype(std::visit(GenConstRef{}, std::declval<typename F::S const&>()));
            auto const cls = std::string("const_reference_result");
            c.same(subj(1), cls, kase, "return type is the visitor's (long const&)", std::is_same_v<RE, RS>, true);
            long const* pe = nullptr;
            long const* ps = nullptr;
            mc::Trap t = mc::guarded([&] {
                auto&& re = etl::visit(GenConstRef{}, std::as_const(e));
                pe        = std::addressof(re);
                auto&& rs = std::visit(GenConstRef{}, std::as_const(s));
                ps        = std::addressof(rs);
            });
            ++c.evals;
            if (t != mc::Trap::none) { return c.trap(t, subj(1), cls, kase); }
            bool const in_slots = pe >= g_slots && pe < g_slots + 16;
            c.same(subj(1), cls, kase, "refers to slot", in_slots ? cat("slot ", pe - g_slots) : std::string("a temporary"), cat("slot ", ps - g_slots));
        }
        // move-only result
        {
            auto const cls = std::string("move_only_result");
            long ve = 0, vs = 0;
            mc::Trap t = mc::guarded([&] {
                MoveOnly re = etl::visit(GenMoveOnly{}, e);
                MoveOnly rs = std::visit(GenMoveOnly{}, s);
                ve          = re.v;
                vs          = rs.v;
            });
            static_assert(std::is_same_v<decltype(etl::visit(GenMoveOnly{}, std::declval<typename F::E&>())), MoveOnly>);
            ++c.evals;
            if (t != mc::Trap::none) { return c.trap(t, subj(1), cls, kase); }
            c.same(subj(1), cls, kase, "value", ve, vs);
        }
        // the visitor's own value category
        {
            auto const cls = std::string("visitor_category");
            std::string le, ls;
            mc::Trap t = mc::guarded([&] {
                RefQual ve{&le};
                RefQual vs{&ls};
                le += cat(etl::visit(ve, e), " ");
                ls += cat(std::visit(vs, s), " ");
                le += cat(etl::visit(std::as_const(ve), e), " ");
                ls += cat(std::visit(std::as_const(vs), s), " ");
                le += cat(etl::visit(std::move(ve), e), " ");
                ls += cat(std::visit(std::move(vs), s), " ");
                le += cat(etl::visit(std::move(std::as_const(ve)), e), " ");
                ls += cat(std::visit(std::move(std::as_const(vs)), s), " ");
            });
            c.evals += 4;
            if (t != mc::Trap::none) { return c.trap(t, subj(1), cls, kase); }
            c.same(subj(1), cls, kase, "visitor invoked as", le, ls);
        }
        // overload set with a generic fallback
        if constexpr ((F::shape & refwrap_alt) == 0) {
            auto const cls = sh + "/overload_set";
            std::string le, ls;
            int re = 0, rs = 0;
            mc::Trap t = mc::guarded([&] {
                re = etl::visit(overload1(&le), e);
                rs = std::visit(overload1(&ls), s);
            });
            ++c.evals;
            c.r.outcome(mc::hash_str(ls));
            if (t != mc::Trap::none) { return c.trap(t, subj(1), cls, kase); }
            c.same(subj(1), cls, kase, "chosen overload", le, ls);
            c.same(subj(1), cls, kase, "result", re, rs);
        }
        // every alternative has one type: the visitor can hand back the alternative itself
        if constexpr ((F::shape & duplicate_alt) != 0 && std::is_same_v<typename F::template alt<0>, typename F::template alt<F::n - 1>> && F::n == 2) {
            auto const cls = std::string("reference_to_alternative");
            using RE       = decltype(etl::visit(Self{}, std::declval<typename F::E&>()));
            using RS       = decltype(std::visit(Self{}, std::declval<typename F::S&>()));
            c.same(subj(1), cls, kase, "return type is the visitor's (int&)", std::is_same_v<RE, RS>, true);
            bool ie = false, is = false;
            mc::Trap t = mc::guarded([&] {
                auto&& re = etl::visit(Self{}, e);
                auto&& rs = std::visit(Self{}, s);
                ie        = i == 0 ? (std::addressof(re) == etl::get_if<0>(&e)) : (std::addressof(re) == etl::get_if<1>(&e));
                is        = i == 0 ? (std::addressof(rs) == std::get_if<0>(&s)) : (std::addressof(rs) == std::get_if<1>(&s));
            });
            ++c.evals;
            if (t != mc::Trap::none) { return c.trap(t, subj(1), cls, kase); }
            c.same(subj(1), cls, kase, "result refers to the active alternative", ie, is);
        }
    });
}

template <typename F>
void single(Ctx& c)
{
    single_cat<F, 0>(c);
    single_cat<F, 1>(c);
    single_cat<F, 2>(c);
    single_cat<F, 3>(c);
    single_results<F>(c);
}

// ------------------------------------------------------------------------------ two variants
template <typename F1, typename F2, int C1, int C2>
void pair_cat(Ctx& c)
{
    for_each_state<F1>([&](auto e1, auto s1, std::size_t i1, int k1) {
        for_each_state<F2>([&](auto e2, auto s2, std::size_t i2, int k2) {
            auto const kase = cat(F1::name(), " index ", i1, " value#", k1, " as ", catname(C1), " x ", F2::name(), " index ", i2, " value#", k2, " as ", catname(C2));
            auto const cls  = cat(arity_class({F1::n, F2::n}), "/", shape_class(F1::shape | F2::shape));
            std::string le, ls;
            int re = 0, rs = 0;
            mc::Trap t = mc::guarded([&] {
                re = etl::visit(Gen{&le}, as<C1>(e1), as<C2>(e2));
                rs = std::visit(Gen{&ls}, as<C1>(s1), as<C2>(s2));
            });
            ++c.evals;
            ++c.nontrivial;
            c.r.outcome(mc::hash_str(ls));
            if (t != mc::Trap::none) { return c.trap(t, subj(2), cls, kase); }
            c.same(subj(2), cls, kase, "visitor saw", le, ls);
            c.same(subj(2), cls, kase, "result", re, rs);
            if (c.r.wants_sample()) { c.r.sample(kase + " -> " + ls); }
        });
    });
}

template <typename F1, typename F2>
void pair_results(Ctx& c)
{
    for_each_state<F1>([&](auto e1, auto s1, std::size_t i1, int k1) {
        for_each_state<F2>([&](auto e2, auto s2, std::size_t i2, int k2) {
            auto const kase = cat(F1::name(), " index ", i1, " value#", k1, " x ", F2::name(), " index ", i2, " value#", k2);
            auto const base = cat(arity_class({F1::n, F2::n}), "/", shape_class(F1::shape | F2::shape));
            {
                auto const cls = std::string("void_result");
                std::string le, ls;
                mc::Trap t = mc::guarded([&] {
                    etl::visit(GenVoid{&le}, e1, std::as_const(e2));
                    std::visit(GenVoid{&ls}, s1, std::as_const(s2));
                });
                ++c.evals;
                if (t != mc::Trap::none) { return c.trap(t, subj(2), cls, kase); }
                c.same(subj(2), cls, kase, "visitor saw", le, ls);
            }
            {
                auto const cls = std::string("reference_result");
                using RE       = decltype(etl::visit(GenRef{}, std::declval<typename F1::E&>(), std::declval<typename F2::E&>()));
                using RS       = decltype(std::visit(GenRef{}, std::declval<typename F1::S&>(), std::declval<typename F2::S&>()));
                c.same(subj(2), cls, kase, "return type is the visitor's (long&)", std::is_same_v<RE, RS>, true);
                long* pe = nullptr;
                long* ps = nullptr;
                mc::Trap t = mc::guarded([&] {
                    auto&& re = etl::visit(GenRef{}, e1, e2);
                    pe        = std::addressof(re);
                    auto&& rs = std::visit(GenRef{}, s1, s2);
                    ps        = std::addressof(rs);
                });
                ++c.evals;
                if (t != mc::Trap::none) { return c.trap(t, subj(2), cls, kase); }
                bool const in_slots = pe >= g_slots && pe < g_slots + 16;
                c.same(subj(2), cls, kase, "refers to slot", in_slots ? cat("slot ", pe - g_slots) : std::string("a temporary"), cat("slot ", ps - g_slots));
            }
            {
                auto const cls = std::string("move_only_result");
                long ve = 0, vs = 0;
                mc::Trap t = mc::guarded([&] {
                    MoveOnly re = etl::visit(GenMoveOnly{}, e1, e2);
                    MoveOnly rs = std::visit(GenMoveOnly{}, s1, s2);
                    ve          = re.v;
                    vs          = rs.v;
                });
                ++c.evals;
                if (t != mc::Trap::none) { return c.trap(t, subj(2), cls, kase); }
                c.same(subj(2), cls, kase, "value", ve, vs);
            }
            if constexpr (((F1::shape | F2::shape) & refwrap_alt) == 0) {
                auto const cls = base + "/overload_set";
                std::string le, ls;
                int re = 0, rs = 0;
                mc::Trap t = mc::guarded([&] {
                    re = etl::visit(overload2(&le), e1, e2);
                    rs = std::visit(overload2(&ls), s1, s2);
                });
                ++c.evals;
                c.r.outcome(mc::hash_str(ls));
                if (t != mc::Trap::none) { return c.trap(t, subj(2), cls, kase); }
                c.same(subj(2), cls, kase, "chosen overload", le, ls);
                c.same(subj(2), cls, kase, "result", re, rs);
            }
            {
                // visit_with_index: closed form
                std::string li;
                int ri     = 0;
                mc::Trap t = mc::guarded([&] { ri = etl::visit_with_index(LogIdx{&li}, e1, std::as_const(e2)); });
                ++c.evals;
                if (t != mc::Trap::none) { return c.trap(t, subj_idx(2), base, kase); }
                long n1 = 0, n2 = 0;
                bool c1 = false;
                std::visit([&](auto const& x) { n1 = num(x); }, s1);
                std::visit([&](auto const& x) { n2 = num(x); }, s2);
                [&]<std::size_t... Is>(std::index_sequence<Is...>) {
                    ((Is == i1 ? (c1 = std::is_const_v<typename F1::template alt<Is>>, 0) : 0), ...);
                }(std::make_index_sequence<F1::n>{});
                c.same(subj_idx(2), base, kase, "visitor saw", li, cat("[", i1, c1 ? "c" : "m", "=", n1, "][", i2, "c=", n2, "]"));
                c.same(subj_idx(2), base, kase, "result", ri, 2);
            }
        });
    });
}

template <typename F1, typename F2>
void pair_all_categories(Ctx& c)
{
    [&]<int... Cs>(std::integer_sequence<int, Cs...>) { (pair_cat<F1, F2, Cs / 4, Cs % 4>(c), ...); }(std::make_integer_sequence<int, 16>{});
}

// ------------------------------------------------------------------------------ three variants
template <typename F1, typename F2, typename F3, int C1, int C2, int C3>
void triple_cat(Ctx& c)
{
    for_each_state<F1>([&](auto e1, auto s1, std::size_t i1, int k1) {
        for_each_state<F2>([&](auto e2, auto s2, std::size_t i2, int k2) {
            if (k2 != k1) { return; } // values: all three variants take value#0 or all take value#1
            for_each_state<F3>([&](auto e3, auto s3, std::size_t i3, int k3) {
                if (k3 != k1) { return; }
                auto const kase = cat(F1::name(), " x ", F2::name(), " x ", F3::name(), " indices (", i1, ",", i2, ",", i3, ") value#", k1, " as (", catname(C1), ",", catname(C2),
                    ",", catname(C3), ")");
                auto const cls  = cat(arity_class({F1::n, F2::n, F3::n}), "/", shape_class(F1::shape | F2::shape | F3::shape));
                std::string le, ls;
                int re = 0, rs = 0;
                mc::Trap t = mc::guarded([&] {
                    re = etl::visit(Gen{&le}, as<C1>(e1), as<C2>(e2), as<C3>(e3));
                    rs = std::visit(Gen{&ls}, as<C1>(s1), as<C2>(s2), as<C3>(s3));
                });
                ++c.evals;
                ++c.nontrivial;
                c.r.outcome(mc::hash_str(ls));
                if (t != mc::Trap::none) { return c.trap(t, subj(3), cls, kase); }
                c.same(subj(3), cls, kase, "visitor saw", le, ls);
                c.same(subj(3), cls, kase, "result", re, rs);
                if constexpr (C1 == 0 && C2 == 1 && C3 == 0) {
                    // result kinds and visit_with_index once per index tuple
                    {
                        auto const c2 = std::string("reference_result");
                        using RE      = decltype(etl::visit(GenRef{}, std::declval<typename F1::E&>(), std::declval<typename F2::E&>(), std::declval<typename F3::E&>()));
                        using RS      = decltype(std::visit(GenRef{}, std::declval<typename F1::S&>(), std::declval<typename F2::S&>(), std::declval<typename F3::S&>()));
                        c.same(subj(3), c2, kase, "return type is the visitor's (long&)", std::is_same_v<RE, RS>, true);
                        long* pe = nullptr;
                        long* ps = nullptr;
                        mc::Trap t2 = mc::guarded([&] {
                            auto&& r1 = etl::visit(GenRef{}, e1, e2, e3);
                            pe        = std::addressof(r1);
                            auto&& r2 = std::visit(GenRef{}, s1, s2, s3);
                            ps        = std::addressof(r2);
                        });
                        ++c.evals;
                        if (t2 != mc::Trap::none) { return c.trap(t2, subj(3), c2, kase); }
                        bool const in_slots = pe >= g_slots && pe < g_slots + 16;
                        c.same(subj(3), c2, kase, "refers to slot", in_slots ? cat("slot ", pe - g_slots) : std::string("a temporary"), cat("slot ", ps - g_slots));
                    }
                    {
                        auto const c2 = std::string("void_result");
                        std::string l1, l2;
                        mc::Trap t2 = mc::guarded([&] {
                            etl::visit(GenVoid{&l1}, e1, e2, e3);
                            std::visit(GenVoid{&l2}, s1, s2, s3);
                        });
                        ++c.evals;
                        if (t2 != mc::Trap::none) { return c.trap(t2, subj(3), c2, kase); }
                        c.same(subj(3), c2, kase, "visitor saw", l1, l2);
                    }
                    {
                        auto const c2 = std::string("move_only_result");
                        long ve = 0, vs = 0;
                        mc::Trap t2 = mc::guarded([&] {
                            MoveOnly r1 = etl::visit(GenMoveOnly{}, e1, e2, e3);
                            MoveOnly r2 = std::visit(GenMoveOnly{}, s1, s2, s3);
                            ve          = r1.v;
                            vs          = r2.v;
                        });
                        ++c.evals;
                        if (t2 != mc::Trap::none) { return c.trap(t2, subj(3), c2, kase); }
                        c.same(subj(3), c2, kase, "value", ve, vs);
                    }
                    {
                        std::string li;
                        int ri      = 0;
                        mc::Trap t2 = mc::guarded([&] { ri = etl::visit_with_index(LogIdx{&li}, std::as_const(e1), std::as_const(e2), std::as_const(e3)); });
                        ++c.evals;
                        if (t2 != mc::Trap::none) { return c.trap(t2, subj_idx(3), cls, kase); }
                        long n1 = 0, n2 = 0, n3 = 0;
                        std::visit([&](auto const& x) { n1 = num(x); }, s1);
                        std::visit([&](auto const& x) { n2 = num(x); }, s2);
                        std::visit([&](auto const& x) { n3 = num(x); }, s3);
                        c.same(subj_idx(3), cls, kase, "visitor saw", li, cat("[", i1, "c=", n1, "][", i2, "c=", n2, "][", i3, "c=", n3, "]"));
                        c.same(subj_idx(3), cls, kase, "result", ri, 3);
                    }
                }
                if (c.r.wants_sample()) { c.r.sample(kase + " -> " + ls); }
            });
        });
    });
}

template <typename F1, typename F2, typename F3>
void triple(Ctx& c)
{
    triple_cat<F1, F2, F3, 0, 1, 0>(c);
    triple_cat<F1, F2, F3, 1, 0, 2>(c);
    triple_cat<F1, F2, F3, 2, 3, 1>(c);
    triple_cat<F1, F2, F3, 3, 2, 3>(c);
}

using P2  = Fam<plain, int, char>;
using P3  = Fam<plain, int, char, long>;
using P4  = Fam<plain, short, int, char, long>;
using CA  = Fam<const_alt, int const, char>;
using CA3 = Fam<const_alt, long, char const, int const>;
using PT  = Fam<pointer_alt, int*, int const*, std::nullptr_t>;
using RW  = Fam<refwrap_alt, std::reference_wrapper<int>, long>;
using D2  = Fam<duplicate_alt, int, int>;
using D3  = Fam<duplicate_alt, int, float, int>;

void finish(mc::Reporter& r, Ctx& c)
{
    r.count("evaluations", c.evals);
    r.count("distinct_nontrivial", c.nontrivial);
    r.count("configurations", 1);
}

} // namespace

int main(int argc, char** argv)
{
    mc::Main m(argc, argv);
    std::vector<std::string> const both{"quick", "thorough"};
#if !defined(MC_PART) || MC_PART == 1
    m.job("visit-shapes/one-variant", both, [](mc::Reporter& r) {
        Ctx c{r};
        single<P3>(c);
        single<CA>(c);
        single<CA3>(c);
        single<PT>(c);
        single<RW>(c);
        single<D2>(c);
        single<D3>(c);
        finish(r, c);
    });
    m.job("visit-shapes/two-variants", both, [](mc::Reporter& r) {
        Ctx c{r};
        pair_all_categories<CA, PT>(c);
        pair_cat<P3, D2, 0, 0>(c);
        pair_cat<P3, D2, 1, 2>(c);
        pair_cat<P3, D2, 2, 1>(c);
        pair_cat<P3, D2, 3, 3>(c);
        pair_cat<PT, CA, 0, 1>(c);
        pair_cat<PT, CA, 3, 2>(c);
        pair_cat<RW, CA3, 0, 1>(c);
        pair_cat<CA3, RW, 2, 3>(c);
        pair_cat<D3, P2, 1, 0>(c);
        pair_cat<D2, D3, 2, 1>(c);
        pair_results<CA, PT>(c);
        pair_results<PT, CA>(c);
        pair_results<P3, D2>(c);
        pair_results<D3, P2>(c);
        pair_results<RW, CA3>(c);
        finish(r, c);
    });
#endif
#if !defined(MC_PART) || MC_PART == 2
    m.job("visit-shapes/three-variants", both, [](mc::Reporter& r) {
        Ctx c{r};
        triple<P3, CA, P4>(c);
        triple<P4, PT, D2>(c);
        triple<CA, D3, PT>(c);
        triple<D2, RW, CA3>(c);
        finish(r, c);
    });
#endif
    return m.run();
}
