// C20 round 2: pieces shared by the widened call-wrapper harnesses (c20_wrappers2.cpp, c20_fn_sizes.cpp):
// the checker front end, value-category helpers, instrumented targets that are callable in every / in exactly
// one value category, and the parameter-kind machinery used to enumerate call signatures.
#pragma once
#include "c20_common.hpp"

#include <set>
#include <string>
#include <type_traits>
#include <utility>

namespace c20 {

using TC = mc::Tracked<mc::copy_move>;
using MO = mc::Tracked<mc::move_only>;

template <typename T>
std::string tn()
{
    std::string p = __PRETTY_FUNCTION__;
    auto b        = p.find("T = ");
    if (b == std::string::npos) { return p; }
    b += 4;
    auto e = p.find_first_of(";]", b);
    auto s = p.substr(b, e - b);
    for (auto const& [from, to] : {std::pair<std::string, std::string>{"mc::Tracked<1, 0>", "MoveOnly"}, {"mc::Tracked<0, 0>", "Tracked"}, {"mc::Tracked<1>", "MoveOnly"},
             {"mc::Tracked<0>", "Tracked"}}) {
        for (auto pos = s.find(from); pos != std::string::npos; pos = s.find(from, pos + to.size())) { s.replace(pos, from.size(), to); }
    }
    return s;
}

struct Ck {
    mc::Reporter& r;
    void tick(bool nontrivial)
    {
        r.count("evaluations");
        if (nontrivial) { r.count("distinct_nontrivial"); }
    }
    template <typename A, typename B>
    bool eq(std::string const& subj, std::string const& cls, std::string const& what, A const& got, B const& want, bool nontrivial = true)
    {
        tick(nontrivial);
        r.outcome(mc::hash_str(cat(subj, "|", got)));
        if (r.wants_sample()) { r.sample(cat(subj, " ", what, " -> ", got)); }
        if (!(got == want)) {
            r.violation("C20", subj, cls, what, cat("tetl=", got, " reference=", want));
            return false;
        }
        return true;
    }
    template <typename Got, typename Want>
    void type(std::string const& subj, std::string const& cls, std::string const& what)
    {
        tick(true);
        r.count("type_checks");
        if constexpr (!std::is_same_v<Got, Want>) { r.violation("C20", subj, cls, what, cat("type tetl=", tn<Got>(), " reference=", tn<Want>())); }
    }
    void gap(std::string const& text)
    {
        static std::set<std::string> seen;
        r.count("api_presence_checks");
        if (seen.insert(text).second) { r.note(cat("API difference (not a violation): ", text)); }
    }
    void lifetimes(std::string const& subj)
    {
        for (auto const& e : registry().take_errors()) { r.violation("C03", subj, cat("lifetime:", e), subj, e); }
    }
};

inline char const* cat_text(int c)
{
    static char const* n[] = {"&", "const&", "&&", "const&&"};
    return n[c];
}

template <int C, typename T>
decltype(auto) as_cat(T& x)
{
    if constexpr (C == 0) {
        return (x);
    } else if constexpr (C == 1) {
        return std::as_const(x);
    } else if constexpr (C == 2) {
        return std::move(x);
    } else {
        return std::move(std::as_const(x));
    }
}
template <int C, typename T>
using as_cat_t = decltype(as_cat<C>(std::declval<T&>()));

template <int... C>
std::string cats_text()
{
    std::string o = "(";
    std::size_t i = 0;
    ((o += (i++ ? "," : "") + std::string(cat_text(C))), ...);
    return o + ")";
}

template <typename X>
int val_of(X const& x)
{
    using B = std::remove_cvref_t<X>;
    if constexpr (mc::is_tracked_v<B>) {
        return x.value();
    } else if constexpr (std::is_arithmetic_v<B>) {
        return static_cast<int>(x);
    } else {
        return 99;
    }
}

template <typename... A>
int fold_vals(A const&... a)
{
    int sum = 0;
    ((sum = sum * 7 + val_of(a)), ...);
    return sum;
}

// ---------------------------------------------------------------------------------------
// targets: Probe is callable in all four value categories and logs which one was used;
// Only<Q> is callable in exactly the categories a single ref-qualified operator() admits
// ---------------------------------------------------------------------------------------
struct Probe {
    int id;
    template <typename... A>
    int hit(char const* q, A&&... a) const
    {
        call_log().push_back(cat("P", id, "@", q, "(", show_args(std::forward<A>(a)...), ")"));
        return id * 100000 + fold_vals(a...);
    }
    template <typename... A>
    int operator()(A&&... a) &
    {
        return hit("&", std::forward<A>(a)...);
    }
    template <typename... A>
    int operator()(A&&... a) const&
    {
        return hit("const&", std::forward<A>(a)...);
    }
    template <typename... A>
    int operator()(A&&... a) &&
    {
        return hit("&&", std::forward<A>(a)...);
    }
    template <typename... A>
    int operator()(A&&... a) const&&
    {
        return hit("const&&", std::forward<A>(a)...);
    }
};

enum Qual : int { q_l = 0, q_cl = 1, q_r = 2, q_cr = 3 };

template <int Q>
struct Only;
template <>
struct Only<q_l> {
    int id;
    template <typename... A>
    int operator()(A&&... a) &
    {
        return Probe{id}.hit("&", std::forward<A>(a)...);
    }
};
template <>
struct Only<q_cl> {
    int id;
    template <typename... A>
    int operator()(A&&... a) const&
    {
        return Probe{id}.hit("const&", std::forward<A>(a)...);
    }
};
template <>
struct Only<q_r> {
    int id;
    template <typename... A>
    int operator()(A&&... a) &&
    {
        return Probe{id}.hit("&&", std::forward<A>(a)...);
    }
};
template <>
struct Only<q_cr> {
    int id;
    template <typename... A>
    int operator()(A&&... a) const&&
    {
        return Probe{id}.hit("const&&", std::forward<A>(a)...);
    }
};
inline char const* qual_text(int q)
{
    static char const* n[] = {"operator()&", "operator()const&", "operator()&&", "operator()const&&"};
    return n[q];
}
/// can an object expression of category OC (0 &, 1 const&, 2 &&, 3 const&&) call a member function with ref-qualifier Q?
constexpr bool qual_admits(int q, int oc)
{
    switch (q) {
    case q_l: return oc == 0;
    case q_cl: return true;
    case q_r: return oc == 2;
    default: return oc == 2 || oc == 3;
    }
}

// ---------------------------------------------------------------------------------------
// parameter kinds of a call signature R(P...): how to produce a matching argument and what the target must see
// ---------------------------------------------------------------------------------------
template <typename P>
std::string pname()
{
    return tn<P>();
}

/// what a target whose parameter is declared as P logs for show_arg(std::forward<P>(p))
template <typename P>
std::string expect_arg(int v)
{
    using B = std::remove_cvref_t<P>;
    return cat(catname<P&&>(), ":", mc::is_tracked_v<B> ? "T" : "", v);
}

/// calls f(argument expression that initialises a parameter of type P with value v)
/// by-value class types are passed as lvalues (one copy at the call site, none afterwards) unless they are move-only
template <typename P, typename F>
decltype(auto) with_arg(int v, F&& f)
{
    using B = std::remove_cvref_t<P>;
    if constexpr (std::is_lvalue_reference_v<P> && !std::is_const_v<std::remove_reference_t<P>>) {
        B cell(v);
        return f(cell);
    } else if constexpr (std::is_lvalue_reference_v<P>) {
        B const cell(v);
        return f(cell);
    } else if constexpr (std::is_rvalue_reference_v<P>) {
        B cell(v);
        return f(std::move(cell));
    } else if constexpr (std::is_same_v<B, TC>) {
        TC cell(v);
        return f(cell);
    } else {
        return f(B(v));
    }
}
/// copies of instrumented arguments the call site itself makes for a by-value parameter of kind P
template <typename P>
constexpr int call_site_copies()
{
    return std::is_same_v<P, TC> ? 1 : 0;
}

// free-function target with exactly the declared parameter types
template <typename... P>
int fn_target(P... p)
{
    call_log().push_back(cat("fn(", show_args(std::forward<P>(p)...), ")"));
    return 900000 + fold_vals(p...);
}
template <typename... P>
int fn_other(P... p)
{
    call_log().push_back(cat("other(", show_args(std::forward<P>(p)...), ")"));
    return 800000 + fold_vals(p...);
}

/// evaluates f() FIRST, then appends the call log it produced
template <typename F>
std::string run_log(F&& f)
{
    auto const r = f();
    return cat(r, " ", take_log());
}

template <typename...>
struct TL { };

} // namespace c20
