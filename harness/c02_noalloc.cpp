// C02, "never calls a dynamic allocator": a tetl-only translation unit that instantiates the
// owning containers, strings, views, sum types, callable wrappers, algorithms and conversions
// for trivial and non-trivial element types is compiled to an object file from /repo/include
// as it is now, and the object's undefined symbols are inspected: any reference to
// operator new/delete or malloc/calloc/realloc/free/aligned_alloc means some instantiated
// tetl code path can allocate.  This is a link-level closure statement over *every* input of
// the instantiated functions (if the symbol is not referenced, no execution can call it); it
// is an auxiliary oracle next to the explored histories, not an exploration itself.
#include "mc.hpp"

#include <array>
#include <cstdio>
#include <string>

#ifndef MC_REPO_INCLUDE
    #define MC_REPO_INCLUDE "/repo/include"
#endif
#ifndef MC_VERIF_DIR
    #define MC_VERIF_DIR "/verif"
#endif

static std::string run(std::string const& cmd, int& rc)
{
    std::string out;
    std::FILE* p = popen((cmd + " 2>&1").c_str(), "r");
    if (p == nullptr) {
        rc = -1;
        return out;
    }
    std::array<char, 4096> buf{};
    while (std::fgets(buf.data(), int(buf.size()), p) != nullptr) { out += buf.data(); }
    rc = pclose(p);
    return out;
}

int main(int argc, char** argv)
{
    mc::Main m(argc, argv);
    for (std::string opt : {"-O0", "-O1", "-O2"}) {
        m.job("undefined-symbols" + opt, {"quick", "thorough"}, [opt](mc::Reporter& r) {
            std::string const obj = std::string(MC_VERIF_DIR) + "/build/c02_noalloc" + opt + ".o";
            int rc                = 0;
            auto const log        = run(std::string("g++ -std=c++20 -w ") + opt + " -fno-exceptions -fno-rtti -c -I" + MC_REPO_INCLUDE + " "
                                            + MC_VERIF_DIR + "/harness/c02_noalloc/tu.cpp -o " + obj,
                rc);
            if (rc != 0) {
                r.violation("C02", "noalloc::<translation unit>", "does-not-compile", "harness/c02_noalloc/tu.cpp " + opt, log.substr(0, 1500));
                return;
            }
            auto const syms = run("nm -u -C " + obj, rc);
            std::size_t n = 0, bad = 0;
            std::size_t pos = 0;
            while (pos < syms.size()) {
                auto e           = syms.find('\n', pos);
                std::string line = syms.substr(pos, e == std::string::npos ? std::string::npos : e - pos);
                pos              = e == std::string::npos ? syms.size() : e + 1;
                auto u           = line.find("U ");
                if (u == std::string::npos) { continue; }
                std::string sym = line.substr(u + 2);
                ++n;
                r.outcome(mc::hash_str(sym));
                bool const alloc = sym.rfind("operator new", 0) == 0 || sym.rfind("operator delete", 0) == 0 || sym == "malloc"
                                || sym == "calloc" || sym == "realloc" || sym == "free" || sym == "aligned_alloc" || sym == "posix_memalign"
                                || sym == "memalign" || sym == "strdup";
                if (alloc) {
                    ++bad;
                    r.violation("C02", "noalloc::" + sym, "allocator-symbol-referenced", "tu.cpp " + opt, "the object file references " + sym);
                }
                if (r.wants_sample()) { r.sample("undefined symbol at " + opt + ": " + sym); }
            }
            r.count("evaluations", n);
            r.count("distinct_nontrivial", n);
            r.count("object_files_inspected", 1);
            r.note("c02_noalloc " + opt + ": " + std::to_string(n) + " undefined symbols, " + std::to_string(bad) + " allocator references");
        });
    }
    return m.run();
}
