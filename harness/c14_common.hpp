// Shared machinery of the C14 harnesses (c14_bit.cpp, c14_numeric.cpp, c14_cmp.cpp).
//
// Every sweep is a deterministic odometer over an explicitly constructed, duplicate-free
// value set (or product of two sets); each point is evaluated on tetl and on a reference
// (libstdc++ <bit>/<numeric>/<utility> and/or exact __int128 arithmetic); all results are
// carried as __int128 so that "equal" means equal as mathematical integers.
#pragma once

#include "mc.hpp"

#include <bit>
#include <cstdint>
#include <limits>
#include <numeric>
#include <set>
#include <string>
#include <type_traits>
#include <utility>
#include <vector>

namespace c14 {

using i128 = __int128;
using u128 = unsigned __int128;
using i8   = std::int8_t;
using i16  = std::int16_t;
using i32  = std::int32_t;
using i64  = std::int64_t;
using u8   = std::uint8_t;
using u16  = std::uint16_t;
using u32  = std::uint32_t;
using u64  = std::uint64_t;

template <typename T>
constexpr char const* tname()
{
    if constexpr (std::is_same_v<T, i8>) { return "i8"; }
    if constexpr (std::is_same_v<T, i16>) { return "i16"; }
    if constexpr (std::is_same_v<T, i32>) { return "i32"; }
    if constexpr (std::is_same_v<T, i64>) { return "i64"; }
    if constexpr (std::is_same_v<T, u8>) { return "u8"; }
    if constexpr (std::is_same_v<T, u16>) { return "u16"; }
    if constexpr (std::is_same_v<T, u32>) { return "u32"; }
    if constexpr (std::is_same_v<T, u64>) { return "u64"; }
    if constexpr (std::is_same_v<T, char>) { return "char"; }
    if constexpr (std::is_same_v<T, long long>) { return "long long"; }
    if constexpr (std::is_same_v<T, unsigned long long>) { return "unsigned long long"; }
    return "?";
}

template <typename T>
inline constexpr int width_v = std::numeric_limits<std::make_unsigned_t<T>>::digits;
template <typename T>
inline constexpr i128 min_v = i128(std::numeric_limits<T>::min());
template <typename T>
inline constexpr i128 max_v = i128(std::numeric_limits<T>::max());

inline std::string dec(i128 v)
{
    if (v == 0) { return "0"; }
    bool const neg = v < 0;
    u128 u         = neg ? u128(0) - u128(v) : u128(v);
    std::string s;
    while (u != 0) {
        s.insert(s.begin(), char('0' + int(u % 10)));
        u /= 10;
    }
    if (neg) { s.insert(s.begin(), '-'); }
    return s;
}

template <typename T>
std::string show(T v)
{
    using U = std::make_unsigned_t<T>;
    char b[40];
    std::snprintf(b, sizeof b, "0x%0*llx", width_v<T> / 4, static_cast<unsigned long long>(U(v)));
    return dec(i128(v)) + " (" + b + ")";
}

inline i128 iabs(i128 v) { return v < 0 ? -v : v; }

template <typename T>
bool fits(i128 v)
{
    return v >= min_v<T> && v <= max_v<T>;
}

// "simplest first": by magnitude, non-negative before negative
template <typename T>
void sort_simplest_first(std::vector<T>& v)
{
    std::sort(v.begin(), v.end(), [](T a, T b) {
        i128 const aa = iabs(i128(a)), bb = iabs(i128(b));
        if (aa != bb) { return aa < bb; }
        return a > b;
    });
}

/// every value of an 8- or 16-bit type
template <typename T>
std::vector<T> const& all_values()
{
    static_assert(sizeof(T) <= 2);
    static std::vector<T> const v = [] {
        std::vector<T> o;
        for (i128 x = min_v<T>; x <= max_v<T>; ++x) { o.push_back(T(x)); }
        sort_simplest_first(o);
        return o;
    }();
    return v;
}

/// The boundary lattice of a type (any width): 0, 1, every single bit b, b-2, b-1 (= all ones
/// below the bit), b+1, alternating/byte patterns, small numbers and products/powers of small
/// primes (so that gcd/lcm/ipow have non-trivial results), the bitwise complement of each of
/// those (gives -b, -b+-1, limits, limits-+1 for signed types).  Duplicate-free.
template <typename T>
std::vector<T> const& lattice()
{
    static std::vector<T> const v = [] {
        using U         = std::make_unsigned_t<T>;
        constexpr int W = width_v<T>;
        std::set<U> s;
        auto add = [&](u128 x) {
            U const u = U(x);
            s.insert(u);
            s.insert(U(~u));
        };
        add(0);
        add(1);
        for (int k = 0; k < W; ++k) {
            u128 const b = u128(1) << k;
            add(b - 2);
            add(b - 1);
            add(b);
            add(b + 1);
        }
        for (std::uint64_t p : {0x5555555555555555ULL, 0x3333333333333333ULL, 0x0F0F0F0F0F0F0F0FULL, 0x00FF00FF00FF00FFULL,
                 0x0000FFFF0000FFFFULL, 0x0123456789ABCDEFULL, 0xDEADBEEFCAFEBABEULL, 0x8000000180000001ULL, 0x0102040810204080ULL}) {
            add(p);
            add(p >> 32);
        }
        for (u128 x = 2; x <= 20; ++x) { add(x); }
        for (u128 x : {24, 30, 36, 42, 60, 100, 105, 210, 1000, 1001, 2310, 30030}) { add(x); }
        u128 const top = u128(std::numeric_limits<U>::max());
        for (u128 base : {3, 5, 6, 7, 10, 12}) {
            for (u128 p = base * base; p <= top; p *= base) { add(p); }
        }
        for (u128 f = 2, k = 3; f * k <= top; ++k) {
            f *= k;
            add(f);
        }
        std::vector<T> o;
        for (U u : s) { o.push_back(T(u)); }
        sort_simplest_first(o);
        return o;
    }();
    return v;
}

/// complete value set used for a type: every value up to 16 bits, the lattice above
template <typename T>
std::vector<T> const& full()
{
    if constexpr (sizeof(T) <= 2) {
        return all_values<T>();
    } else {
        return lattice<T>();
    }
}

/// small set: every value for 8 bits, the lattice ("boundary grid") from 16 bits on
template <typename T>
std::vector<T> const& small()
{
    if constexpr (sizeof(T) == 1) {
        return all_values<T>();
    } else {
        return lattice<T>();
    }
}

/// full(T) without small(T) (non-empty only for 16-bit types)
template <typename T>
std::vector<T> const& full_minus_small()
{
    static std::vector<T> const v = [] {
        std::vector<T> o;
        if constexpr (sizeof(T) == 2) {
            std::set<T> g(lattice<T>().begin(), lattice<T>().end());
            for (T x : all_values<T>()) {
                if (g.count(x) == 0) { o.push_back(x); }
            }
        }
        return o;
    }();
    return v;
}

template <typename T, typename U>
struct Product {
    std::vector<T> const* a;
    std::vector<U> const* b;
};
template <typename T, typename U>
using Space = std::vector<Product<T, U>>;

/// The pair space of two types: full(T) x full(U), except that two 16-bit types get
/// (all x grid) u (grid x all).  The parts are disjoint.
template <typename T, typename U>
Space<T, U> pair_space()
{
    Space<T, U> s;
    if constexpr (sizeof(T) == 2 && sizeof(U) == 2) {
        s.push_back({&full<T>(), &small<U>()});
        s.push_back({&small<T>(), &full_minus_small<U>()});
    } else {
        s.push_back({&full<T>(), &full<U>()});
    }
    return s;
}

/// thorough: the complete 2^16 x 2^16 square, slice `chunk` of `nchunks` along the first axis
template <typename T>
std::vector<T> slice16(unsigned chunk, unsigned nchunks)
{
    auto const& all     = all_values<T>();
    std::size_t const n = all.size() / nchunks;
    return std::vector<T>(all.begin() + std::ptrdiff_t(chunk * n), all.begin() + std::ptrdiff_t((chunk + 1) * n));
}

// ---------------------------------------------------------------------------------------
// guarded loop: runs body(i) for i in [0,n); a trap (contract handler, signal, hang) ends
// only the failing point, which is reported through on_trap(i, trap); the loop resumes at i+1
// ---------------------------------------------------------------------------------------

inline volatile std::size_t g_cur = 0;

template <typename Body, typename OnTrap>
void guarded_for(std::size_t n, Body&& body, OnTrap&& on_trap)
{
    std::size_t start = 0;
    while (start < n) {
        mc::Trap const t = mc::guarded([&] {
            for (std::size_t i = start; i < n; ++i) {
                g_cur = i;
                body(i);
            }
        });
        if (t == mc::Trap::none) { return; }
        std::size_t const at = g_cur;
        on_trap(at, t);
        start = at + 1;
    }
}

// ---------------------------------------------------------------------------------------
// per-job context: counters, sanitizer bookkeeping, violation helpers
// ---------------------------------------------------------------------------------------

struct Outcomes {
    std::vector<std::uint64_t> bits = std::vector<std::uint64_t>(1024, 0); // 65536-bit filter
    void add(i128 v)
    {
        auto const h = (std::uint64_t(u128(v)) ^ std::uint64_t(u128(v) >> 64)) * 0x9e3779b97f4a7c15ULL >> 48;
        bits[h >> 6] |= std::uint64_t(1) << (h & 63);
    }
    void flush(mc::Reporter& r, std::uint64_t salt) const
    {
        for (std::size_t w = 0; w < bits.size(); ++w) {
            if (bits[w] == 0) { continue; }
            for (unsigned b = 0; b < 64; ++b) {
                if ((bits[w] >> b) & 1U) { r.outcome(mc::hash_mix(salt, w * 64 + b)); }
            }
        }
    }
};

struct Ctx {
    mc::Reporter& r;
    std::uint64_t evals{0}, nontriv{0}, skipped{0};
    bool stop{false};

    explicit Ctx(mc::Reporter& rr) : r(rr) { }
    ~Ctx()
    {
        r.count("evaluations", evals);
        r.count("distinct_nontrivial", nontriv);
        r.count("out_of_domain_skipped", skipped);
    }

    bool deadline()
    {
        if (!stop && r.deadline_passed()) {
            r.not_exhaustive("deadline");
            stop = true;
        }
        return stop;
    }

    void mismatch(std::string const& subject, std::string const& cls, std::string const& kase, i128 got, i128 want)
    {
        r.violation("C14", subject, cls, kase, mc::cat("tetl=", dec(got), " reference=", dec(want)));
    }
    void san(std::string const& subject, std::string const& cls, std::string const& kase)
    {
        r.violation("C02", subject, cls, kase, "UBSan/ASan report inside the tetl call on an in-domain argument (see job log)");
    }
    void trap(std::string const& subject, std::string const& cls, std::string const& kase, mc::Trap t, i128 want)
    {
        bool const contract = (t == mc::Trap::assert_fired);
        r.violation(contract ? "C05" : "C02", subject, mc::cat(cls, "/", mc::trap_name(t)), kase, mc::describe_trap(t));
        // no value was returned where the definition gives one: also a functional failure
        r.violation("C14", subject, cls, kase, mc::cat("tetl=<", mc::describe_trap(t), "> reference=", dec(want)));
    }
};

// ---------------------------------------------------------------------------------------
// sweeps.  All callables are pure; `call` is the only one that touches tetl.
//   dom(x[,y])  -> bool      in the documented domain (and valid for the reference)
//   ref(x[,y])  -> i128      the defined value
//   call(x[,y]) -> i128      tetl
//   cls(x[,y])  -> string    argument class (from the case only)
//   nt(x[,y])   -> bool      non-trivial by the rule of the property file
// ---------------------------------------------------------------------------------------

template <typename T, typename Dom, typename Call, typename Ref, typename Cls, typename NT>
void sweep1(Ctx& c, char const* subject, std::vector<T> const& A, Dom dom, Call call, Ref ref, Cls cls, NT nt,
    char const* tlabel = nullptr)
{
    if (!c.r.want(subject) || c.stop) { return; }
    std::string const tl = tlabel ? tlabel : tname<T>();
    Outcomes oc;
    auto kase = [&](T x) { return mc::cat(tl, " x=", show(x)); };
    guarded_for(
        A.size(),
        [&](std::size_t i) {
            T const x = A[i];
            if (!dom(x)) {
                ++c.skipped;
                return;
            }
            i128 const want = ref(x);
            auto const s0   = mc::san_hits();
            i128 const got  = call(x);
            auto const s1   = mc::san_hits();
            ++c.evals;
            c.nontriv += nt(x) ? 1 : 0;
            oc.add(got);
            if (got != want) [[unlikely]] { c.mismatch(subject, cls(x), kase(x), got, want); }
            if (s1 != s0) [[unlikely]] { c.san(subject, cls(x), kase(x)); }
        },
        [&](std::size_t i, mc::Trap t) { c.trap(subject, cls(A[i]), kase(A[i]), t, ref(A[i])); });
    if (c.r.wants_sample() && !A.empty()) {
        T const x = A[A.size() / 3];
        if (dom(x)) { c.r.sample(mc::cat(subject, " ", kase(x), " -> ", dec(ref(x)))); }
    }
    oc.flush(c.r, mc::hash_str(subject));
}

template <typename T, typename U, typename Dom, typename Call, typename Ref, typename Cls, typename NT>
void sweep2(Ctx& c, char const* subject, Space<T, U> const& space, Dom dom, Call call, Ref ref, Cls cls, NT nt,
    char const* xname = "x", char const* yname = "y")
{
    if (!c.r.want(subject) || c.stop) { return; }
    Outcomes oc;
    auto kase = [&](T x, U y) {
        if constexpr (std::is_same_v<T, U>) {
            return mc::cat(tname<T>(), " ", xname, "=", show(x), " ", yname, "=", show(y));
        } else {
            return mc::cat(tname<T>(), " ", xname, "=", show(x), " ", tname<U>(), " ", yname, "=", show(y));
        }
    };
    for (auto const& part : space) {
        auto const& A = *part.a;
        auto const& B = *part.b;
        for (std::size_t ia = 0; ia < A.size(); ++ia) {
            if ((ia & 63U) == 0 && c.deadline()) { return; }
            T const x = A[ia];
            guarded_for(
                B.size(),
                [&](std::size_t j) {
                    U const y = B[j];
                    if (!dom(x, y)) {
                        ++c.skipped;
                        return;
                    }
                    i128 const want = ref(x, y);
                    auto const s0   = mc::san_hits();
                    i128 const got  = call(x, y);
                    auto const s1   = mc::san_hits();
                    ++c.evals;
                    c.nontriv += nt(x, y) ? 1 : 0;
                    oc.add(got);
                    if (got != want) [[unlikely]] { c.mismatch(subject, cls(x, y), kase(x, y), got, want); }
                    if (s1 != s0) [[unlikely]] { c.san(subject, cls(x, y), kase(x, y)); }
                },
                [&](std::size_t j, mc::Trap t) { c.trap(subject, cls(x, B[j]), kase(x, B[j]), t, ref(x, B[j])); });
        }
    }
    if (c.r.wants_sample() && !space.empty() && !space[0].a->empty() && !space[0].b->empty()) {
        T const x = (*space[0].a)[space[0].a->size() / 3];
        U const y = (*space[0].b)[space[0].b->size() / 2];
        if (dom(x, y)) { c.r.sample(mc::cat(subject, " ", kase(x, y), " -> ", dec(ref(x, y)))); }
    }
    oc.flush(c.r, mc::hash_str(subject));
}

inline auto always = [](auto...) { return true; };

/// generic unary argument class
template <typename T>
std::string cls_unary(T x)
{
    using U   = std::make_unsigned_t<T>;
    U const u = U(x);
    if (u == 0) { return "zero"; }
    if (u == std::numeric_limits<U>::max()) { return "all_ones"; }
    if (std::is_signed_v<T> && i128(x) == min_v<T>) { return "min"; }
    if (std::has_single_bit(u)) { return "single_bit"; }
    if (std::is_signed_v<T> && x < 0) { return "negative"; }
    if ((u >> (width_v<T> - 1)) != 0) { return "top_bit_set"; }
    return "general";
}

} // namespace c14
