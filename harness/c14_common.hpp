// Shared machinery of the C14 harnesses (c14_bit.cpp, c14_numeric.cpp, c14_cmp.cpp).
//
// Every sweep is a deterministic odometer over an explicitly constructed, duplicate-free
// value set (or a product of two sets); each point is evaluated on tetl and on a reference
// (libstdc++ <bit>/<numeric>/<utility> and/or exact __int128 arithmetic).  All arguments and
// results travel as __int128, so "equal" means equal as mathematical integers, and the sweep
// engine is ordinary (non-template) code: a sweep is described by a table of plain function
// pointers (captureless lambdas), which keeps the translation units cheap to compile.
#pragma once

#include "mc.hpp"

#include <bit>
#include <cstdint>
#include <limits>
#include <numeric>
#include <set>
#include <string>
#include <type_traits>
#include <utility>
#include <vector>

namespace c14 {

using i128 = __int128;
using u128 = unsigned __int128;
using V    = i128; // the carrier of every argument and result
using i8   = std::int8_t;
using i16  = std::int16_t;
using i32  = std::int32_t;
using i64  = std::int64_t;
using u8   = std::uint8_t;
using u16  = std::uint16_t;
using u32  = std::uint32_t;
using u64  = std::uint64_t;

template <typename T>
constexpr char const* tname()
{
    if constexpr (std::is_same_v<T, i8>) { return "i8"; }
    if constexpr (std::is_same_v<T, i16>) { return "i16"; }
    if constexpr (std::is_same_v<T, i32>) { return "i32"; }
    if constexpr (std::is_same_v<T, i64>) { return "i64"; }
    if constexpr (std::is_same_v<T, u8>) { return "u8"; }
    if constexpr (std::is_same_v<T, u16>) { return "u16"; }
    if constexpr (std::is_same_v<T, u32>) { return "u32"; }
    if constexpr (std::is_same_v<T, u64>) { return "u64"; }
    if constexpr (std::is_same_v<T, char>) { return "char"; }
    if constexpr (std::is_same_v<T, long long>) { return "long long"; }
    if constexpr (std::is_same_v<T, unsigned long long>) { return "unsigned long long"; }
    if constexpr (std::is_same_v<T, char8_t>) { return "char8_t"; }
    if constexpr (std::is_same_v<T, char16_t>) { return "char16_t"; }
    if constexpr (std::is_same_v<T, char32_t>) { return "char32_t"; }
    if constexpr (std::is_same_v<T, wchar_t>) { return "wchar_t"; }
    return "?";
}

template <typename T>
inline constexpr int width_v = std::numeric_limits<std::make_unsigned_t<T>>::digits;
template <typename T>
inline constexpr i128 min_v = i128(std::numeric_limits<T>::min());
template <typename T>
inline constexpr i128 max_v = i128(std::numeric_limits<T>::max());

/// run-time description of an argument type (for case strings and generic classes)
struct TI {
    char const* name;
    int width;
    bool is_signed;
    i128 min, max;
};
template <typename T>
TI ti()
{
    return TI{tname<T>(), width_v<T>, std::is_signed_v<T>, min_v<T>, max_v<T>};
}

inline std::string dec(i128 v)
{
    if (v == 0) { return "0"; }
    bool const neg = v < 0;
    u128 u         = neg ? u128(0) - u128(v) : u128(v);
    std::string s;
    while (u != 0) {
        s.insert(s.begin(), char('0' + int(u % 10)));
        u /= 10;
    }
    if (neg) { s.insert(s.begin(), '-'); }
    return s;
}

/// "-2 (0xfe)": the value and its bit pattern in the given type
inline std::string show(i128 v, TI const& t)
{
    char b[40];
    auto const bits = std::uint64_t(u128(v)) & (t.width == 64 ? ~std::uint64_t(0) : ((std::uint64_t(1) << t.width) - 1));
    std::snprintf(b, sizeof b, "0x%0*llx", t.width / 4, static_cast<unsigned long long>(bits));
    return dec(v) + " (" + b + ")";
}

inline i128 iabs(i128 v) { return v < 0 ? -v : v; }

template <typename T>
bool fits(i128 v)
{
    return v >= min_v<T> && v <= max_v<T>;
}

// ---------------------------------------------------------------------------------------
// value sets (as i128, duplicate-free, "simplest first": by magnitude, non-negative first)
// ---------------------------------------------------------------------------------------

using Set = std::vector<V>;

inline void sort_simplest_first(Set& v)
{
    std::sort(v.begin(), v.end(), [](V a, V b) {
        i128 const aa = iabs(a), bb = iabs(b);
        if (aa != bb) { return aa < bb; }
        return a > b;
    });
}

/// every value of an 8- or 16-bit type
template <typename T>
Set const& all_values()
{
    static_assert(sizeof(T) <= 2);
    static Set const v = [] {
        Set o;
        for (i128 x = min_v<T>; x <= max_v<T>; ++x) { o.push_back(x); }
        sort_simplest_first(o);
        return o;
    }();
    return v;
}

/// The boundary lattice of a type (any width): 0, 1, every single bit b, b-2, b-1 (= all ones
/// below the bit), b+1, alternating/byte patterns, small numbers and products/powers of small
/// primes (so that gcd/lcm/ipow have non-trivial results), and the bitwise complement of each
/// of those (gives -b, -b+-1, limits, limits-+1 for signed types).
template <typename T>
Set const& lattice()
{
    static Set const v = [] {
        using U         = std::make_unsigned_t<T>;
        constexpr int W = width_v<T>;
        std::set<U> s;
        auto add = [&](u128 x) {
            U const u = U(x);
            s.insert(u);
            s.insert(U(~u));
        };
        add(0);
        add(1);
        for (int k = 0; k < W; ++k) {
            u128 const b = u128(1) << k;
            add(b - 2);
            add(b - 1);
            add(b);
            add(b + 1);
        }
        for (std::uint64_t p : {0x5555555555555555ULL, 0x3333333333333333ULL, 0x0F0F0F0F0F0F0F0FULL, 0x00FF00FF00FF00FFULL,
                 0x0000FFFF0000FFFFULL, 0x0123456789ABCDEFULL, 0xDEADBEEFCAFEBABEULL, 0x8000000180000001ULL, 0x0102040810204080ULL}) {
            add(p);
            add(p >> 32);
        }
        for (u128 x = 2; x <= 20; ++x) { add(x); }
        for (u128 x : {24, 30, 36, 42, 60, 100, 105, 210, 1000, 1001, 2310, 30030}) { add(x); }
        u128 const top = u128(std::numeric_limits<U>::max());
        for (u128 base : {3, 5, 6, 7, 10, 12}) {
            for (u128 p = base * base; p <= top; p *= base) { add(p); }
        }
        for (u128 f = 2, k = 3; f * k <= top; ++k) {
            f *= k;
            add(f);
        }
        Set o;
        for (U u : s) { o.push_back(i128(T(u))); }
        sort_simplest_first(o);
        return o;
    }();
    return v;
}

/// complete value set used for a type: every value up to 16 bits, the lattice above
template <typename T>
Set const& full()
{
    if constexpr (sizeof(T) <= 2) {
        return all_values<T>();
    } else {
        return lattice<T>();
    }
}

/// small set: every value for 8 bits, the lattice ("boundary grid") from 16 bits on
template <typename T>
Set const& small()
{
    if constexpr (sizeof(T) == 1) {
        return all_values<T>();
    } else {
        return lattice<T>();
    }
}

/// full(T) without small(T) (non-empty only for 16-bit types)
template <typename T>
Set const& full_minus_small()
{
    static Set const v = [] {
        Set o;
        if constexpr (sizeof(T) == 2) {
            std::set<V> g(lattice<T>().begin(), lattice<T>().end());
            for (V x : all_values<T>()) {
                if (g.count(x) == 0) { o.push_back(x); }
            }
        }
        return o;
    }();
    return v;
}

/// Round 2: the "runs of ones" extension of the lattice for 32/64-bit types: every 2^k - 2^j
/// (0 <= j < k <= W: bits j..k-1 set), its complement and its negation, minus what the lattice
/// already holds.  Empty for types of at most 16 bits (their full value set is swept anyway).
template <typename T>
Set const& extra()
{
    static Set const v = [] {
        Set o;
        if constexpr (sizeof(T) > 2) {
            using U         = std::make_unsigned_t<T>;
            constexpr int W = width_v<T>;
            std::set<U> s;
            for (int k = 1; k <= W; ++k) {
                for (int j = 0; j < k; ++j) {
                    U const r = U((u128(1) << k) - (u128(1) << j));
                    s.insert(r);
                    s.insert(U(~r));
                    s.insert(U(U(0) - r));
                }
            }
            std::set<V> have(lattice<T>().begin(), lattice<T>().end());
            for (U u : s) {
                V const x = i128(T(u));
                if (have.count(x) == 0) { o.push_back(x); }
            }
            sort_simplest_first(o);
        }
        return o;
    }();
    return v;
}

/// a dozen edge values of the type (a subset of the lattice): 0, 1, 2, 3, the limits and their
/// neighbours, -1, -2, the top bit
template <typename T>
Set const& edge()
{
    static Set const v = [] {
        std::set<V> s{0, 1, 2, 3, max_v<T>, max_v<T> - 1, max_v<T> - 2, min_v<T>, min_v<T> + 1, min_v<T> + 2, max_v<T> / 2, max_v<T> / 2 + 1};
        if (std::is_signed_v<T>) {
            s.insert(-1);
            s.insert(-2);
            s.insert(-3);
        }
        Set o(s.begin(), s.end());
        sort_simplest_first(o);
        return o;
    }();
    return v;
}

/// lattice u extra: the whole round-2 value set of a 32/64-bit type (full(T) for narrower types)
template <typename T>
Set const& full2()
{
    static Set const v = [] {
        Set o = full<T>();
        o.insert(o.end(), extra<T>().begin(), extra<T>().end());
        return o;
    }();
    return v;
}

struct Product {
    Set const* a;
    Set const* b;
};
using Space = std::vector<Product>;

/// The pair space of two types.  wide16 == true: full(T) x full(U), except that two 16-bit
/// types get (2^16 x grid) u (grid x 2^16).  wide16 == false: 16-bit types contribute their
/// grid only (grid x grid, grid x lattice, 2^8 x grid).  The parts are disjoint.
template <typename T, typename U>
Space pair_space(bool wide16)
{
    Space s;
    if (!wide16) {
        s.push_back({&small<T>(), &small<U>()});
    } else if constexpr (sizeof(T) == 2 && sizeof(U) == 2) {
        s.push_back({&full<T>(), &small<U>()});
        s.push_back({&small<T>(), &full_minus_small<U>()});
    } else {
        s.push_back({&full<T>(), &full<U>()});
    }
    return s;
}

/// How far the runs-of-ones extension enters a pair space.
enum class Runs {
    none,   // round-1 space only
    edges,  // + extra(T) x edge(U) and edge(T) x extra(U)                  (quick)
    cross,  // + extra(T) x lattice(U) and lattice(T) x extra(U)            (thorough, costly functions)
    square, // + the complete (lattice u extra)(T) x (lattice u extra)(U)   (thorough)
};

/// pair_space plus the runs-of-ones parts (all parts stay pairwise disjoint: extra(T) and
/// lattice(T) are disjoint by construction, edge(T) is a subset of lattice(T))
template <typename T, typename U>
Space pair_space2(bool wide16, Runs runs)
{
    Space s = pair_space<T, U>(wide16);
    if (runs == Runs::none) { return s; }
    // every new part has at least one component from extra(): disjoint from the round-1 parts
    Set const& eT = extra<T>();
    Set const& eU = extra<U>();
    if (runs == Runs::edges) {
        if (!eT.empty()) { s.push_back({&eT, &edge<U>()}); }
        if (!eU.empty()) { s.push_back({&edge<T>(), &eU}); }
    } else {
        // a 16-bit type takes part with its grid, an 8-bit type with every value
        if (!eT.empty()) { s.push_back({&eT, &small<U>()}); }
        if (!eU.empty()) { s.push_back({&small<T>(), &eU}); }
        if (runs == Runs::square && !eT.empty() && !eU.empty()) { s.push_back({&eT, &eU}); }
    }
    return s;
}

/// the default extension of a tier/flavour: edges in the quick tier and in the instrumented build
inline Runs runs_default(mc::Reporter& r, Runs thorough_level, Runs quick_level = Runs::edges)
{
#if defined(MC_FLAVOUR_SAN)
    (void)r;
    (void)thorough_level;
    (void)quick_level;
    return Runs::edges;
#else
    return r.thorough() ? thorough_level : quick_level;
#endif
}

/// thorough: the complete 2^16 x 2^16 square, slice `chunk` of `nchunks` along the first axis
template <typename T>
Set slice16(unsigned chunk, unsigned nchunks)
{
    auto const& all     = all_values<T>();
    std::size_t const n = all.size() / nchunks;
    return Set(all.begin() + std::ptrdiff_t(chunk * n), all.begin() + std::ptrdiff_t((chunk + 1) * n));
}

/// In the sanitizer flavour the 2^16 axes are replaced by the grid: UB does not hide between
/// grid points of a 16-bit type any better than between those of a 32-bit type, and the
/// instrumented build is several times slower.
inline bool wide16_default()
{
#if defined(MC_FLAVOUR_SAN)
    return false;
#else
    return true;
#endif
}

// ---------------------------------------------------------------------------------------
// guarded loop: runs body(i) for i in [0,n); a trap (contract handler, signal, hang) ends
// only the failing point, which is reported through on_trap(i, trap); the loop resumes at i+1
// when on_trap returns true and ends when it returns false
// ---------------------------------------------------------------------------------------

inline volatile std::size_t g_cur = 0;

template <typename Body, typename OnTrap>
void guarded_for(std::size_t n, Body&& body, OnTrap&& on_trap)
{
    std::size_t start = 0;
    while (start < n) {
        mc::Trap const t = mc::guarded([&] {
            for (std::size_t i = start; i < n; ++i) {
                g_cur = i;
                body(i);
            }
        });
        if (t == mc::Trap::none) { return; }
        std::size_t const at = g_cur;
        if (!on_trap(at, t)) { return; }
        start = at + 1;
    }
}

// ---------------------------------------------------------------------------------------
// per-job context: counters, sanitizer bookkeeping, violation helpers
// ---------------------------------------------------------------------------------------

struct Outcomes {
    std::vector<std::uint64_t> bits = std::vector<std::uint64_t>(1024, 0); // 65536-bit filter
    void add(i128 v)
    {
        auto const h = (std::uint64_t(u128(v)) ^ std::uint64_t(u128(v) >> 64)) * 0x9e3779b97f4a7c15ULL >> 48;
        bits[h >> 6] |= std::uint64_t(1) << (h & 63);
    }
    void flush(mc::Reporter& r, std::uint64_t salt) const
    {
        for (std::size_t w = 0; w < bits.size(); ++w) {
            if (bits[w] == 0) { continue; }
            for (unsigned b = 0; b < 64; ++b) {
                if ((bits[w] >> b) & 1U) { r.outcome(mc::hash_mix(salt, w * 64 + b)); }
            }
        }
    }
};

struct Ctx {
    mc::Reporter& r;
    std::uint64_t evals{0}, nontriv{0}, skipped{0};
    bool stop{false};
    // a sweep is abandoned after this many traps (each stack overflow costs ~10 ms, each hang
    // hang_ticks seconds); the violations recorded up to then stand
    unsigned trap_budget{24};
    unsigned traps_in_sweep{0};
    bool sweep_aborted{false};

    explicit Ctx(mc::Reporter& rr) : r(rr) { mc::traps().hang_ticks = 4; }
    Ctx(Ctx const&)            = delete;
    Ctx& operator=(Ctx const&) = delete;
    ~Ctx()
    {
        r.count("evaluations", evals);
        r.count("distinct_nontrivial", nontriv);
        r.count("out_of_domain_skipped", skipped);
    }
    void begin_sweep()
    {
        traps_in_sweep = 0;
        sweep_aborted  = false;
        seen.clear();
    }
    // classes already recorded for the current sweep (one subject): later mismatches of the
    // same class only bump the counter, no case string is built
    std::map<std::string, mc::Violation*> seen;
    template <typename Kase>
    void mismatch_lazy(char const* subject, std::string const& cls, Kase&& kase, i128 got, i128 want)
    {
        auto it = seen.find(cls);
        if (it != seen.end()) {
            if (it->second != nullptr) { it->second->count += 1; }
            return;
        }
        mismatch(subject, cls, kase(), got, want);
        auto v = r.viols.find(std::make_tuple(std::string("C14"), std::string(subject), cls));
        seen.emplace(cls, v == r.viols.end() ? nullptr : &v->second);
    }

    bool deadline()
    {
        if (!stop && r.deadline_passed()) {
            r.not_exhaustive("deadline");
            stop = true;
        }
        return stop;
    }

    void mismatch(std::string const& subject, std::string const& cls, std::string const& kase, i128 got, i128 want)
    {
        r.violation("C14", subject, cls, kase, mc::cat("tetl=", dec(got), " reference=", dec(want)));
    }
    void san(std::string const& subject, std::string const& cls, std::string const& kase)
    {
        r.violation("C02", subject, cls, kase, "UBSan/ASan report inside the tetl call on an in-domain argument (see job log)");
    }
    /// the two oracles (libstdc++ and the closed form) must agree; if not, the harness is wrong
    void oracle_disagreement(char const* what, std::string const& kase, i128 lib, i128 closed)
    {
        r.violation("C14", mc::cat("oracle-disagreement:", what), "harness", kase, mc::cat("libstdc++=", dec(lib), " closed form=", dec(closed)));
    }
    /// returns false when the sweep should be abandoned
    bool trap(std::string const& subject, std::string const& cls, std::string const& kase, mc::Trap t, i128 want)
    {
        bool const contract = (t == mc::Trap::assert_fired);
        r.violation(contract ? "C05" : "C02", subject, mc::cat(cls, "/", mc::trap_name(t)), kase, mc::describe_trap(t));
        // no value was returned where the definition gives one: also a functional failure
        r.violation("C14", subject, cls, kase, mc::cat("tetl=<", mc::describe_trap(t), "> reference=", dec(want)));
        if (++traps_in_sweep >= trap_budget || t == mc::Trap::hang) {
            sweep_aborted = true;
            r.not_exhaustive(mc::cat("sweep of ", subject, " abandoned after ", traps_in_sweep, " traps (last: ", mc::trap_name(t), ")"));
            return false;
        }
        return true;
    }
};

// ---------------------------------------------------------------------------------------
// sweeps.  A sweep is a table of plain functions; `call` is the only one that touches tetl.
//   dom(x[,y])    in the documented domain (and valid for the reference)
//   call(x[,y])   tetl
//   ref(c,x[,y])  the defined value (may cross-check two oracles through c)
//   cls(x[,y])    argument class, from the case only
//   nt(x[,y])     non-trivial by the rule of the property file
// ---------------------------------------------------------------------------------------

struct Unary {
    char const* subject;
    TI tx;
    char const* xname;
    bool (*dom)(V);
    V (*call)(V);
    V (*ref)(Ctx&, V);
    std::string (*cls)(V);
    bool (*nt)(V);
    std::string note{}; // e.g. "To=i8", printed in front of the case
};

struct Binary {
    char const* subject;
    TI tx, ty;
    char const* xname;
    char const* yname;
    bool (*dom)(V, V);
    V (*call)(V, V);
    V (*ref)(Ctx&, V, V);
    std::string (*cls)(V, V);
    bool (*nt)(V, V);
};

inline bool always1(V) { return true; }
inline bool always2(V, V) { return true; }

inline std::string kase1(Unary const& s, V x)
{
    return mc::cat(s.note.empty() ? "" : s.note + " ", s.tx.name, " ", s.xname, "=", show(x, s.tx));
}
inline std::string kase2(Binary const& s, V x, V y)
{
    if (std::string(s.tx.name) == s.ty.name) { return mc::cat(s.tx.name, " ", s.xname, "=", show(x, s.tx), " ", s.yname, "=", show(y, s.ty)); }
    return mc::cat(s.tx.name, " ", s.xname, "=", show(x, s.tx), " ", s.ty.name, " ", s.yname, "=", show(y, s.ty));
}

[[gnu::noinline]] inline void sweep1(Ctx& c, Unary const& s, Set const& A)
{
    if (!c.r.want(s.subject) || c.stop) { return; }
    Outcomes oc;
    c.begin_sweep();
    guarded_for(
        A.size(),
        [&](std::size_t i) {
            V const x = A[i];
            if (s.dom != always1 && !s.dom(x)) {
                ++c.skipped;
                return;
            }
            V const want  = s.ref(c, x);
            auto const s0 = mc::san_hits();
            V const got   = s.call(x);
            auto const s1 = mc::san_hits();
            ++c.evals;
            c.nontriv += s.nt(x) ? 1 : 0;
            oc.add(got);
            if (got != want) [[unlikely]] { c.mismatch_lazy(s.subject, s.cls(x), [&] { return kase1(s, x); }, got, want); }
            if (s1 != s0) [[unlikely]] { c.san(s.subject, s.cls(x), kase1(s, x)); }
        },
        [&](std::size_t i, mc::Trap t) { return c.trap(s.subject, s.cls(A[i]), kase1(s, A[i]), t, s.ref(c, A[i])); });
    if (c.r.wants_sample() && !A.empty()) {
        V const x = A[A.size() / 3];
        if (s.dom(x)) { c.r.sample(mc::cat(s.subject, " ", kase1(s, x), " -> ", dec(s.ref(c, x)))); }
    }
    oc.flush(c.r, mc::hash_str(s.subject));
}

[[gnu::noinline]] inline void sweep2(Ctx& c, Binary const& s, Space const& space)
{
    if (!c.r.want(s.subject) || c.stop) { return; }
    Outcomes oc;
    c.begin_sweep();
    for (auto const& part : space) {
        Set const& A = *part.a;
        Set const& B = *part.b;
        for (std::size_t ia = 0; ia < A.size(); ++ia) {
            if ((ia & 63U) == 0 && c.deadline()) { return; }
            if (c.sweep_aborted) { break; }
            V const x = A[ia];
            guarded_for(
                B.size(),
                [&](std::size_t j) {
                    V const y = B[j];
                    if (s.dom != always2 && !s.dom(x, y)) {
                        ++c.skipped;
                        return;
                    }
                    V const want  = s.ref(c, x, y);
                    auto const s0 = mc::san_hits();
                    V const got   = s.call(x, y);
                    auto const s1 = mc::san_hits();
                    ++c.evals;
                    c.nontriv += s.nt(x, y) ? 1 : 0;
                    oc.add(got);
                    if (got != want) [[unlikely]] { c.mismatch_lazy(s.subject, s.cls(x, y), [&] { return kase2(s, x, y); }, got, want); }
                    if (s1 != s0) [[unlikely]] { c.san(s.subject, s.cls(x, y), kase2(s, x, y)); }
                },
                [&](std::size_t j, mc::Trap t) { return c.trap(s.subject, s.cls(x, B[j]), kase2(s, x, B[j]), t, s.ref(c, x, B[j])); });
        }
    }
    if (c.r.wants_sample() && !space.empty() && !space[0].a->empty() && !space[0].b->empty()) {
        V const x = (*space[0].a)[space[0].a->size() / 3];
        V const y = (*space[0].b)[space[0].b->size() / 2];
        if (s.dom(x, y)) { c.r.sample(mc::cat(s.subject, " ", kase2(s, x, y), " -> ", dec(s.ref(c, x, y)))); }
    }
    oc.flush(c.r, mc::hash_str(s.subject));
}

/// Lean template for the thorough 2^16 x 2^16 squares: `both(x,y,got,want)` evaluates tetl and
/// the reference on native types; no domain filter (total functions only), a guard per row.
template <typename T, typename U, typename Both>
void square16(Ctx& c, char const* subject, Set const& rows, std::string (*cls)(V, V), Both both)
{
    if (!c.r.want(subject) || c.stop) { return; }
    static std::vector<U> const cols = [] {
        std::vector<U> v;
        for (V y : all_values<U>()) { v.push_back(U(y)); }
        return v;
    }();
    Binary const meta{subject, ti<T>(), ti<U>(), "x", "y", always2, nullptr, nullptr, cls, always2};
    c.begin_sweep();
    for (std::size_t ia = 0; ia < rows.size(); ++ia) {
        if ((ia & 63U) == 0 && c.deadline()) { return; }
        T const x          = T(rows[ia]);
        mc::Trap const t   = mc::guarded([&] {
            for (U const y : cols) {
                V got = 0, want = 0;
                both(x, y, got, want);
                if (got != want) [[unlikely]] { c.mismatch_lazy(subject, cls(V(x), V(y)), [&] { return kase2(meta, V(x), V(y)); }, got, want); }
            }
        });
        c.evals += cols.size();
        c.nontriv += fits<U>(V(x)) ? cols.size() - 1 : cols.size(); // pairs with x != y
        if (t != mc::Trap::none) {
            c.r.violation(t == mc::Trap::assert_fired ? "C05" : "C02", subject, mc::cat("row/", mc::trap_name(t)),
                mc::cat(tname<T>(), " x=", dec(V(x)), " (some y)"), mc::describe_trap(t));
            c.r.violation("C14", subject, "row-trap", mc::cat(tname<T>(), " x=", dec(V(x)), " (some y)"), mc::describe_trap(t));
        }
    }
}

/// generic unary argument class
template <typename T>
std::string cls_unary(V v)
{
    using U   = std::make_unsigned_t<T>;
    U const u = U(T(v));
    if (u == 0) { return "zero"; }
    if (u == std::numeric_limits<U>::max()) { return "all_ones"; }
    if (std::is_signed_v<T> && v == min_v<T>) { return "min"; }
    if (std::has_single_bit(u)) { return "single_bit"; }
    if (std::is_signed_v<T> && v < 0) { return "negative"; }
    if ((u >> (width_v<T> - 1)) != 0) { return "top_bit_set"; }
    return "general";
}

} // namespace c14
