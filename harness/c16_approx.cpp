// C16, approximating set: sqrt, exp, log, log2, log10, log1p, sin, cos, tan, asin, acos, atan,
// sinh, cosh, tanh, asinh, acosh, atanh, erf, tgamma, lgamma (unary) and pow, atan2, hypot,
// beta (binary), each on the run-time entry point etl::f and on the constant-evaluation path
// etl::detail::gcem::f called at run time, against glibc:
//   * NaN exactly where libm returns NaN, +-inf exactly where libm returns +-inf (with the
//     one-sided slack of the tolerance at the overflow threshold),
//   * otherwise |tetl - ref| / max(|ref|, min_normal) <= bound(subject) * epsilon, where ref
//     is libm evaluated in the next wider type and bound comes from c16_bounds.hpp
//     (measured maximum on the unchanged tree x 4, rounded up to a power of two, capped at a
//     relative error of 2^-10).
// float: lattice A(7) (quick, 327 680 points) / A(12) (thorough, 10 485 760 points) - every
// sign, every exponent; double: every sign x every exponent x 64 boundary mantissas.
// Binary functions: the small boundary set squared (77 x 77), float and double.
// C16_MEASURE=1 switches the tolerance verdict off and reports the maxima (see
// c16_gen_bounds.py).
#include "c16_common.hpp"

#include "c16_bounds.hpp"

#include <etl/cmath.hpp>

#include <map>

using namespace c16;
using mc::cat;
namespace gcem = etl::detail::gcem;

#ifndef MC_PART
    #define MC_PART 0 // 0 = everything, 1 = float, 2 = double
#endif

namespace {

template <typename T>
using hi_t = std::conditional_t<std::is_same_v<T, float>, double, long double>;

/// bound for one (typed call, region); region "" = the single bound of a binary function
double bound_for(std::string const& call, std::string const& region, double cap)
{
    for (auto const& row : kBounds) {
        if (call == row.subject && region == row.region) { return row.bound_eps < cap ? row.bound_eps : cap; }
    }
    return cap;
}

template <typename T>
struct AU {
    std::string call, shortname; // typed spelling, e.g. "gcem::sin(float)"; the subject is strip_args(call)
    T (*impl)(T);
    T (*ref)(T);
    hi_t<T> (*ref_hi)(hi_t<T>);
    bool (*skip)(T){nullptr}; // arguments left out of the lattice / grid sweeps (still part of the boundary-set sweeps)
};
template <typename T>
struct AB {
    std::string call, shortname;
    T (*impl)(T, T);
    T (*ref)(T, T);
    hi_t<T> (*ref_hi)(hi_t<T>, hi_t<T>);
    bool (*valid)(T, T);
};

#define C16_U(name)                                                                                                              \
    v.push_back({cat("etl::" #name "(", tn, ")"), #name, [](T x) -> T { return etl::name(x); }, [](T x) -> T { return std::name(x); }, \
        [](H x) -> H { return std::name(x); }});                                                                                  \
    v.push_back({cat("gcem::" #name "(", tn, ")"), "cx-" #name, [](T x) -> T { return gcem::name(x); },                           \
        [](T x) -> T { return std::name(x); }, [](H x) -> H { return std::name(x); }});

template <typename T>
std::vector<AU<T>> unary_subjects()
{
    using H              = hi_t<T>;
    std::string const tn = FT<T>::n;
    std::vector<AU<T>> v;
    C16_U(sqrt)
    C16_U(exp)
    C16_U(log)
    C16_U(log2)
    C16_U(log1p)
    C16_U(sin)
    C16_U(cos)
    C16_U(tan)
    C16_U(asin)
    C16_U(acos)
    C16_U(atan)
    C16_U(sinh)
    C16_U(cosh)
    C16_U(tanh)
    C16_U(asinh)
    C16_U(acosh)
    C16_U(atanh)
    C16_U(erf)
    C16_U(tgamma)
    C16_U(lgamma)
    // log10: the constant-evaluation path is an expression inside the header, not a
    // separately callable function; only the entry point is swept
    v.push_back({cat("etl::log10(", tn, ")"), "log10", [](T x) -> T { return etl::log10(x); }, [](T x) -> T { return std::log10(x); },
        [](H x) -> H { return std::log10(x); }});
    // gcem::tgamma recurses once per unit for negative arguments (tgamma(x) = tgamma(x+1)/x): a call
    // costs |x| steps and overflows the stack beyond about -2.6e5.  The boundary sets keep such
    // arguments (that is where the crash is found and reported); the dense sweeps leave out the
    // negative non-integral values below -1024, otherwise one job would need hours.
    for (auto& u : v) {
        if (u.shortname == "tgamma" || u.shortname == "cx-tgamma") {
            u.skip = [](T x) { return x < T(-1024) && x > -std::ldexp(T(1), FT<T>::mant); };
        }
    }
    return v;
}

template <typename T>
bool any_args(T, T)
{
    return true;
}
template <typename T>
bool beta_domain(T x, T y)
{
    // std::beta is specified for x, y > 0; keep the arguments where the wide reference is
    // computable without overflow of its own gamma evaluations
    return x > T(0) && y > T(0) && std::isfinite(x) && std::isfinite(y);
}

#define C16_B(name, valid)                                                                                                       \
    v.push_back({cat("etl::" #name "(", tn, ",", tn, ")"), #name, [](T x, T y) -> T { return etl::name(x, y); },                  \
        [](T x, T y) -> T { return std::name(x, y); }, [](H x, H y) -> H { return std::name(x, y); }, valid});

template <typename T>
std::vector<AB<T>> binary_subjects()
{
    using H              = hi_t<T>;
    std::string const tn = FT<T>::n;
    std::vector<AB<T>> v;
    C16_B(pow, any_args<T>)
    C16_B(atan2, any_args<T>)
    C16_B(hypot, any_args<T>)
    v.push_back({cat("gcem::pow(", tn, ",", tn, ")"), "cx-pow", [](T x, T y) -> T { return gcem::pow(x, y); },
        [](T x, T y) -> T { return std::pow(x, y); }, [](H x, H y) -> H { return std::pow(x, y); }, any_args<T>});
    v.push_back({cat("gcem::atan2(", tn, ",", tn, ")"), "cx-atan2", [](T x, T y) -> T { return gcem::atan2(x, y); },
        [](T x, T y) -> T { return std::atan2(x, y); }, [](H x, H y) -> H { return std::atan2(x, y); }, any_args<T>});
    if constexpr (std::is_same_v<T, float>) {
        v.push_back({"etl::betaf(float,float)", "beta", [](T x, T y) -> T { return etl::betaf(x, y); },
            [](T x, T y) -> T { return std::betaf(x, y); }, [](H x, H y) -> H { return std::beta(x, y); }, beta_domain<T>});
    } else {
        v.push_back({"etl::beta(double,double)", "beta", [](T x, T y) -> T { return etl::beta(x, y); },
            [](T x, T y) -> T { return std::beta(x, y); }, [](H x, H y) -> H { return std::betal(x, y); }, beta_domain<T>});
    }
    v.push_back({cat("gcem::beta(", tn, ",", tn, ")"), "cx-beta", [](T x, T y) -> T { return gcem::beta(x, y); },
        [](T x, T y) -> T { return std::beta(x, y); }, [](H x, H y) -> H { return std::beta(x, y); }, beta_domain<T>});
    return v;
}

// ---------------------------------------------------------------------------------------

template <typename T>
struct Acc {
    std::string call, subject;
    double cap{0};
    bool measure{false};
    u64 evals{0}, nontrivial{0}, skipped{0}, skipped_after_trap{0};
    double bound[kRegions]{};
    Slot slots[kRegions * 3];      // region x expectation (0 finite, 1 NaN, 2 infinity)
    double max_err[kRegions]{};    // per region, over points whose error is <= cap
    std::string max_at[kRegions];
    u64 visited[kRegions]{};
    int traps[kRegions]{};         // crashes/hangs seen per region (the region is abandoned after a few)
    bool abandoned[kRegions]{};

    void init(std::string c)
    {
        call    = std::move(c);
        subject = strip_args(call);
        cap     = cap_eps<T>();
        measure = measuring();
        for (int i = 0; i < kRegions; ++i) { bound[i] = measure ? cap : bound_for(call, region_name(i), cap); }
    }

    template <typename MakeCase>
    inline void eval(int rid, T got, T ref, hi_t<T> ref_hi, MakeCase&& mk)
    {
        ++evals;
        ++visited[rid];
        double err      = 0;
        Verdict const v = judge<T, hi_t<T>>(got, ref, ref_hi, bound[rid], err);
        if (!(ref != ref) && !std::isinf(ref) && ref != T(0)) { ++nontrivial; }
        if ((v == Verdict::ok || v == Verdict::tolerance) && err <= cap && err > max_err[rid]) {
            max_err[rid] = err;
            max_at[rid]  = mk();
        }
        if (v != Verdict::ok) [[unlikely]] {
            int const expect = (ref != ref) ? 1 : std::isinf(ref) ? 2 : 0;
            Slot& s          = slots[rid * 3 + expect];
            if (s.count++ == 0) {
                s.kase = mk();
                char e[64];
                std::snprintf(e, sizeof e, "%.4g", err);
                s.detail = cat(verdict_name(v), ": tetl=", show(got), " libm=", show(ref), " wide reference=", show(ref_hi), " error=", e,
                    " eps, bound=", bound[rid], " eps");
            }
        }
    }

    /// a crash or hang at x: reported as C02; the region is abandoned after 3 crashes or 1 hang
    void trapped(mc::Reporter& r, mc::Trap t, int rid, std::string const& kase)
    {
        r.violation(t == mc::Trap::assert_fired ? "C05" : "C02", subject, cat("trap-", mc::trap_name(t), ":", approx_class_name(rid)), kase,
            mc::describe_trap(t));
        traps[rid] += (t == mc::Trap::hang) ? 3 : 1;
        if (traps[rid] >= 3 && !abandoned[rid]) {
            abandoned[rid] = true;
            r.note(cat("region ", region_name(rid), " of ", call, " abandoned after a crash/hang (", kase, "); remaining points counted as skipped_after_trap"));
        }
    }

    void flush(mc::Reporter& r)
    {
        r.count("evaluations", evals);
        r.count("distinct_nontrivial", nontrivial);
        r.count("out_of_domain_skipped", skipped);
        r.count("skipped_after_trap", skipped_after_trap);
        static char const* const exp_name[3] = {"", ":libm_nan", ":libm_inf"};
        // classes merge the sign and the two "below epsilon" buckets: collect per class name
        std::map<std::string, Slot> merged;
        for (int i = 0; i < kRegions * 3; ++i) {
            Slot const& s = slots[i];
            if (s.count == 0) { continue; }
            Slot& m = merged[cat(approx_class_name(i / 3), exp_name[i % 3])];
            if (m.count == 0 || s.kase.size() < m.kase.size()) {
                m.kase   = s.kase;
                m.detail = s.detail;
            }
            m.count += s.count;
        }
        for (auto const& [cls, m] : merged) { report(r, "C16", subject, cls, m.kase, m.detail, m.count); }
        char b[64];
        for (int i = 0; i < kRegions; ++i) {
            if (visited[i] > 0) {
                std::snprintf(b, sizeof b, "%.6g", max_err[i]);
                r.note(cat("MAXERR|", call, "|", region_name(i), "|", b, "|", bound[i], "|", max_at[i]));
            }
        }
    }
};

/// float lattice A(q), sign fixed or both
void sweep_lattice(mc::Reporter& r, AU<float> const& u, int q, int sign_lo, int sign_hi)
{
    std::string const subject = strip_args(u.call);
    if (!r.want(subject)) { return; }
    Acc<float> a;
    a.init(u.call);
    int const lowbits = 23 - q;
    auto const lows   = low_patterns(lowbits);
    bool capped       = false;
    u64 san           = mc::san_hits();
    for (int sg = sign_lo; sg <= sign_hi && !capped; ++sg) {
        for (u32 e = 0; e < 256 && !capped; ++e) {
            u32 h = 0;
            while (h < (u32(1) << q)) {
                if (r.deadline_passed()) {
                    capped = true;
                    r.not_exhaustive(cat("deadline: ", u.call, " stopped at sign ", sg, " exponent ", e));
                    break;
                }
                float cur        = 0;
                mc::Trap const t = mc::guarded([&] {
                    for (; h < (u32(1) << q); ++h) {
                        for (u32 lo : lows) {
                            u32 const b   = (u32(sg) << 31) | (e << 23) | (h << lowbits) | lo;
                            cur           = fb(b);
                            float const x = cur;
                            int const rid = region_id(x);
                            if (u.skip != nullptr && u.skip(x)) {
                                ++a.skipped;
                                continue;
                            }
                            if (a.abandoned[rid]) {
                                ++a.skipped_after_trap;
                                continue;
                            }
                            a.eval(rid, u.impl(x), u.ref(x), u.ref_hi(double(x)), [&] { return cat(u.call, " x=", show(x)); });
                        }
                    }
                });
                if (t != mc::Trap::none) {
                    a.trapped(r, t, region_id(cur), cat(u.call, " x=", show(cur)));
                    ++h; // the rest of this mantissa row is skipped
                }
            }
#if defined(MC_FLAVOUR_SAN)
            if (mc::san_hits() != san) {
                san = mc::san_hits();
                r.violation("C02", subject, cat("sanitizer:", approx_class_name(region_id(fb((u32(sg) << 31) | (e << 23))))),
                    cat(u.call, " exponent block ", e, " sign ", sg), "sanitizer report during this block (see job log)");
            }
#endif
            if ((e % 16) == 0) {
                float const x = fb((u32(sg) << 31) | (e << 23) | 0x200000u);
                if (!a.abandoned[region_id(x)]) {
                    r.outcome(mc::hash_mix(mc::hash_str(u.call), bf(u.ref(x))));
                    if (r.wants_sample() && e >= 96 && e <= 160) { r.sample(cat(u.call, " x=", show(x), " -> ", show(u.impl(x)), " (libm ", show(u.ref(x)), ")")); }
                }
            }
        }
    }
    (void)san;
    a.flush(r);
}

template <typename T>
void sweep_values(mc::Reporter& r, AU<T> const& u, std::vector<T> const& values, bool dense)
{
    std::string const subject = strip_args(u.call);
    if (!r.want(subject)) { return; }
    Acc<T> a;
    a.init(u.call);
    std::size_t i = 0;
    T cur{};
    u64 san = mc::san_hits();
    while (i < values.size()) {
        if (r.deadline_passed()) {
            r.not_exhaustive(cat("deadline: ", u.call, " stopped at value index ", i));
            break;
        }
        std::size_t const end = std::min(values.size(), i + 4096);
        mc::Trap const t      = mc::guarded([&] {
            for (; i < end; ++i) {
                cur           = values[i];
                T const x     = cur;
                int const rid = region_id(x);
                if (dense && u.skip != nullptr && u.skip(x)) {
                    ++a.skipped;
                    continue;
                }
                if (a.abandoned[rid]) {
                    ++a.skipped_after_trap;
                    continue;
                }
                a.eval(rid, u.impl(x), u.ref(x), u.ref_hi(hi_t<T>(x)), [&] { return cat(u.call, " x=", show(x)); });
#if defined(MC_FLAVOUR_SAN)
                if (mc::san_hits() != san) {
                    san = mc::san_hits();
                    r.violation("C02", subject, cat("sanitizer:", approx_class_name(rid)), cat(u.call, " x=", show(x)),
                        "sanitizer report during the call (see job log)");
                }
#endif
                if ((i % 512) == 0) { r.outcome(mc::hash_mix(mc::hash_str(u.call), canon(u.ref(x)))); }
            }
        });
        if (t != mc::Trap::none) {
            a.trapped(r, t, region_id(cur), cat(u.call, " x=", show(cur)));
            ++i; // skip the trapping value
        }
    }
    (void)san;
    a.flush(r);
}

template <typename T>
void sweep_binary(mc::Reporter& r, AB<T> const& u, std::vector<T> const& values)
{
    std::string const subject = strip_args(u.call);
    if (!r.want(subject)) { return; }
    double const cap   = cap_eps<T>();
    bool const measure = measuring();
    double const bound = measure ? cap : bound_for(u.call, "", cap);
    u64 evals = 0, nontrivial = 0, skipped = 0, skipped_after_trap = 0;
    double max_err = 0;
    std::string max_at;
    u64 san   = mc::san_hits();
    int traps = 0;
    for (T x : values) {
        if (r.deadline_passed()) {
            r.not_exhaustive(cat("deadline: ", u.call));
            break;
        }
        if (traps >= 6) {
            skipped_after_trap += values.size();
            continue;
        }
        T cy{};
        std::size_t j = 0;
        while (j < values.size()) {
            mc::Trap const t = mc::guarded([&] {
                for (; j < values.size(); ++j) {
                    T const y = values[j];
                    cy        = y;
                    if (!u.valid(x, y)) {
                        ++skipped;
                        continue;
                    }
                    T const got         = u.impl(x, y);
                    T const ref         = u.ref(x, y);
                    hi_t<T> const refhi = u.ref_hi(hi_t<T>(x), hi_t<T>(y));
                    double err          = 0;
                    Verdict const v     = judge<T, hi_t<T>>(got, ref, refhi, bound, err);
                    ++evals;
                    if (!(ref != ref) && !std::isinf(ref) && ref != T(0)) { ++nontrivial; }
                    if ((v == Verdict::ok || v == Verdict::tolerance) && err <= cap && err > max_err) {
                        max_err = err;
                        max_at  = cat(u.call, " x=", show(x), " y=", show(y));
                    }
                    if (v != Verdict::ok) {
                        char e[64];
                        std::snprintf(e, sizeof e, "%.4g", err);
                        r.violation("C16", subject, cat(coarse(x), ",", coarse(y), pair_magnitude(x, y), (ref != ref) ? ":libm_nan" : std::isinf(ref) ? ":libm_inf" : ""),
                            cat(u.call, " x=", show(x), " y=", show(y)),
                            cat(verdict_name(v), ": tetl=", show(got), " libm=", show(ref), " wide reference=", show(refhi), " error=", e,
                                " eps, bound=", bound, " eps"));
                    }
#if defined(MC_FLAVOUR_SAN)
                    if (mc::san_hits() != san) {
                        san = mc::san_hits();
                        r.violation("C02", subject, cat("sanitizer:", coarse(x), ",", coarse(y)), cat(u.call, " x=", show(x), " y=", show(y)),
                            "sanitizer report during the call (see job log)");
                    }
#endif
                    if ((j % 16) == 0) { r.outcome(mc::hash_mix(mc::hash_str(u.call), canon(ref))); }
                }
            });
            if (t != mc::Trap::none) {
                r.violation(t == mc::Trap::assert_fired ? "C05" : "C02", subject, cat("trap-", mc::trap_name(t), ":", coarse(x), ",", coarse(cy)),
                    cat(u.call, " x=", show(x), " y=", show(cy)), mc::describe_trap(t));
                traps += (t == mc::Trap::hang) ? 3 : 1;
                ++j;
                if (traps >= 6) {
                    r.note(cat(u.call, ": sweep abandoned after repeated crashes/hangs"));
                    skipped_after_trap += values.size() - j;
                    break;
                }
            }
        }
    }
    (void)san;
    r.count("evaluations", evals);
    r.count("distinct_nontrivial", nontrivial);
    r.count("out_of_domain_skipped", skipped);
    r.count("skipped_after_trap", skipped_after_trap);
    char b[64];
    std::snprintf(b, sizeof b, "%.6g", max_err);
    r.note(cat("MAXERR|", u.call, "||", b, "|", bound, "|", max_at));
}

std::vector<double> grid64_small()
{
    std::vector<double> out;
    auto const mants = grid_mantissas(true);
    for (u64 e = 0; e < 2048; ++e) {
        for (u64 m : mants) {
            out.push_back(db((e << 52) | m));
            out.push_back(db((u64(1) << 63) | (e << 52) | m));
        }
    }
    return out;
}

} // namespace

int main(int argc, char** argv)
{
    mc::Main m(argc, argv);
#if MC_PART == 0 || MC_PART == 1
    static auto const u32s = unary_subjects<float>();
    static auto const b32s = binary_subjects<float>();
    m.job("f32/B32", {"quick", "thorough"}, [](mc::Reporter& r) {
        auto const B = make_boundary<float>();
        r.count("configurations", 1);
        for (auto const& u : u32s) { sweep_values(r, u, B, false); }
    });
    for (std::size_t i = 0; i < b32s.size(); ++i) {
        m.job(cat("f32/binary/", b32s[i].shortname), {"quick", "thorough"}, [i](mc::Reporter& r) {
            r.count("configurations", 1);
            sweep_binary(r, b32s[i], make_boundary_small<float>());
        });
    }
    #if !defined(MC_FLAVOUR_SAN)
    for (std::size_t i = 0; i < u32s.size(); ++i) {
        m.job(cat("f32/A7/", u32s[i].shortname), {"quick"}, [i](mc::Reporter& r) {
            r.count("configurations", 1);
            sweep_lattice(r, u32s[i], 7, 0, 1);
        });
        for (int sg = 0; sg < 2; ++sg) {
            m.job(cat("f32/A12/", u32s[i].shortname, sg ? "/neg" : "/pos"), {"thorough"}, [i, sg](mc::Reporter& r) {
                r.count("configurations", 1);
                sweep_lattice(r, u32s[i], 12, sg, sg);
            });
        }
    }
    #endif
#endif
#if MC_PART == 0 || MC_PART == 2
    static auto const u64s = unary_subjects<double>();
    static auto const b64s = binary_subjects<double>();
    m.job("f64/B64", {"quick", "thorough"}, [](mc::Reporter& r) {
        auto const B = make_boundary<double>();
        r.count("configurations", 1);
        for (auto const& u : u64s) { sweep_values(r, u, B, false); }
    });
    for (std::size_t i = 0; i < b64s.size(); ++i) {
        m.job(cat("f64/binary/", b64s[i].shortname), {"quick", "thorough"}, [i](mc::Reporter& r) {
            r.count("configurations", 1);
            sweep_binary(r, b64s[i], make_boundary_small<double>());
        });
    }
    #if !defined(MC_FLAVOUR_SAN)
    for (std::size_t i = 0; i < u64s.size(); ++i) {
        m.job(cat("f64/G64/", u64s[i].shortname), {"quick", "thorough"}, [i](mc::Reporter& r) {
            r.count("configurations", 1);
            sweep_values(r, u64s[i], grid64_small(), true);
        });
    }
    #endif
#endif
    return m.run();
}
