// C01 round 2, direction 5: constant evaluation.
//
// ALL histories of length <= 3 over a menu of self-guarding actions (every action checks its own precondition, so every
// history is valid) are replayed on etl::static_vector<int,N> and etl::inplace_vector<int,N> three times:
//   (1) by the compiler, during constant evaluation, into constexpr TABLES (one per first action; "is the table a
//       constant expression" is decided by a requires-expression, so a history that stops being a constant expression is
//       one reported case, never a build failure);
//   (2) at run time on a real object (same function, arguments hidden from the compiler);
//   (3) at run time on std::vector<int> (static_vector: the same generic action code; inplace_vector: through a thin
//       adapter that gives std::vector the try_/unchecked_ vocabulary).
// Compared per history: size, the elements in order, front/back, an accumulator of every returned position / count /
// pointer (as index), and the six relational operators against a fixed operand (static_vector only: inplace_vector has
// none).  (1) != (2) is a constant-evaluation divergence, (2) != (3) a functional one.
#include "mc.hpp"

#include <etl/inplace_vector.hpp>
#include <etl/vector.hpp>

#include <array>
#include <vector>

using mc::cat;

namespace {

template <auto F>
concept constant_expression = requires { typename std::bool_constant<(F(), true)>; };

struct ActInfo {
    char const* subject;
    char const* text;
};

// =====================================================================================================================
// static_vector
// =====================================================================================================================
constexpr ActInfo sv_acts[] = {
    {"push_back(&&)", "if (s<N) push_back(1)"},
    {"push_back(const&)", "if (s<N) {int const x=2; push_back(x)}"},
    {"emplace_back", "if (s<N) emplace_back(3)"},
    {"pop_back", "if (s>0) pop_back()"},
    {"insert(pos,&&)", "if (s<N) insert(begin(),4)"},
    {"insert(pos,const&)", "if (s<N) {int const x=5; insert(begin()+s/2,x)}"},
    {"insert(pos,n,v)", "if (s+2<=N) insert(end(),2,6)"},
    {"insert(pos,first,last)", "if (s+2<=N) insert(begin()+(s>0),{7,8})"},
    {"erase(pos)", "if (s>0) erase(begin())"},
    {"erase(first,last)", "if (s>=2) erase(begin()+1,end())"},
    {"resize(n)", "resize(N)"},
    {"resize(n,v)", "resize(1,9)"},
    {"assign(n,v)", "assign(2,1)"},
    {"assign(first,last)", "assign({3,1,2})"},
    {"clear", "clear()"},
    {"swap(other)", "{T o; o.push_back(2); swap(o)}"},
    {"operator=(const&)", "{T o(t); if (s>0) o.pop_back(); t = o}"},
    {"operator=(&&)", "{T o(t); if (s<N) o.push_back(4); t = move(o)}"},
    {"etl::erase", "erase(t,1)"},
    {"etl::erase_if", "erase_if(t,odd)"},
    {"emplace(pos,v)", "if (s<N) emplace(end(),2)"},
    {"front()/back() (written through)", "if (s>0) {front()=7; back()+=1}"},
    {"push_back(own element)", "if (s>0 && s<N) push_back(t[0])"},
    {"insert(pos,own element)", "if (s>0 && s<N) insert(begin(),back())"},
};
constexpr int SVK = int(sizeof(sv_acts) / sizeof(sv_acts[0]));

constexpr bool is_odd(int x) { return (x & 1) != 0; }

// one action; the same code for etl::static_vector (constant evaluation and run time) and std::vector.
// acc accumulates every returned position/count (bounded: three steps of small numbers)
template <typename T>
constexpr void sv_step(T& t, int id, std::size_t N, int& acc)
{
    std::size_t const s = t.size();
    auto note           = [&](auto v) { acc = acc * 11 + int(v) + 1; };
    switch (id) {
    case 0:
        if (s < N) { t.push_back(1); }
        break;
    case 1:
        if (s < N) {
            int const x = 2;
            t.push_back(x);
        }
        break;
    case 2:
        if (s < N) { t.emplace_back(3); }
        break;
    case 3:
        if (s > 0) { t.pop_back(); }
        break;
    case 4:
        if (s < N) {
            auto it = t.insert(t.begin(), 4);
            note(it - t.begin());
        }
        break;
    case 5:
        if (s < N) {
            int const x = 5;
            auto it     = t.insert(t.begin() + static_cast<std::ptrdiff_t>(s / 2), x);
            note(it - t.begin());
        }
        break;
    case 6:
        if (s + 2 <= N) {
            auto it = t.insert(t.end(), std::size_t(2), 6);
            note(it - t.begin());
        }
        break;
    case 7:
        if (s + 2 <= N) {
            int const arr[2] = {7, 8};
            int const* f     = arr;
            int const* l     = arr + 2;
            auto it          = t.insert(t.begin() + (s > 0 ? 1 : 0), f, l);
            note(it - t.begin());
        }
        break;
    case 8:
        if (s > 0) {
            auto it = t.erase(t.begin());
            note(it - t.begin());
        }
        break;
    case 9:
        if (s >= 2) {
            auto it = t.erase(t.begin() + 1, t.end());
            note(it - t.begin());
        }
        break;
    case 10: t.resize(N); break;
    case 11:
        if (N >= 1) { t.resize(1, 9); }
        break;
    case 12:
        if (N >= 2) { t.assign(std::size_t(2), 1); }
        break;
    case 13:
        if (N >= 3) {
            int const arr[3] = {3, 1, 2};
            int const* f     = arr;
            int const* l     = arr + 3;
            t.assign(f, l);
        }
        break;
    case 14: t.clear(); break;
    case 15: {
        T o;
        if (N >= 1) { o.push_back(2); }
        t.swap(o);
        note(o.size());
        break;
    }
    case 16: {
        T o(t);
        if (s > 0) { o.pop_back(); }
        t = o;
        note(o.size());
        break;
    }
    case 17: {
        T o(t);
        if (s < N) { o.push_back(4); }
        t = static_cast<T&&>(o);
        break;
    }
    case 18:
        if constexpr (requires { t.full(); }) {
            note(etl::erase(t, 1));
        } else {
            note(std::erase(t, 1));
        }
        break;
    case 19:
        if constexpr (requires { t.full(); }) {
            note(etl::erase_if(t, is_odd));
        } else {
            note(std::erase_if(t, is_odd));
        }
        break;
    case 20:
        if (s < N) {
            auto it = t.emplace(t.end(), 2);
            note(it - t.begin());
        }
        break;
    case 21:
        if (s > 0) {
            t.front() = 7;
            t.back() += 1;
        }
        break;
    case 22:
        if (s > 0 && s < N) { t.push_back(t[0]); }
        break;
    case 23:
        if (s > 0 && s < N) {
            auto it = t.insert(t.begin(), t.back());
            note(it - t.begin());
        }
        break;
    default: break;
    }
}

template <std::size_t N>
struct Out {
    int elem[N + 1]{};
    unsigned size{0};
    int front{-1}, back{-1};
    int acc{0};
    unsigned char rel{0}; // bit i: ==, !=, <, <=, >, >= against the fixed operand {2,1}
    bool empty{false};
    constexpr bool operator==(Out const&) const = default;
};

template <std::size_t N, typename T>
constexpr Out<N> sv_snapshot(T const& t, int acc)
{
    Out<N> o;
    o.size  = static_cast<unsigned>(t.size());
    o.empty = t.empty();
    o.acc   = acc;
    std::size_t i = 0;
    for (auto it = t.begin(); it != t.end() && i < N + 1; ++it, ++i) { o.elem[i] = *it; }
    if (t.size() > 0) {
        o.front = t.front();
        o.back  = t.back();
    }
    T other;
    if (N >= 1) { other.push_back(2); }
    if (N >= 2) { other.push_back(1); }
    o.rel = static_cast<unsigned char>((t == other ? 1 : 0) | (t != other ? 2 : 0) | (t < other ? 4 : 0) | (t <= other ? 8 : 0) | (t > other ? 16 : 0) | (t >= other ? 32 : 0));
    return o;
}

template <std::size_t N, typename T>
constexpr Out<N> sv_replay(int a, int b, int c)
{
    T t;
    int acc = 0;
    if (a >= 0) { sv_step(t, a, N, acc); }
    if (b >= 0) { sv_step(t, b, N, acc); }
    if (c >= 0) { sv_step(t, c, N, acc); }
    return sv_snapshot<N>(t, acc);
}

// =====================================================================================================================
// inplace_vector (its whole API: try_*/unchecked_*, pop_back, clear, accessors, copy/move construction)
// =====================================================================================================================
constexpr ActInfo iv_acts[] = {
    {"try_push_back(&&)", "try_push_back(1)"},
    {"try_push_back(const&)", "{int const x=2; try_push_back(x)}"},
    {"try_emplace_back", "try_emplace_back(3)"},
    {"try_emplace_back()", "try_emplace_back()"},
    {"unchecked_push_back(&&)", "if (s<N) unchecked_push_back(4)"},
    {"unchecked_push_back(const&)", "if (s<N) {int const x=5; unchecked_push_back(x)}"},
    {"unchecked_emplace_back", "if (s<N) unchecked_emplace_back(6)"},
    {"pop_back", "if (s>0) pop_back()"},
    {"clear", "clear()"},
    {"copy-construct", "{T o(t); o.try_push_back(7); if (o.size()>1) t[0] = o[1]... see source}"},
    {"move-construct", "{T o(move(t)); t.clear(); for x in o: t.try_push_back(x+1)}"},
    {"front()/back() (written through)", "if (s>0) {front()=7; back()+=1}"},
    {"try_push_back(own element)", "if (s>0) try_push_back(t[0])"},
    {"unchecked_emplace_back(own element)", "if (s>0 && s<N) unchecked_emplace_back(back())"},
    {"operator[] (written through)", "if (s>1) t[1] = t[0] + 1"},
    {"pop_back", "while (s>1) pop_back()"},
};
constexpr int IVK = int(sizeof(iv_acts) / sizeof(iv_acts[0]));

// std::vector behind the inplace_vector vocabulary (run-time model only)
template <std::size_t N>
struct IvModel {
    std::vector<int> v;
    IvModel() { v.reserve(N + 1); }
    IvModel(IvModel const& o) : v(o.v) { v.reserve(N + 1); }
    IvModel(IvModel&& o) : v(std::move(o.v)) { v.reserve(N + 1); }
    std::size_t size() const { return v.size(); }
    bool empty() const { return v.empty(); }
    int* data() { return v.data(); }
    int const* data() const { return v.data(); }
    int const* begin() const { return v.data(); }
    int const* end() const { return v.data() + v.size(); }
    int& front() { return v.front(); }
    int& back() { return v.back(); }
    int const& front() const { return v.front(); }
    int const& back() const { return v.back(); }
    int& operator[](std::size_t i) { return v[i]; }
    int const& operator[](std::size_t i) const { return v[i]; }
    template <typename... A>
    int* try_emplace_back(A&&... a)
    {
        if (v.size() == N) { return nullptr; }
        v.emplace_back(static_cast<A&&>(a)...);
        return &v.back();
    }
    int* try_push_back(int const& x) { return try_emplace_back(x); }
    template <typename... A>
    int& unchecked_emplace_back(A&&... a)
    {
        v.emplace_back(static_cast<A&&>(a)...);
        return v.back();
    }
    int& unchecked_push_back(int const& x) { return unchecked_emplace_back(x); }
    void pop_back() { v.pop_back(); }
    void clear() { v.clear(); }
};

template <typename T>
constexpr T iv_make()
{
    return T{}; // value-initialisation (default-initialisation leaves the size indeterminate: known finding)
}

template <typename T>
constexpr void iv_step(T& t, int id, std::size_t N, int& acc)
{
    std::size_t const s = t.size();
    auto note_ptr       = [&](int* p) { acc = acc * 11 + (p == nullptr ? 0 : int(p - t.data()) + 1); };
    auto note_ref       = [&](int& r) { acc = acc * 11 + int(&r - t.data()) + 1; };
    switch (id) {
    case 0: note_ptr(t.try_push_back(1)); break;
    case 1: {
        int const x = 2;
        note_ptr(t.try_push_back(x));
        break;
    }
    case 2: note_ptr(t.try_emplace_back(3)); break;
    case 3: note_ptr(t.try_emplace_back()); break;
    case 4:
        if (s < N) { note_ref(t.unchecked_push_back(4)); }
        break;
    case 5:
        if (s < N) {
            int const x = 5;
            note_ref(t.unchecked_push_back(x));
        }
        break;
    case 6:
        if (s < N) { note_ref(t.unchecked_emplace_back(6)); }
        break;
    case 7:
        if (s > 0) { t.pop_back(); }
        break;
    case 8: t.clear(); break;
    case 9: {
        // copy construction: the copy is mutated, the source must keep its value; then the source takes a value from the copy
        T o(t);
        acc = acc * 11 + (o.try_push_back(7) != nullptr ? 2 : 1);
        if (o.size() > 1 && s > 0) { t[0] = o[o.size() - 1] + int(o.size()); }
        break;
    }
    case 10: {
        T o(static_cast<T&&>(t));
        t.clear(); // the moved-from source is only required to be valid
        for (std::size_t i = 0; i < o.size(); ++i) { (void)t.try_push_back(o[i] + 1); }
        break;
    }
    case 11:
        if (s > 0) {
            t.front() = 7;
            t.back() += 1;
        }
        break;
    case 12:
        if (s > 0) { note_ptr(t.try_push_back(t[0])); }
        break;
    case 13:
        if (s > 0 && s < N) { note_ref(t.unchecked_emplace_back(t.back())); }
        break;
    case 14:
        if (s > 1) { t[1] = t[0] + 1; }
        break;
    case 15:
        while (t.size() > 1) { t.pop_back(); }
        break;
    default: break;
    }
}

template <std::size_t N, typename T>
constexpr Out<N> iv_snapshot(T const& t, int acc)
{
    Out<N> o;
    o.size  = static_cast<unsigned>(t.size());
    o.empty = t.empty();
    o.acc   = acc;
    std::size_t i = 0;
    for (auto it = t.begin(); it != t.end() && i < N + 1; ++it, ++i) { o.elem[i] = *it; }
    if (t.size() > 0) {
        o.front = t.front();
        o.back  = t.back();
    }
    return o;
}

template <std::size_t N, typename T>
constexpr Out<N> iv_replay(int a, int b, int c)
{
    T t = iv_make<T>();
    int acc = 0;
    if (a >= 0) { iv_step(t, a, N, acc); }
    if (b >= 0) { iv_step(t, b, N, acc); }
    if (c >= 0) { iv_step(t, c, N, acc); }
    return iv_snapshot<N>(t, acc);
}

// =====================================================================================================================
// tables and comparison
// =====================================================================================================================
template <int K>
constexpr int rows_of = 1 + K + K * K; // (a), (a,b), (a,b,c) for a fixed a
template <int K>
constexpr int row_of(int b, int c)
{
    return b < 0 ? 0 : (c < 0 ? 1 + b : 1 + K + b * K + c);
}

struct SvFamily {
    static constexpr int K                = SVK;
    static constexpr ActInfo const* acts  = sv_acts;
    static constexpr char const* prefix   = "static_vector::";
    static constexpr char const* type     = "static_vector<int,";
    template <std::size_t N>
    using Impl = etl::static_vector<int, N>;
    template <std::size_t N>
    using Model = std::vector<int>;
    template <std::size_t N, typename T>
    static constexpr Out<N> replay(int a, int b, int c)
    {
        return sv_replay<N, T>(a, b, c);
    }
};
struct IvFamily {
    static constexpr int K                = IVK;
    static constexpr ActInfo const* acts  = iv_acts;
    static constexpr char const* prefix   = "inplace_vector::";
    static constexpr char const* type     = "inplace_vector<int,";
    template <std::size_t N>
    using Impl = etl::inplace_vector<int, N>;
    template <std::size_t N>
    using Model = IvModel<N>;
    template <std::size_t N, typename T>
    static constexpr Out<N> replay(int a, int b, int c)
    {
        return iv_replay<N, T>(a, b, c);
    }
};

template <typename F, std::size_t N, int A>
constexpr std::array<Out<N>, rows_of<F::K>> table()
{
    using S = typename F::template Impl<N>;
    std::array<Out<N>, rows_of<F::K>> t{};
    t[0] = F::template replay<N, S>(A, -1, -1);
    for (int b = 0; b < F::K; ++b) {
        t[std::size_t(row_of<F::K>(b, -1))] = F::template replay<N, S>(A, b, -1);
        for (int c = 0; c < F::K; ++c) { t[std::size_t(row_of<F::K>(b, c))] = F::template replay<N, S>(A, b, c); }
    }
    return t;
}

template <std::size_t N>
std::string show(Out<N> const& o)
{
    std::string s = "[";
    for (std::size_t i = 0; i < std::min<std::size_t>(o.size, N + 1); ++i) { s += cat(i ? "," : "", o.elem[i]); }
    return cat(s, "] size=", o.size, o.empty ? " empty" : "", " front=", o.front, " back=", o.back, " returns=", o.acc, " relational=", int(o.rel));
}

template <typename F>
std::string hist(int a, int b, int c)
{
    std::string o = cat("t; ", F::acts[a].text);
    if (b >= 0) { o += cat("; ", F::acts[b].text); }
    if (c >= 0) { o += cat("; ", F::acts[c].text); }
    return o;
}

template <typename F, std::size_t N, int A>
void check_first(mc::Reporter& r)
{
    using S               = typename F::template Impl<N>;
    using M               = typename F::template Model<N>;
    constexpr int K       = F::K;
    std::string const cfg = cat(F::type, N, ">");
    constexpr auto probe  = [] { return table<F, N, A>(); };
    if constexpr (!constant_expression<probe>) {
        r.violation("C01", cat(F::prefix, F::acts[A].subject, " (constant evaluation)"), "not_a_constant_expression", cat(cfg, ": histories of length <= 3 starting with ", F::acts[A].text),
            "the valid histories are not a constant expression (a step is not usable in constant evaluation, or the evaluator met undefined behaviour)");
        r.count("evaluations", 1);
    } else {
        static constexpr auto tab = table<F, N, A>();
        volatile int va           = A;
        for (int b = -1; b < K; ++b) {
            for (int c = -1; c < K; ++c) {
                if (b < 0 && c >= 0) { continue; }
                volatile int vb = b;
                volatile int vc = c;
                auto const& ct  = tab[std::size_t(row_of<K>(b, c))];
                Out<N> rt{};
                Out<N> md{};
                int const last            = c >= 0 ? c : (b >= 0 ? b : A);
                std::string const subject = cat(F::prefix, F::acts[last].subject);
                mc::Trap const trap       = mc::guarded([&] {
                    rt = F::template replay<N, S>(va, vb, vc);
                    md = F::template replay<N, M>(va, vb, vc);
                });
                r.count("evaluations", 3);
                r.count("distinct_nontrivial", 1);
                r.outcome(mc::hash_str(show(ct)));
                if (trap != mc::Trap::none) {
                    bool const contract = (trap == mc::Trap::assert_fired || trap == mc::Trap::exception_raised);
                    r.violation(contract ? "C05" : "C02", subject, contract ? "handler-on-valid-call" : mc::trap_name(trap), cat(cfg, ": ", hist<F>(A, b, c)), mc::describe_trap(trap));
                    continue;
                }
                if (!(ct == rt)) {
                    r.violation("C01", subject, "constant_evaluation_differs", cat(cfg, ": ", hist<F>(A, b, c)), cat("constant evaluation: ", show(ct), " | run time: ", show(rt)));
                }
                if (!(rt == md)) {
                    r.violation("C01", subject, "general", cat(cfg, ": ", hist<F>(A, b, c)), cat("tetl (run time): ", show(rt), " | std::vector: ", show(md)));
                }
                if (r.wants_sample() && c >= 0) { r.sample(cat(cfg, ": ", hist<F>(A, b, c), " -> ", show(ct))); }
            }
        }
    }
}

template <typename F, std::size_t N, int... A>
void check_all(mc::Reporter& r, std::integer_sequence<int, A...>)
{
    (check_first<F, N, A>(r), ...);
    constexpr int K = F::K;
    r.count("configurations", 1);
    r.note(cat(F::type, N, ">: ", K, " actions, ", K + K * K + K * K * K, " histories of length <= 3, constexpr tables vs run time vs std::vector"));
}

template <typename F, std::size_t N>
void add(mc::Main& m, std::vector<std::string> tiers)
{
    m.job(cat("constexpr/", F::type, N, ">"), tiers, [](mc::Reporter& r) { check_all<F, N>(r, std::make_integer_sequence<int, F::K>{}); });
}

} // namespace

int main(int argc, char** argv)
{
    mc::Main m(argc, argv);
    std::vector<std::string> const both{"quick", "thorough"};
    std::vector<std::string> const th{"thorough"};
    // one capacity per translation unit (-DMC_PART): the tables of one static_vector capacity cost about 15-25 s of compile time
#if !defined(MC_PART) || MC_PART == 1
    add<SvFamily, 3>(m, both);
    add<IvFamily, 2>(m, both);
#endif
#if !defined(MC_PART) || MC_PART == 2
    add<SvFamily, 4>(m, th);
    add<IvFamily, 3>(m, th);
#endif
#if !defined(MC_PART) || MC_PART == 3
    add<SvFamily, 1>(m, th);
    add<SvFamily, 2>(m, th);
    add<IvFamily, 1>(m, th);
    add<IvFamily, 4>(m, th);
#endif
    return m.run();
}
