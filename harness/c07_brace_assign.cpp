// C07, the ways of emptying / re-seating an optional, for element types of every scalar category (added after seeded
// breakage c07_optional_brace_assign_scalar: the clause of optional::operator=(U&&) that keeps `o = {}` away from the
// U = T template was narrowed from is_scalar_v<T> to is_arithmetic_v<T>; for pointers, enumerations, pointers to
// members and nullptr_t `o = {}` then ENGAGED the optional with a value-initialised T instead of resetting it.  The
// explorer's element types were int, short, references and class types - for those nothing changes).
// Enumerated: element types {int, bool, double, int*, int const*, enum class, unscoped enum : unsigned char, int
// S::*, void (S::*)(), nullptr_t, S (aggregate), NT (non-trivial class)} x start states {empty, engaged with two
// values} x operations {o = {}, o = nullopt, o.reset(), o = T{}, o = optional<T>{}, o = optional<T>{v}, o = v,
// o = {v} where well-formed in std, o.emplace(), o.emplace(v), swap with an empty / engaged optional}; after each
// operation has_value(), the value (== against the expected value), == nullopt, value_or(v2) and the relational
// operators against another optional are compared with std::optional.  Whether an operation is well-formed at all is
// probed with `requires` on both sides and compared.
#include "mc.hpp"

#include <etl/optional.hpp>
#include <etl/utility.hpp>

#include <limits>
#include <optional>
#include <string>
#include <type_traits>
#include <utility>
#include <vector>

using mc::cat;

namespace {

struct S {
    int a{0};
    int b{0};
    void f() { }
    void g() { }
    friend bool operator==(S const&, S const&) = default;
};
struct NT {
    int v{0};
    NT() noexcept { }
    NT(int x) noexcept : v(x) { } // NOLINT
    NT(NT const& o) noexcept : v(o.v) { }
    NT(NT&& o) noexcept : v(o.v) { }
    NT& operator=(NT const& o) noexcept
    {
        v = o.v;
        return *this;
    }
    ~NT() { }
    friend bool operator==(NT const& a, NT const& b) { return a.v == b.v; }
};
enum class Scoped { zero, one, two };
enum Unscoped : unsigned char { u_zero, u_one, u_two };

int g_ints[3] = {10, 20, 30};

template <typename T>
T value(int k)
{
    if constexpr (std::is_same_v<T, int*>) {
        return &g_ints[k];
    } else if constexpr (std::is_same_v<T, int const*>) {
        return &g_ints[k];
    } else if constexpr (std::is_same_v<T, Scoped>) {
        return static_cast<Scoped>(k);
    } else if constexpr (std::is_same_v<T, Unscoped>) {
        return static_cast<Unscoped>(k);
    } else if constexpr (std::is_same_v<T, int S::*>) {
        return k == 1 ? &S::a : &S::b;
    } else if constexpr (std::is_same_v<T, void (S::*)()>) {
        return k == 1 ? &S::f : &S::g;
    } else if constexpr (std::is_same_v<T, std::nullptr_t>) {
        return nullptr;
    } else if constexpr (std::is_same_v<T, S>) {
        return S{k, k + 1};
    } else if constexpr (std::is_same_v<T, bool>) {
        return k == 1;
    } else {
        return T(k);
    }
}

template <typename O, typename T>
std::string observe(O const& o)
{
    std::string s = o.has_value() ? "engaged" : "empty";
    if (o.has_value()) {
        s += *o == T{} ? " value-initialised" : (*o == value<T>(1) ? " v1" : (*o == value<T>(2) ? " v2" : " other"));
    }
    s += (o == O{}) ? " ==empty" : " !=empty";
    s += (o == O{value<T>(1)}) ? " ==opt(v1)" : " !=opt(v1)";
    s += (o.value_or(value<T>(2)) == value<T>(2)) ? " value_or(v2)==v2" : " value_or(v2)!=v2";
    return s;
}

constexpr int NOPS = 12;
constexpr char const* op_names[NOPS] = {"o = {}", "o = nullopt", "o.reset()", "o = T{}", "o = optional<T>{}", "o = optional<T>{v2}", "o = v2", "o = {v2}", "o.emplace()", "o.emplace(v2)",
    "swap(o, empty)", "swap(o, optional(v2))"};

// -1: not well-formed
template <typename O, typename T, typename Nullopt>
std::string run(int op, int start, Nullopt nullopt_v)
{
    O o;
    if (start != 0) { o = value<T>(start); }
    switch (op) {
    case 0:
        if constexpr (requires(O& x) { x = {}; }) {
            o = {};
        } else {
            return "ill-formed";
        }
        break;
    case 1: o = nullopt_v; break;
    case 2: o.reset(); break;
    case 3: o = T{}; break;
    case 4: o = O{}; break;
    case 5: o = O{value<T>(2)}; break;
    case 6: o = value<T>(2); break;
    case 7:
        if constexpr (requires(O& x, T v) { x = {v}; }) {
            o = {value<T>(2)};
        } else {
            return "ill-formed";
        }
        break;
    case 8: o.emplace(); break;
    case 9: o.emplace(value<T>(2)); break;
    case 10: {
        O e;
        using std::swap;
        using etl::swap;
        swap(o, e);
        break;
    }
    default: {
        O e{value<T>(2)};
        using std::swap;
        using etl::swap;
        swap(o, e);
        break;
    }
    }
    return observe<O, T>(o);
}

template <typename T>
void sweep(mc::Reporter& r, char const* tname, char const* category, std::uint64_t& ev)
{
    using EO = etl::optional<T>;
    using SO = std::optional<T>;
    for (int op = 0; op < NOPS; ++op) {
        for (int start = 0; start <= 2; ++start) {
            std::string const e = run<EO, T>(op, start, etl::nullopt);
            std::string const s = run<SO, T>(op, start, std::nullopt);
            ++ev;
            r.outcome(mc::hash_str(cat(s, op)));
            if ((e == "ill-formed") != (s == "ill-formed")) {
                // an expression only one library accepts cannot be "driven by the same sequence": API difference, noted
                // (etl::nullopt_t has an explicit constructor from int, so `o = {v}` is ambiguous for optional<int> and
                // for element types convertible from int; libstdc++ uses a private tag type)
                if (start == 0) { r.note(cat("API difference (not a violation): optional<", tname, ">: ", op_names[op], " is ", e == "ill-formed" ? "ill-formed in tetl, well-formed in std" : "well-formed in tetl, ill-formed in std")); }
                continue;
            }
            if (e != s) {
                r.violation("C07", cat("optional: ", op_names[op]), cat(category, start == 0 ? "+from_empty" : "+from_engaged"), cat("optional<", tname, "> ", start == 0 ? std::string("empty") : cat("holding v", start), ": ", op_names[op]),
                    cat("tetl: ", e, " | std: ", s));
            }
        }
    }
    r.sample(cat("optional<", tname, ">: 12 operations x {empty, v1, v2}"));
}

// value_or with a fallback of ANOTHER arithmetic type (added after seeded breakage c07_value_or_cast_hoisted: the
// static_cast<T> was moved around the whole conditional, so an engaged optional<int> made a round trip through
// common_type<int, float>: 16777217 came back as 16777216).  Enumerated: T in {int, long long, unsigned, short} x
// fallback type U in {float, double, long double, char, long long, unsigned long} x contained values {limits, 2^24+1,
// 2^53+1 where representable, -1, 0} x fallback values {0, 1.5, -1} x {engaged, empty} x {const&, &&} overloads;
// value and result type against std::optional.
template <typename T, typename U>
void value_or_pair(mc::Reporter& r, char const* tn, char const* un, std::uint64_t& ev)
{
    std::vector<long double> const vals{0.0L, -1.0L, 16777217.0L, 9007199254740993.0L, static_cast<long double>(std::numeric_limits<T>::max()), static_cast<long double>(std::numeric_limits<T>::min()),
        static_cast<long double>(std::numeric_limits<T>::max()) - 1.0L};
    for (long double lv : vals) {
        if (lv > static_cast<long double>(std::numeric_limits<T>::max()) || lv < static_cast<long double>(std::numeric_limits<T>::min())) { continue; }
        T const v = static_cast<T>(lv);
        for (long double lf : {0.0L, 1.5L, 100.0L}) {
            U const f = static_cast<U>(lf);
            for (int engaged = 0; engaged < 2; ++engaged) {
                etl::optional<T> eo;
                std::optional<T> so;
                if (engaged != 0) {
                    eo = v;
                    so = v;
                }
                static_assert(std::is_same_v<decltype(eo.value_or(f)), decltype(so.value_or(f))>);
                auto const e1 = eo.value_or(f);
                auto const s1 = so.value_or(f);
                auto const e2 = etl::optional<T>(eo).value_or(f);
                auto const s2 = std::optional<T>(so).value_or(f);
                ev += 2;
                r.outcome(mc::hash_str(cat(static_cast<long double>(s1))));
                if (!(e1 == s1) || !(e2 == s2)) {
                    r.violation("C07", "optional::value_or(U&&)", cat(engaged ? "engaged" : "empty", "+fallback_of_another_arithmetic_type"), cat("optional<", tn, ">{", engaged ? cat(static_cast<long double>(v)) : std::string(), "}.value_or(", un, "(", static_cast<long double>(f), "))"),
                        cat("tetl: ", static_cast<long double>(e1), " / rvalue ", static_cast<long double>(e2), " | std: ", static_cast<long double>(s1), " / ", static_cast<long double>(s2)));
                }
            }
        }
    }
}
template <typename T>
void value_or_row(mc::Reporter& r, char const* tn, std::uint64_t& ev)
{
    value_or_pair<T, float>(r, tn, "float", ev);
    value_or_pair<T, double>(r, tn, "double", ev);
    value_or_pair<T, long double>(r, tn, "long double", ev);
    value_or_pair<T, char>(r, tn, "char", ev);
    value_or_pair<T, long long>(r, tn, "long long", ev);
    value_or_pair<T, unsigned long>(r, tn, "unsigned long", ev);
}

} // namespace

int main(int argc, char** argv)
{
    mc::Main m(argc, argv);
    m.job("brace-assign/optional", {"quick", "thorough"}, [](mc::Reporter& r) {
        std::uint64_t ev = 0;
        sweep<int>(r, "int", "arithmetic", ev);
        sweep<bool>(r, "bool", "arithmetic", ev);
        sweep<double>(r, "double", "arithmetic", ev);
        sweep<int*>(r, "int*", "pointer", ev);
        sweep<int const*>(r, "int const*", "pointer", ev);
        sweep<Scoped>(r, "enum class", "enumeration", ev);
        sweep<Unscoped>(r, "enum : unsigned char", "enumeration", ev);
        sweep<int S::*>(r, "int S::*", "member_pointer", ev);
        sweep<void (S::*)()>(r, "void (S::*)()", "member_pointer", ev);
        sweep<std::nullptr_t>(r, "nullptr_t", "nullptr_t", ev);
        sweep<S>(r, "S (aggregate)", "class", ev);
        sweep<NT>(r, "NT (non-trivial class)", "class", ev);
        r.count("evaluations", ev);
        r.count("distinct_nontrivial", ev);
    });
    m.job("value-or/mixed-types", {"quick", "thorough"}, [](mc::Reporter& r) {
        std::uint64_t ev = 0;
        value_or_row<int>(r, "int", ev);
        value_or_row<long long>(r, "long long", ev);
        value_or_row<unsigned>(r, "unsigned", ev);
        value_or_row<short>(r, "short", ev);
        r.sample("optional<T>.value_or(U) for 4 x 6 arithmetic type pairs, contained values at the limits and just beyond the precision of the fallback type");
        r.count("evaluations", ev);
        r.count("distinct_nontrivial", ev);
    });
    return m.run();
}
