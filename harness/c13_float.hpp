// Boundary-value tables for float / double / long double, built by the compiler from exact
// power-of-two arithmetic (no bit tricks, so the same recipe serves all three types), and the
// argument-class predicates used for violation classes.
//
//   B<T>()   unary table (quick about 450 values, thorough about 3000), duplicate-free
//   B2<T>()  reduced table for binary functions (quick 46, thorough about 110)
//   B3<T>()  reduced table for ternary functions (quick 16, thorough 26)
#pragma once

#include "c13_common.hpp"

namespace c13 {

#if defined(C13_THOROUGH)
inline constexpr bool thorough_tables = true;
#else
inline constexpr bool thorough_tables = false;
#endif

template <typename T>
using lim = std::numeric_limits<T>;

template <typename T>
constexpr T pow2(int e) // exact while the result is representable (subnormals included)
{
    T r = 1;
    for (; e > 0; --e) { r *= T(2); }
    for (; e < 0; ++e) { r /= T(2); }
    return r;
}

template <typename T>
constexpr bool sign_of(T x)
{
    return __builtin_signbit(x) != 0;
}
template <typename T>
constexpr T mag_of(T x)
{
    return sign_of(x) ? -x : x;
}

// neighbours of a positive normal value (not max)
template <typename T>
constexpr T floor_pow2(T x)
{
    T p = 1;
    while (p > x) { p /= T(2); }
    while (p <= x / T(2)) { p *= T(2); }
    return p;
}
template <typename T>
constexpr T up(T x)
{
    return x + floor_pow2(x) * lim<T>::epsilon();
}
template <typename T>
constexpr T down(T x)
{
    auto const p = floor_pow2(x);
    return x == p ? x - p * lim<T>::epsilon() / T(2) : x - p * lim<T>::epsilon();
}

/// total order used to sort and de-duplicate the tables: -NaN < -inf < ... < -0 < +0 < ... < +inf < +NaN
template <typename T>
constexpr bool table_less(T a, T b)
{
    int const ka = a != a ? (__builtin_signbit(a) ? 0 : 2) : 1;
    int const kb = b != b ? (__builtin_signbit(b) ? 0 : 2) : 1;
    if (ka != kb) { return ka < kb; }
    if (ka != 1) { return false; }
    if (a < b) { return true; }
    if (b < a) { return false; }
    return __builtin_signbit(a) && !__builtin_signbit(b);
}

template <typename T, std::size_t Cap>
struct Bag {
    std::array<T, Cap> v{};
    std::size_t n{0};
    constexpr void add(T x) { v[n++] = x; }
    constexpr void pm(T x)
    {
        add(x);
        add(-x);
    }
    /// sorts (heap sort, no recursion) and removes duplicates: O(n log n) constant-evaluation steps
    constexpr void finish()
    {
        auto sift = [&](std::size_t root, std::size_t end) {
            while (2 * root + 1 < end) {
                std::size_t child = 2 * root + 1;
                if (child + 1 < end && table_less(v[child], v[child + 1])) { ++child; }
                if (!table_less(v[root], v[child])) { return; }
                T const t = v[root];
                v[root]   = v[child];
                v[child]  = t;
                root      = child;
            }
        };
        for (std::size_t i = n / 2; i-- > 0;) { sift(i, n); }
        for (std::size_t end = n; end-- > 1;) {
            T const t = v[0];
            v[0]      = v[end];
            v[end]    = t;
            sift(0, end);
        }
        std::size_t m = 0;
        for (std::size_t i = 0; i < n; ++i) {
            if (m == 0 || table_less(v[m - 1], v[i])) { v[m++] = v[i]; }
        }
        n = m;
    }
};

template <typename T>
constexpr void add_specials(auto& b)
{
    b.pm(T(0));
    b.pm(T(1));
    b.pm(lim<T>::infinity());
    b.pm(lim<T>::quiet_NaN());
    b.pm(lim<T>::denorm_min());
    b.pm(lim<T>::min());
    b.pm(lim<T>::max());
}

template <typename T>
constexpr auto make_B_raw()
{
    constexpr int digits = lim<T>::digits;
    Bag<T, 16384> b;
    add_specials<T>(b);
    b.pm(lim<T>::denorm_min() * T(2));
    b.pm(lim<T>::denorm_min() * T(3));
    b.pm(lim<T>::min() - lim<T>::denorm_min()); // largest subnormal
    b.pm(lim<T>::min() / T(2));
    b.pm(up(lim<T>::min()));
    b.pm(lim<T>::max() - lim<T>::max() * lim<T>::epsilon() / T(2) * T(1)); // second largest
    b.pm(lim<T>::max() / T(2));
    b.pm(lim<T>::epsilon());
    b.pm(lim<T>::epsilon() / T(2));
    b.pm(up(lim<T>::epsilon()));
    b.pm(down(lim<T>::epsilon()));
    // small integers, halves, neighbours
    for (int n = 0; n <= 4; ++n) {
        if (n > 0) {
            b.pm(T(n));
            b.pm(up(T(n)));
            b.pm(down(T(n)));
        }
        b.pm(T(n) + T(0.5));
        b.pm(up(T(n) + T(0.5)));
        b.pm(down(T(n) + T(0.5)));
        b.pm(T(n) + T(0.25));
        b.pm(T(n) + T(0.75));
    }
    b.pm(T(5));
    b.pm(T(7));
    b.pm(T(10));
    b.pm(T(100.5));
    b.pm(T(255));
    b.pm(T(256));
    b.pm(T(1000000.5));
    // integer-conversion and precision edges: 2^k, neighbours, +-1, +-0.5
    for (int k : {7, 8, 15, 16, digits - 3, digits - 2, digits - 1, digits, digits + 1, 31, 32, 33, 52, 53, 54, 62, 63, 64, 65, 100, 127}) {
        if (k >= lim<T>::max_exponent) { continue; }
        T const p = pow2<T>(k);
        b.pm(p);
        b.pm(up(p));
        b.pm(down(p));
        b.pm(p + T(1));
        b.pm(p - T(1));
        b.pm(p + T(0.5));
        b.pm(p - T(0.5));
        b.pm(p * T(1.5));
    }
    // multiples of pi/2 (as rounded by the compiler)
    for (int k = 1; k <= 8; ++k) { b.pm(T(1.57079632679489661923132169163975144L) * T(k)); }
    b.pm(T(0.1L));
    b.pm(T(1) / T(3));
    b.pm(T(2.718281828459045235360287471352662498L));
    // exponent walk: 2^e, its successor, the predecessor of 2^(e+1), 1.5 * 2^e
    constexpr int emin = lim<T>::min_exponent - 1; // 2^emin == min()
    constexpr int emax = lim<T>::max_exponent - 1;
    constexpr int step = thorough_tables ? (digits == 24 ? 1 : digits == 53 ? 8 : 128) : (digits == 24 ? 8 : digits == 53 ? 64 : 1024);
    T p                = lim<T>::min();
    for (int e = emin; e <= emax; ++e, p = (e <= emax ? p * T(2) : p)) {
        if ((e - emin) % step != 0) { continue; }
        b.pm(p);
        b.pm(p + p * lim<T>::epsilon());
        b.pm(p * (T(2) - lim<T>::epsilon())); // predecessor of 2^(e+1)
        b.pm(p * T(1.5));
        if constexpr (thorough_tables) {
            b.pm(p * T(1.25));
            b.pm(p * T(1.75) + p * lim<T>::epsilon());
        }
    }
    // subnormal walk
    {
        T s = lim<T>::denorm_min();
        for (int e = 0; e < digits - 1; ++e, s *= T(2)) {
            if (e % (thorough_tables ? 1 : 6) == 0) {
                b.pm(s);
                b.pm(s + lim<T>::denorm_min());
            }
        }
    }
    b.finish();
    return b;
}

template <typename T>
constexpr auto make_B()
{
    constexpr auto raw = make_B_raw<T>();
    std::array<T, raw.n> out{};
    for (std::size_t i = 0; i < raw.n; ++i) { out[i] = raw.v[i]; }
    return out;
}
template <typename T>
inline constexpr auto B = make_B<T>();

template <typename T>
constexpr auto make_B2_raw()
{
    constexpr int digits = lim<T>::digits;
    Bag<T, 512> b;
    add_specials<T>(b);
    b.pm(T(0.5));
    b.pm(T(1.5));
    b.pm(T(2));
    b.pm(T(2.5));
    b.pm(T(3));
    b.pm(down(T(1)));
    b.pm(lim<T>::epsilon());
    b.pm(pow2<T>(digits));
    b.pm(pow2<T>(63));
    b.pm(T(1.57079632679489661923132169163975144L));
    b.pm(T(7.25));
    b.pm(T(10000000019.0L)); // not representable in float: rounds
    b.pm(T(0.1L));
    b.pm(lim<T>::min() - lim<T>::denorm_min());
    b.pm(up(T(1)));
    b.pm(pow2<T>(100) * T(1.5));
    // long double: fmod / remainder walk up to 32000 binades per entry in constant evaluation; the table is not widened
    if constexpr (thorough_tables && lim<T>::digits < 64) {
        for (int n = 4; n <= 9; ++n) { b.pm(T(n)); }
        for (int n = 0; n <= 6; ++n) { b.pm(T(n) + T(0.75)); }
        b.pm(T(3.5));
        b.pm(T(4.5));
        b.pm(T(1) / T(3));
        b.pm(pow2<T>(digits - 1) + T(1));
        b.pm(pow2<T>(digits - 1) - T(0.5));
        b.pm(pow2<T>(-10));
        b.pm(pow2<T>(-100));
        b.pm(pow2<T>(31));
        b.pm(pow2<T>(32) + T(256));
        b.pm(pow2<T>(64));
        b.pm(lim<T>::max() / T(2));
        b.pm(lim<T>::min() * T(2));
        b.pm(lim<T>::denorm_min() * T(2));
        b.pm(down(T(2)));
        b.pm(up(T(2)));
        b.pm(T(1e5L));
        b.pm(T(12345.678L));
        b.pm(down(T(0.5)));
        b.pm(T(1000));
        b.pm(T(1e-5L));
        b.pm(lim<T>::epsilon() / T(2));
    }
    b.finish();
    return b;
}
template <typename T>
constexpr auto make_B2()
{
    constexpr auto raw = make_B2_raw<T>();
    std::array<T, raw.n> out{};
    for (std::size_t i = 0; i < raw.n; ++i) { out[i] = raw.v[i]; }
    return out;
}
template <typename T>
inline constexpr auto B2 = make_B2<T>();

template <typename T>
constexpr auto make_B3_raw()
{
    Bag<T, 64> b;
    b.pm(T(0));
    b.pm(T(1));
    b.add(lim<T>::infinity());
    b.add(-lim<T>::infinity());
    b.add(lim<T>::quiet_NaN());
    b.pm(up(T(1)));            // (1+eps)^2 is not representable: the product is inexact
    b.pm(T(1.5));
    b.pm(T(0.1L));
    b.add(lim<T>::max());
    b.add(lim<T>::min());
    b.add(T(3));
    if constexpr (thorough_tables) {
        b.pm(down(T(1)));
        b.pm(T(1) / T(3));
        b.pm(lim<T>::denorm_min());
        b.add(-lim<T>::max());
        b.add(pow2<T>(lim<T>::digits));
        b.add(T(7.25));
        b.add(lim<T>::epsilon());
        b.add(T(2));
    }
    b.finish();
    return b;
}
template <typename T>
constexpr auto make_B3()
{
    constexpr auto raw = make_B3_raw<T>();
    std::array<T, raw.n> out{};
    for (std::size_t i = 0; i < raw.n; ++i) { out[i] = raw.v[i]; }
    return out;
}
template <typename T>
inline constexpr auto B3 = make_B3<T>();

// ---------------------------------------------------------------------------------------
// argument classes (predicates over the input only)
// ---------------------------------------------------------------------------------------
template <typename T>
char const* tname()
{
    if constexpr (std::is_same_v<T, float>) { return "float"; }
    if constexpr (std::is_same_v<T, double>) { return "double"; }
    if constexpr (std::is_same_v<T, long double>) { return "long double"; }
    return "?";
}

/// fine class of one argument: sign + magnitude bucket
template <typename T>
std::string fine_class(T x)
{
    if (x != x) { return "nan"; }
    std::string s = sign_of(x) ? "neg_" : "pos_";
    T const m     = mag_of(x);
    if (m == lim<T>::infinity()) { return s + "inf"; }
    if (m == T(0)) { return s + "zero"; }
    if (m < lim<T>::min()) { return s + "subnormal"; }
    if (m < lim<T>::epsilon()) { return s + "tiny"; }           // below epsilon (gcem: "is zero")
    T const big = T(1) / lim<T>::epsilon();                      // 2^(digits-1): integral from here on
    if (m < T(1)) { return s + (m == T(0.5) ? "half" : "lt_1"); }
    if (m < big) {
        // has a fractional part?
        T const f = m - static_cast<T>(static_cast<long long>(m));
        if (f == T(0)) { return s + "int"; }
        if (f == T(0.5)) { return s + "tie"; }
        return s + "frac";
    }
    if (m < pow2<T>(63)) { return s + "int_big"; }
    return s + "ge_2^63";
}

/// coarse class of one argument (for products)
template <typename T>
std::string coarse_class(T x)
{
    if (x != x) { return "nan"; }
    T const m = mag_of(x);
    if (m == lim<T>::infinity()) { return sign_of(x) ? "-inf" : "+inf"; }
    if (m == T(0)) { return sign_of(x) ? "-0" : "+0"; }
    return sign_of(x) ? "-fin" : "+fin";
}
template <typename T>
std::string kind_class(T x)
{
    if (x != x) { return "nan"; }
    T const m = mag_of(x);
    if (m == lim<T>::infinity()) { return "inf"; }
    if (m == T(0)) { return "zero"; }
    return "fin";
}

} // namespace c13
