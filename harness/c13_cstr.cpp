// C13, character classification and C-string part: <etl/cctype.hpp>, <etl/cwctype.hpp>,
// <etl/cstring.hpp>, <etl/cwchar.hpp>.  cctype over every value in [-1,255] (EOF included),
// cwctype over [0,0x17F] plus a few large code points, the string functions over every pair of
// strings of length <= 3 (thorough: 4 for the read-only two-string functions) over the alphabet
// {a, b, 0x80} (0x80: a negative char; for wchar_t U+1F600).  Pointers are observed as offsets
// (-1 = null).
//
// mem* (memchr, memcmp, memcpy, memmove, memset) are not constexpr in tetl: API gap, not compared.
#include "mc.hpp"

#include <etl/cctype.hpp>
#include <etl/cstring.hpp>
#include <etl/cwchar.hpp>
#include <etl/cwctype.hpp>
#include <etl/string.hpp>

#include "c13_common.hpp"

#ifndef MC_PART
    #define MC_PART 1
#endif

namespace {
using namespace c13;

#if defined(C13_THOROUGH)
constexpr int max_len = 4; // strcmp/strspn/strcspn/strpbrk/strstr/strlen only; the others stay at 3 (compiler memory)
#else
constexpr int max_len = 3;
#endif
constexpr int copy_len = 3;

// ------------------------------------------------------------------------------- cctype
struct CharCode {
    using In = int;
    static constexpr std::size_t N = 257;
    static constexpr In in(std::size_t i) { return int(i) - 1; }
    static constexpr bool valid(In const&) { return true; }
    static std::string cls(In const& c) { return c < 0 ? "eof" : c < 0x80 ? "ascii" : "high"; }
    static std::string show(In const& c) { return "ch=" + std::to_string(c); }
    static bool nontrivial(In const& c) { return c != 0; }
};
struct WideCode {
    using In = etl::wint_t;
    static constexpr std::size_t N = 0x180 + 8;
    static constexpr In in(std::size_t i)
    {
        constexpr In extra[8] = {0x2000, 0x3000, 0xFF21, 0xFFFF, 0x10000, 0x10FFFF, 0x7FFFFFFF, static_cast<In>(-1)};
        return i < 0x180 ? static_cast<In>(i) : extra[i - 0x180];
    }
    static constexpr bool valid(In const&) { return true; }
    static std::string cls(In const& c) { return c < 0x80 ? "ascii" : c < 0x100 ? "latin1" : "wide"; }
    static std::string show(In const& c) { return "ch=" + std::to_string(static_cast<unsigned long long>(c)); }
    static bool nontrivial(In const& c) { return c != 0; }
};

#define C13_CT(NAME)                                                                                                   \
    struct k_##NAME : CharCode {                                                                                       \
        using R = int;                                                                                                 \
        static std::string subject() { return #NAME "(int)"; }                                                         \
        static constexpr R call(In const& c) { return etl::NAME(c); }                                                  \
    }
#define C13_WCT(NAME)                                                                                                  \
    struct k_##NAME : WideCode {                                                                                       \
        using R = long long;                                                                                           \
        static std::string subject() { return #NAME "(wint_t)"; }                                                      \
        static constexpr R call(In const& c) { return static_cast<long long>(etl::NAME(c)); }                          \
    }
C13_CT(isalnum);
C13_CT(isalpha);
C13_CT(isblank);
C13_CT(iscntrl);
C13_CT(isdigit);
C13_CT(isgraph);
C13_CT(islower);
C13_CT(isprint);
C13_CT(ispunct);
C13_CT(isspace);
C13_CT(isupper);
C13_CT(isxdigit);
C13_CT(tolower);
C13_CT(toupper);
C13_WCT(iswalnum);
C13_WCT(iswalpha);
C13_WCT(iswblank);
C13_WCT(iswcntrl);
C13_WCT(iswdigit);
C13_WCT(iswgraph);
C13_WCT(iswlower);
C13_WCT(iswprint);
C13_WCT(iswpunct);
C13_WCT(iswspace);
C13_WCT(iswupper);
C13_WCT(iswxdigit);
C13_WCT(towlower);
C13_WCT(towupper);

// ------------------------------------------------------------------------------ strings
constexpr std::size_t pow3(int n)
{
    std::size_t r = 1;
    for (int i = 0; i < n; ++i) { r *= 3; }
    return r;
}
constexpr std::size_t n_strings      = (pow3(max_len + 1) - 1) / 2; // 1 + 3 + 9 + ...
constexpr std::size_t n_copy_strings = (pow3(copy_len + 1) - 1) / 2;

template <typename Char>
struct Str {
    Char s[8]; // always terminated; at most max_len characters
};

template <typename Char>
constexpr Char letter(int d)
{
    if constexpr (sizeof(Char) == 1) {
        return d == 0 ? Char('a') : d == 1 ? Char('b') : static_cast<Char>(0x80);
    } else {
        return d == 0 ? Char('a') : d == 1 ? Char('b') : static_cast<Char>(0x1F600);
    }
}

/// i-th string in length-then-lexicographic order
template <typename Char>
constexpr Str<Char> nth_string(std::size_t i)
{
    Str<Char> out{};
    int len           = 0;
    std::size_t block = 1;
    while (i >= block) {
        i -= block;
        block *= 3;
        ++len;
    }
    for (int p = len - 1; p >= 0; --p) {
        out.s[p] = letter<Char>(int(i % 3));
        i /= 3;
    }
    return out;
}

template <typename Char>
std::string show_str(Char const* s)
{
    std::size_t n = 0;
    while (s[n] != 0) { ++n; }
    return mc::show_chars(s, s + n);
}
template <typename Char>
constexpr int len_of(Char const* s)
{
    int n = 0;
    while (s[n] != 0) { ++n; }
    return n;
}
template <typename Char>
char const* chname()
{
    return sizeof(Char) == 1 ? "char" : "wchar_t";
}

template <typename Char>
struct Pair {
    Str<Char> a;
    Str<Char> b;
    int n; // count argument (strncmp, strncpy, strncat) or character index (strchr)
};

constexpr int sign(int x) { return (x > 0) - (x < 0); }

template <typename Char>
struct CF; // the function family of a character type
template <>
struct CF<char> {
    static constexpr auto len(char const* s) { return etl::strlen(s); }
    static constexpr auto cmp(char const* a, char const* b) { return etl::strcmp(a, b); }
    static constexpr auto ncmp(char const* a, char const* b, std::size_t n) { return etl::strncmp(a, b, n); }
    static constexpr auto chr(char const* s, int c) { return etl::strchr(s, c); }
    static constexpr auto rchr(char const* s, int c) { return etl::strrchr(s, c); }
    static constexpr auto spn(char const* a, char const* b) { return etl::strspn(a, b); }
    static constexpr auto cspn(char const* a, char const* b) { return etl::strcspn(a, b); }
    static constexpr auto pbrk(char const* a, char const* b) { return etl::strpbrk(a, b); }
    static constexpr auto str(char const* a, char const* b) { return etl::strstr(a, b); }
    static constexpr auto cpy(char* d, char const* s) { return etl::strcpy(d, s); }
    static constexpr auto ncpy(char* d, char const* s, std::size_t n) { return etl::strncpy(d, s, n); }
    static constexpr auto cat(char* d, char const* s) { return etl::strcat(d, s); }
    static constexpr auto ncat(char* d, char const* s, std::size_t n) { return etl::strncat(d, s, n); }
    static constexpr char const* names[13]
        = {"strlen", "strcmp", "strncmp", "strchr", "strrchr", "strspn", "strcspn", "strpbrk", "strstr", "strcpy", "strncpy", "strcat", "strncat"};
};
template <>
struct CF<wchar_t> {
    static constexpr auto len(wchar_t const* s) { return etl::wcslen(s); }
    static constexpr auto cmp(wchar_t const* a, wchar_t const* b) { return etl::wcscmp(a, b); }
    static constexpr auto ncmp(wchar_t const* a, wchar_t const* b, std::size_t n) { return etl::wcsncmp(a, b, n); }
    static constexpr auto chr(wchar_t const* s, int c) { return etl::wcschr(s, c); }
    static constexpr auto rchr(wchar_t const* s, int c) { return etl::wcsrchr(s, c); }
    static constexpr auto spn(wchar_t const* a, wchar_t const* b) { return etl::wcsspn(a, b); }
    static constexpr auto cspn(wchar_t const* a, wchar_t const* b) { return etl::wcscspn(a, b); }
    static constexpr auto pbrk(wchar_t const* a, wchar_t const* b) { return etl::wcspbrk(a, b); }
    static constexpr auto str(wchar_t const* a, wchar_t const* b) { return etl::wcsstr(a, b); }
    static constexpr auto cpy(wchar_t* d, wchar_t const* s) { return etl::wcscpy(d, s); }
    static constexpr auto ncpy(wchar_t* d, wchar_t const* s, std::size_t n) { return etl::wcsncpy(d, s, n); }
    static constexpr auto cat(wchar_t* d, wchar_t const* s) { return etl::wcscat(d, s); }
    static constexpr auto ncat(wchar_t* d, wchar_t const* s, std::size_t n) { return etl::wcsncat(d, s, n); }
    static constexpr char const* names[13]
        = {"wcslen", "wcscmp", "wcsncmp", "wcschr", "wcsrchr", "wcsspn", "wcscspn", "wcspbrk", "wcsstr", "wcscpy", "wcsncpy", "wcscat", "wcsncat"};
};

template <typename Char>
constexpr int off(Char const* base, Char const* p)
{
    return p == nullptr ? -1 : int(p - base);
}

/// common parts of the pair kernels: table = all (a, b) pairs x count values [0, NCount)
template <typename Char, int NCount, std::size_t NStr = n_strings>
struct PairBase {
    using In = Pair<Char>;
    static constexpr std::size_t N = NStr * NStr * NCount;
    static constexpr In in(std::size_t i)
    {
        In p{};
        p.n = int(i % NCount);
        i /= NCount;
        p.b = nth_string<Char>(i % NStr);
        p.a = nth_string<Char>(i / NStr);
        return p;
    }
    static constexpr bool valid(In const&) { return true; }
    static std::string cls(In const& p)
    {
        std::string s = p.a.s[0] == 0 ? "a_empty" : "a_nonempty";
        s += p.b.s[0] == 0 ? ",b_empty" : ",b_nonempty";
        bool high = false;
        for (int k = 0; k < 8; ++k) { high = high || p.a.s[k] > Char(0x7f) || p.a.s[k] < Char(0) || p.b.s[k] > Char(0x7f) || p.b.s[k] < Char(0); }
        if (high) { s += ",high_char"; }
        return s;
    }
    static std::string show(In const& p)
    {
        return "a=" + show_str(p.a.s) + " b=" + show_str(p.b.s) + (NCount > 1 ? " n=" + std::to_string(p.n) : std::string());
    }
    static bool nontrivial(In const& p) { return p.a.s[0] != 0 || p.b.s[0] != 0; }
};

template <typename Char>
struct k_search : PairBase<Char, 1> { // read-only two-string functions
    using In = Pair<Char>;
    using R  = std::array<int, 6>;
    static std::string subject() { return std::string(CF<Char>::names[1]) + "/spn/cspn/pbrk/str(" + chname<Char>() + " const*, " + chname<Char>() + " const*)"; }
    static constexpr R call(In const& p)
    {
        using F = CF<Char>;
        return R{sign(F::cmp(p.a.s, p.b.s)), int(F::spn(p.a.s, p.b.s)), int(F::cspn(p.a.s, p.b.s)), off(p.a.s, F::pbrk(p.a.s, p.b.s)),
            off(p.a.s, F::str(p.a.s, p.b.s)), int(F::len(p.a.s))};
    }
};
template <typename Char>
struct k_ncmp : PairBase<Char, copy_len + 2, n_copy_strings> {
    using In = Pair<Char>;
    using R  = int;
    static std::string subject() { return std::string(CF<Char>::names[2]) + "(" + chname<Char>() + " const*, " + chname<Char>() + " const*, size_t)"; }
    static constexpr R call(In const& p) { return sign(CF<Char>::ncmp(p.a.s, p.b.s, std::size_t(p.n))); }
};
template <typename Char>
struct k_chr : PairBase<Char, 5, n_copy_strings> { // b unused except as a second haystack; n selects the character
    using In = Pair<Char>;
    using R  = std::array<int, 4>;
    static std::string subject() { return std::string(CF<Char>::names[3]) + "/" + CF<Char>::names[4] + "(" + chname<Char>() + " const*, int)"; }
    static constexpr int ch(int n) { return n < 3 ? int(letter<Char>(n)) : n == 3 ? 0 : int('c'); }
    static constexpr R call(In const& p)
    {
        using F = CF<Char>;
        return R{off(p.a.s, F::chr(p.a.s, ch(p.n))), off(p.a.s, F::rchr(p.a.s, ch(p.n))), off(p.b.s, F::chr(p.b.s, ch(p.n))),
            off(p.b.s, F::rchr(p.b.s, ch(p.n)))};
    }
    static std::string show(In const& p) { return PairBase<Char, 5, n_copy_strings>::show(p) + " ch=" + std::to_string(ch(p.n)); }
};
template <typename Char>
struct k_copy : PairBase<Char, copy_len + 2, n_copy_strings> { // writing functions; destination: 16 elements pre-filled with 'x'
    using In = Pair<Char>;
    using R  = std::array<long long, 8>;
    static std::string subject() { return std::string(CF<Char>::names[9]) + "/ncpy/cat/ncat(" + chname<Char>() + "*, " + chname<Char>() + " const*[, size_t])"; }
    static constexpr R call(In const& p)
    {
        using F = CF<Char>;
        R out{};
        Char d[4][16] = {};
        for (auto& row : d) {
            for (auto& c : row) { c = Char('x'); }
        }
        // strcpy(d0, b); strncpy(d1, b, n); strcat(d2 = a, b); strncat(d3 = a, b, n)
        auto* r0 = F::cpy(d[0], p.b.s);
        auto* r1 = F::ncpy(d[1], p.b.s, std::size_t(p.n));
        int const la = len_of(p.a.s);
        for (int k = 0; k <= la; ++k) {
            d[2][k] = p.a.s[k];
            d[3][k] = p.a.s[k];
        }
        auto* r2 = F::cat(d[2], p.b.s);
        auto* r3 = F::ncat(d[3], p.b.s, std::size_t(p.n));
        out[0]   = r0 - d[0];
        out[1]   = r1 - d[1];
        out[2]   = r2 - d[2];
        out[3]   = r3 - d[3];
        for (int j = 0; j < 4; ++j) { // the whole destination buffer, positionally
            unsigned long long h = 1469598103934665603ULL;
            for (int k = 0; k < 16; ++k) { h = (h ^ static_cast<unsigned long long>(static_cast<long long>(d[j][k]))) * 1099511628211ULL; }
            out[std::size_t(4 + j)] = static_cast<long long>(h);
        }
        return out;
    }
};

template <typename Char>
void strings_a(mc::Reporter& r)
{
    run_all<k_search<Char>, k_chr<Char>>(r);
}
template <typename Char>
void strings_b(mc::Reporter& r)
{
    run_all<k_ncmp<Char>, k_copy<Char>>(r);
}
void cctype_job(mc::Reporter& r)
{
    run_all<k_isalnum, k_isalpha, k_isblank, k_iscntrl, k_isdigit, k_isgraph, k_islower, k_isprint, k_ispunct, k_isspace, k_isupper,
        k_isxdigit, k_tolower, k_toupper>(r);
}
void cwctype_job(mc::Reporter& r)
{
    run_all<k_iswalnum, k_iswalpha, k_iswblank, k_iswcntrl, k_iswdigit, k_iswgraph, k_iswlower, k_iswprint, k_iswpunct, k_iswspace,
        k_iswupper, k_iswxdigit, k_towlower, k_towupper>(r);
}

} // namespace

int main(int argc, char** argv)
{
    mc::Main m(argc, argv);
    std::vector<std::string> const both{"quick", "thorough"};
#if MC_PART == 1
    m.job("cctype", both, cctype_job);
    m.job("cwctype", both, cwctype_job);
    m.job("cstring-search", both, strings_a<char>);
    m.job("cstring-copy", both, strings_b<char>);
#else
    m.job("cwchar-search", both, strings_a<wchar_t>);
    m.job("cwchar-copy", both, strings_b<wchar_t>);
#endif
    return m.run();
}
