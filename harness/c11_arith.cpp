// C11, part 2: calendar arithmetic against std::chrono.
//
//  arith/month, arith/weekday, arith/day, arith/year : unit types x delta for
//        x + d, d + x, x - d, x += d, x -= d, ++x, x++, --x, x-- (returned AND stored value),
//        x - x, comparisons.
//  arith/year_month, arith/year_month_day, arith/year_month_day_last, arith/year_month_weekday :
//        +/- months (carry into the year) and +/- years, compound forms where tetl defines them.
//  arith/year_month/allyears/* (thorough): year_month +/- months{-14..14}, +/- years{1} at every year.
//  syntax : the operator/ spellings build the same objects.
//
// Only inputs whose result the standard specifies take part (result year inside [-32767, 32767],
// day results inside [0, 254], weekday operands ok(), month/weekday differences of ok() values).
#include "c11_common.hpp"

#include <climits>

using namespace c11;

namespace {

V join(V a, V const& b)
{
    for (int i = 0; i < b.n; ++i) { a.add(b.v[i]); }
    return a;
}

char const* const kUnitOps[9] = {"operator+(x,d)", "operator+(d,x)", "operator-(x,d)", "operator+=", "operator-=", "operator++()", "operator++(int)",
    "operator--()", "operator--(int)"};

/// effective signed delta an op applies (k for +, -k for -, +-1 for inc/dec)
long long eff_delta(int op, long long k)
{
    switch (op) {
    case 0:
    case 1:
    case 3: return k;
    case 2:
    case 4: return -k;
    case 5:
    case 6: return 1;
    default: return -1;
    }
}

template <typename T, typename D, typename F>
V unit_op(int op, T x, D k, F fields)
{
    switch (op) {
    case 0: return fields(x + k);
    case 1: return fields(k + x);
    case 2: return fields(x - k);
    case 3: {
        T& ref = (x += k);
        return join(fields(x), V{&ref == &x});
    }
    case 4: {
        T& ref = (x -= k);
        return join(fields(x), V{&ref == &x});
    }
    case 5: {
        T& ref = ++x;
        return join(fields(x), V{&ref == &x});
    }
    case 6: {
        T old = x++;
        return join(fields(old), fields(x));
    }
    case 7: {
        T& ref = --x;
        return join(fields(x), V{&ref == &x});
    }
    default: {
        T old = x--;
        return join(fields(old), fields(x));
    }
    }
}

template <typename T>
V cmp6(T a, T b)
{
    return V{a == b, a != b, a < b, a <= b, a > b, a >= b};
}

std::vector<long long> delta_set(mc::Reporter& r, int small)
{
    std::vector<long long> d;
    for (int k = 0; k <= small; ++k) {
        d.push_back(k);
        if (k) { d.push_back(-k); }
    }
    for (long long big : {84LL, 1000LL, 1200LL, 12000LL, 65536LL, 1000003LL, 2147483647LL}) {
        d.push_back(big);
        d.push_back(-big);
    }
    (void)r;
    return d;
}

std::string huge_tag(long long k) { return (k > 100000 || k < -100000) ? "delta_huge+" : ""; }

// ---------------------------------------------------------------------------------------------
void job_month(mc::Reporter& r)
{
    Ctx c(r);
    auto const deltas = delta_set(r, r.thorough() ? 300 : 40);
    unsigned m   = 0;
    long long k  = 0;
    int op       = 0;
    std::string subjects[9];
    for (int i = 0; i < 9; ++i) { subjects[i] = cat("month::", kUnitOps[i]); }
    auto cls = [&] {
        long long const s = (long long)m - 1 + eff_delta(op, k);
        std::string p     = huge_tag(k);
        if (m > 13) {
            p += "month_gt_13+"; // round 2: the whole 8-bit operand range (the result is specified even if !x.ok())
        } else if (m < 1 || m > 12) {
            p += "month_not_ok+";
        }
        return p + (s < 0 ? "wraps_below" : (s > 11 ? "wraps_above" : "general"));
    };
    auto kase = [&] { return cat("month{", m, "} ", kUnitOps[op], " months{", (op >= 5 ? 1 : k), "}"); };
    // short guarded blocks (one per delta): the hang watchdog counts seconds without a new guard entry
    auto guard = [&](auto&& block) {
        mc::Trap const t = mc::guarded(block);
        if (t != mc::Trap::none) { c.trapped(t, cls(), kase()); }
    };
    for (long long kk : deltas) {
        k = kk;
        guard([&] {
            for (m = 0; m <= 255; ++m) {
                for (op = 0; op < 9; ++op) {
                    if (op >= 5 && k != 0) { continue; } // inc/dec do not depend on k: once
                    c.subject = subjects[op].c_str();
                    auto got  = unit_op(op, ec::month{m}, ec::months{int(k)}, [](auto const& x) { return f_month(x); });
                    auto want = unit_op(op, sc::month{m}, sc::months{k}, [](auto const& x) { return f_month(x); });
                    c.check(c.subject, got, want, cls, kase);
                    long long const s = (long long)m - 1 + eff_delta(op, k);
                    if (s < 0 || s > 11) { r.nontrivial(mc::hash_mix(mc::hash_mix(m, std::uint64_t(k)), op)); }
                    r.outcome(got.hash());
                }
            }
        });
    }
    guard([&] {
        // month - month: specified for ok() operands
        for (m = 1; m <= 12; ++m) {
            for (unsigned m2 = 1; m2 <= 12; ++m2) {
                c.subject = "month::operator-(month,month)";
                c.check(
                    c.subject, V{(long long)(ec::month{m} - ec::month{m2}).count()}, V{(long long)(sc::month{m} - sc::month{m2}).count()},
                    [&] { return std::string(m < m2 ? "lhs_lt_rhs" : "general"); }, [&] { return cat("month{", m, "} - month{", m2, "}"); });
                r.nontrivial(mc::hash_mix(0x1000 + m, m2));
            }
        }
        for (m = 0; m <= 14; ++m) {
            for (unsigned m2 = 0; m2 <= 14; ++m2) {
                c.subject = "month comparisons";
                c.check(
                    c.subject, cmp6(ec::month{m}, ec::month{m2}), cmp6(sc::month{m}, sc::month{m2}), [] { return std::string("general"); },
                    [&] { return cat("month{", m, "} <=> month{", m2, "}"); });
            }
        }
    });
    r.sample(cat("month 0..255 x months{", deltas.size(), " deltas incl. +-(2^31-1)} x 9 ops; 144 differences"));
    r.count("evaluations", c.evals);
}

// ---------------------------------------------------------------------------------------------
void job_weekday(mc::Reporter& r)
{
    Ctx c(r);
    auto const deltas = delta_set(r, r.thorough() ? 300 : 20);
    unsigned w  = 0;
    long long k = 0;
    int op      = 0;
    std::string subjects[9];
    for (int i = 0; i < 9; ++i) { subjects[i] = cat("weekday::", kUnitOps[i]); }
    auto cls = [&] {
        long long const s = (long long)(w % 7) + eff_delta(op, k);
        // round 2: encodings 8..255 (not ok(); weekday + days is specified "even if !x.ok()")
        return huge_tag(k) + (w > 7 ? "weekday_not_ok+" : "") + (s < 0 ? "wraps_below" : (s > 6 ? "wraps_above" : "general"));
    };
    auto kase = [&] { return cat("weekday{", w, "} ", kUnitOps[op], " days{", (op >= 5 ? 1 : k), "}"); };
    // short guarded blocks (one per delta): the hang watchdog counts seconds without a new guard entry
    auto guard = [&](auto&& block) {
        mc::Trap const t = mc::guarded(block);
        if (t != mc::Trap::none) { c.trapped(t, cls(), kase()); }
    };
    for (long long kk : deltas) {
        k = kk;
        guard([&] {
            for (w = 0; w <= 255; ++w) {
                for (op = 0; op < 9; ++op) {
                    if (op >= 5 && k != 0) { continue; }
                    c.subject = subjects[op].c_str();
                    auto got  = unit_op(op, ec::weekday{w}, ec::days{int(k)}, [](auto const& x) { return f_wd(x); });
                    auto want = unit_op(op, sc::weekday{w}, sc::days{k}, [](auto const& x) { return f_wd(x); });
                    c.check(c.subject, got, want, cls, kase);
                    long long const s = (long long)(w % 7) + eff_delta(op, k);
                    if (s < 0 || s > 6) { r.nontrivial(mc::hash_mix(mc::hash_mix(w, std::uint64_t(k)), op)); }
                    r.outcome(got.hash());
                }
            }
        });
    }
    guard([&] {
        for (w = 0; w <= 7; ++w) {
            for (unsigned w2 = 0; w2 <= 7; ++w2) {
                c.subject = "weekday::operator-(weekday,weekday)";
                c.check(
                    c.subject, V{(long long)(ec::weekday{w} - ec::weekday{w2}).count()}, V{(long long)(sc::weekday{w} - sc::weekday{w2}).count()},
                    [&] { return std::string((w % 7) < (w2 % 7) ? "lhs_lt_rhs" : "general"); }, [&] { return cat("weekday{", w, "} - weekday{", w2, "}"); });
                c.subject = "weekday comparisons";
                c.check(
                    c.subject, V{ec::weekday{w} == ec::weekday{w2}, ec::weekday{w} != ec::weekday{w2}}, V{sc::weekday{w} == sc::weekday{w2}, sc::weekday{w} != sc::weekday{w2}},
                    [] { return std::string("general"); }, [&] { return cat("weekday{", w, "} == weekday{", w2, "}"); });
                r.nontrivial(mc::hash_mix(0x1000 + w, w2));
            }
        }
    });
    r.sample(cat("weekday 0..255 x days{", deltas.size(), " deltas incl. +-(2^31-1)} x 9 ops; 64 differences"));
    r.count("evaluations", c.evals);
}

// ---------------------------------------------------------------------------------------------
void job_day(mc::Reporter& r)
{
    Ctx c(r);
    unsigned d = 0;
    int k      = 0;
    int op     = 0;
    std::string subjects[9];
    for (int i = 0; i < 9; ++i) { subjects[i] = cat("day::", kUnitOps[i]); }
    auto cls  = [&] { return std::string("general"); };
    auto kase = [&] { return cat("day{", d, "} ", kUnitOps[op], " days{", (op >= 5 ? 1 : k), "}"); };
    int const span = r.thorough() ? 254 : 40;
    // short guarded blocks (one per delta): the hang watchdog counts seconds without a new guard entry
    auto guard = [&](auto&& block) {
        mc::Trap const t = mc::guarded(block);
        if (t != mc::Trap::none) { c.trapped(t, cls(), kase()); }
    };
    for (k = -span; k <= span; ++k) {
        guard([&] {
            for (d = 0; d <= 254; ++d) {
                if (!r.thorough() && d > 60 && d < 200) { continue; }
                for (op = 0; op < 9; ++op) {
                    if (op >= 5 && k != 0) { continue; }
                    long long const res = (long long)d + eff_delta(op, k);
                    if (res < 0 || res > 254) { continue; } // unspecified outside [0,255]; 255 is tested in c11_days
                    c.subject = subjects[op].c_str();
                    auto got  = unit_op(op, ec::day{d}, ec::days{k}, [](auto const& x) { return f_day(x); });
                    auto want = unit_op(op, sc::day{d}, sc::days{k}, [](auto const& x) { return f_day(x); });
                    c.check(c.subject, got, want, cls, kase);
                    if (k != 0 || op >= 5) { r.nontrivial(mc::hash_mix(mc::hash_mix(d, std::uint64_t(k)), op)); }
                    r.outcome(got.hash());
                }
            }
        });
    }
    guard([&] {
        for (d = 0; d <= 40; ++d) {
            for (unsigned d2 = 0; d2 <= 40; ++d2) {
                c.subject = "day::operator-(day,day)";
                c.check(c.subject, V{(long long)(ec::day{d} - ec::day{d2}).count()}, V{(long long)(sc::day{d} - sc::day{d2}).count()}, cls, [&] { return cat("day{", d, "} - day{", d2, "}"); });
                c.subject = "day comparisons";
                c.check(c.subject, cmp6(ec::day{d}, ec::day{d2}), cmp6(sc::day{d}, sc::day{d2}), cls, [&] { return cat("day{", d, "} <=> day{", d2, "}"); });
            }
        }
    });
    r.sample(cat("day 0..254 x days{-", span, "..", span, "} x 9 ops, results inside [0,254]"));
    r.count("evaluations", c.evals);
}

// ---------------------------------------------------------------------------------------------
std::vector<int> year_lattice(bool thorough)
{
    std::set<int> s;
    for (int c = -2400; c <= 2400; c += 100) {
        for (int o = -1; o <= 1; ++o) { s.insert(c + o); }
    }
    for (int y : {-32768, -32767, -32766, -32401, -32400, -32399, -32001, -32000, -31999, -16384, -4, -3, -2, 2, 3, 4, 1968, 1969, 1970, 1971, 1972,
             2020, 2023, 2024, 16383, 16384, 31999, 32000, 32001, 32399, 32400, 32401, 32766, 32767}) {
        s.insert(y);
    }
    if (thorough) {
        for (int y = -32768; y <= 32767; y += 97) { s.insert(y); }
    }
    std::vector<int> v(s.begin(), s.end());
    std::stable_sort(v.begin(), v.end(), [](int a, int b) { return std::abs(a) < std::abs(b); }); // simplest first
    return v;
}

void job_year(mc::Reporter& r)
{
    Ctx c(r);
    auto const ys = year_lattice(r.thorough());
    std::vector<long long> ds{0, 1, -1, 2, -2, 3, -3, 4, -4, 100, -100, 399, -399, 400, -400, 401, -401, 1970, -1970, 32766, -32766, 32767, -32767, 32768, -32768, 65534, -65534, 65535,
        -65535};
    int y       = 0;
    long long k = 0;
    int op      = 0;
    std::string subjects[9];
    for (int i = 0; i < 9; ++i) { subjects[i] = cat("year::", kUnitOps[i]); }
    auto cls  = [&] { return std::string(y < 0 ? "year_neg" : "general"); };
    auto kase = [&] { return cat("year{", y, "} ", kUnitOps[op], " years{", (op >= 5 ? 1 : k), "}"); };
    for (int yy : ys) {
        y = yy;
        // one guarded block per year
        mc::Trap const t = mc::guarded([&] {
            for (long long kk : ds) {
                k = kk;
                for (op = 0; op < 9; ++op) {
                    if (op >= 5 && k != 0) { continue; }
                    long long const res = (long long)y + eff_delta(op, k);
                    if (res < -32768 || res > 32767) { continue; } // not representable: outside the statement
                    c.subject = subjects[op].c_str();
                    auto got  = unit_op(op, ec::year{y}, ec::years{int(k)}, [](auto const& x) { return f_year(x); });
                    auto want = unit_op(op, sc::year{y}, sc::years{k}, [](auto const& x) { return f_year(x); });
                    c.check(c.subject, got, want, cls, kase);
                    if (k != 0 || op >= 5) { r.nontrivial(mc::hash_mix(mc::hash_mix(std::uint64_t(y), std::uint64_t(k)), op)); }
                    r.outcome(got.hash());
                }
            }
            c.subject = "year::operator+()/operator-()";
            {
                V e = f_year(+ec::year{y});
                V s = f_year(+sc::year{y});
                if (y != -32768) {
                    e = join(e, f_year(-ec::year{y}));
                    s = join(s, f_year(-sc::year{y}));
                }
                c.check(c.subject, e, s, cls, [&] { return cat("+year{", y, "}, -year{", y, "}"); });
            }
            for (int y2 : ys) {
                c.subject = "year::operator-(year,year)";
                c.check(c.subject, V{(long long)(ec::year{y} - ec::year{y2}).count()}, V{(long long)(sc::year{y} - sc::year{y2}).count()}, cls, [&] { return cat("year{", y, "} - year{", y2, "}"); });
                c.subject = "year comparisons";
                c.check(c.subject, cmp6(ec::year{y}, ec::year{y2}), cmp6(sc::year{y}, sc::year{y2}), cls, [&] { return cat("year{", y, "} <=> year{", y2, "}"); });
            }
        });
        if (t != mc::Trap::none) { c.trapped(t, cls(), kase()); }
    }
    r.sample(cat(ys.size(), " lattice years (centuries +-1, int16 edges) x ", ds.size(), " deltas x 9 ops, representable results; all pairs for - and comparisons"));
    r.count("evaluations", c.evals);
}

/// round 2: year arithmetic at EVERY year (the lattice job above covers 181 years x 29 deltas)
void job_year_all(mc::Reporter& r, int y0, int y1 /*exclusive*/)
{
    Ctx c(r);
    std::vector<long long> const ds{0, 1, -1, 2, -2, 3, -3, 4, -4, 100, -100, 400, -400, 255, -255, 256, -256, 32767, -32767, 32768, -32768, 65534, -65534};
    int y       = 0;
    long long k = 0;
    int op      = 0;
    std::string subjects[9];
    for (int i = 0; i < 9; ++i) { subjects[i] = cat("year::", kUnitOps[i]); }
    auto cls = [&] {
        long long const res = (long long)y + eff_delta(op, k);
        return std::string((y < 0) != (res < 0) ? "crosses_zero" : (y < 0 ? "year_neg" : "general"));
    };
    auto kase = [&] { return cat("year{", y, "} ", kUnitOps[op], " years{", (op >= 5 ? 1 : k), "}"); };
    std::uint64_t nontrivial = 0;
    for (int yb = y0; yb < y1; yb += 512) {
        mc::Trap const t = mc::guarded([&] {
            for (y = yb; y < yb + 512 && y < y1; ++y) {
                for (long long kk : ds) {
                    k = kk;
                    for (op = 0; op < 9; ++op) {
                        if (op >= 5 && k != 0) { continue; }
                        long long const res = (long long)y + eff_delta(op, k);
                        if (res < -32767 || res > 32767) { continue; } // outside [min(), max()]: the value held is unspecified
                        c.subject = subjects[op].c_str();
                        auto got  = unit_op(op, ec::year{y}, ec::years{int(k)}, [](auto const& x) { return f_year(x); });
                        auto want = unit_op(op, sc::year{y}, sc::years{k}, [](auto const& x) { return f_year(x); });
                        c.check(c.subject, got, want, cls, kase);
                        if (k != 0 || op >= 5) { ++nontrivial; } // distinct by construction of the loops
                    }
                }
                c.subject = "year::operator+()/operator-()";
                c.check(
                    c.subject, join(f_year(+ec::year{y}), f_year(-ec::year{y})), join(f_year(+sc::year{y}), f_year(-sc::year{y})), [&] { return std::string(y < 0 ? "year_neg" : "general"); },
                    [&] { return cat("+year{", y, "}, -year{", y, "}"); });
            }
        });
        if (t != mc::Trap::none) { c.trapped(t, cls(), kase()); }
        if (r.deadline_passed()) {
            r.not_exhaustive("deadline");
            break;
        }
    }
    r.sample(cat("every year in [", y0, ",", y1, ") x ", ds.size(), " deltas x 9 ops with results inside [-32767,32767]; unary + and -"));
    r.count("evaluations", c.evals);
    r.count("distinct_nontrivial", nontrivial);
}

// ---------------------------------------------------------------------------------------------
// composite types
// ---------------------------------------------------------------------------------------------

char const* const kCompOps[10] = {"operator+(x,months)", "operator+(months,x)", "operator-(x,months)", "operator+=(months)", "operator-=(months)", "operator+(x,years)",
    "operator+(years,x)", "operator-(x,years)", "operator+=(years)", "operator-=(years)"};

template <typename L, bool Compound, typename X, typename F>
V comp_op(int op, X x, long long k, F fields)
{
    typename L::months const M{static_cast<typename L::months::rep>(k)};
    typename L::years const Y{static_cast<typename L::years::rep>(k)};
    switch (op) {
    case 0: return fields(x + M);
    case 1: return fields(M + x);
    case 2: return fields(x - M);
    case 5: return fields(x + Y);
    case 6: return fields(Y + x);
    case 7: return fields(x - Y);
    default: break;
    }
    if constexpr (Compound) {
        switch (op) {
        case 3: {
            X& ref = (x += M);
            return join(fields(x), V{&ref == &x});
        }
        case 4: {
            X& ref = (x -= M);
            return join(fields(x), V{&ref == &x});
        }
        case 8: {
            X& ref = (x += Y);
            return join(fields(x), V{&ref == &x});
        }
        case 9: {
            X& ref = (x -= Y);
            return join(fields(x), V{&ref == &x});
        }
        default: break;
        }
    }
    return V{};
}

struct CompSpace {
    std::vector<int> years;
    std::vector<long long> dm;
    std::vector<long long> dy;
};

CompSpace comp_space(bool thorough)
{
    CompSpace s;
    s.years = {1970, 1969, 1971, 2000, 0, 1, -1, 32762, -32762, 32767, -32767, 32766, -32766}; // round 2: the limits themselves in both tiers
    if (thorough) {
        for (int y : {1999, 2001, 2023, 2024, 1900, 1600, -400, -401, 100, -100, 32765, -32765, 16384, -16384}) { s.years.push_back(y); }
    }
    int const span = thorough ? 500 : 40;
    for (int k = 0; k <= span; ++k) {
        s.dm.push_back(k);
        if (k) { s.dm.push_back(-k); }
    }
    // large single steps (tens of thousands of years): only representable from years near the ends of the range, where
    // the result stays inside [-32767, 32767] (added after seeded breakage c11_year_month_bias_wrap: a biased unsigned
    // month index wrapped for deltas below -524292 months)
    for (long long k : {393204LL, 524280LL, 524291LL, 524292LL, 524293LL, 524304LL, 600000LL, 655344LL, 720000LL, 786000LL}) {
        s.dm.push_back(k);
        s.dm.push_back(-k);
    }
    if (thorough) {
        for (long long k : {1200LL, -1200LL, 4800LL, -4800LL, 786408LL, -786408LL, 262146LL, -262146LL, 131073LL, -131073LL, 65536LL, -65536LL}) { s.dm.push_back(k); }
    }
    s.dy = {0, 1, -1, 2, -2, 400, -400};
    if (thorough) {
        for (long long k : {3LL, -3LL, 4LL, -4LL, 100LL, -100LL, 1000LL, -1000LL, 32762LL, -32762LL, 65524LL, -65524LL}) { s.dy.push_back(k); }
    }
    return s;
}

/// runs the ten operations over the space; `mk(L{}, y, m)` builds the object, `extra` labels it
template <bool Compound, typename Make, typename Fields>
void comp_sweep(mc::Reporter& r, Ctx& c, char const* type, CompSpace const& sp, std::string const& extra, Make mk, Fields fields, bool leapday)
{
    int y       = 0;
    unsigned m  = 0;
    long long k = 0;
    int op      = 0;
    std::uint64_t nontrivial = 0;
    auto cls = [&] {
        std::string p = leapday ? "leap_day+" : "";
        if (op < 5) {
            long long const s = (long long)m - 1 + (op == 2 || op == 4 ? -k : k);
            return p + (s < 0 ? "month_borrow" : (s > 11 ? "month_carry" : "general"));
        }
        return p + "general";
    };
    auto kase = [&] { return cat(type, "{", y, ",", m, extra, "} ", kCompOps[op], " ", (op < 5 ? "months{" : "years{"), k, "}"); };
    std::string subjects[10];
    for (int i = 0; i < 10; ++i) { subjects[i] = cat(type, "::", kCompOps[i]); }
    c.recent.clear(); // the cache compares subject pointers: never carry it over to another subjects[] array
    for (int yy : sp.years) {
        y = yy;
        if (r.deadline_passed()) {
            r.not_exhaustive("deadline");
            break;
        }
        // one guard per (year, month): short blocks, so the hang watchdog only ever sees real hangs
        for (m = 1; m <= 12; ++m) {
            mc::Trap t = mc::guarded([&] {
                for (op = 0; op < 10; ++op) {
                    if (!Compound && (op == 3 || op == 4 || op == 8 || op == 9)) { continue; }
                    for (long long kk : (op < 5 ? sp.dm : sp.dy)) {
                        k = kk;
                        long long const signedk = (op == 2 || op == 4 || op == 7 || op == 9) ? -k : k;
                        long long const ry       = (op < 5) ? (long long)y + floor_div((long long)m - 1 + signedk, 12) : (long long)y + signedk;
                        if (ry < -32767 || ry > 32767) { continue; } // result year must be representable and ok()
                        c.subject = subjects[op].c_str();
                        auto got  = comp_op<E, Compound>(op, mk(E{}, y, m), k, fields);
                        auto want = comp_op<S, Compound>(op, mk(S{}, y, m), k, fields);
                        c.check(c.subject, got, want, cls, kase);
                        if (op < 5) {
                            long long const s = (long long)m - 1 + signedk;
                            if (s < 0 || s > 11) { ++nontrivial; } // distinct by construction of the loops
                        }
                        r.outcome(got.hash());
                    }
                }
            });
            if (t != mc::Trap::none) { c.trapped(t, cls(), kase()); }
        }
    }
    r.count("distinct_nontrivial", nontrivial);
}

/// EVERY month delta of the representable span, not a lattice (added after seeded breakage
/// c11_year_month_plus_months_reciprocal: a multiply-shift division by 12, exact only below 2^17, was used for month
/// indices up to 2^18 - wrong for 1 delta in 12 inside [131075, 262139], none of them a round number).
/// year_month +/- months from the start years {-32767, 0, 32767} x 12 start months x every delta whose result year is
/// representable; year and month of the result against std::chrono (and the closed form floor_div).
void job_year_month_every_delta(mc::Reporter& r, int y0)
{
    std::uint64_t ev = 0, nt = 0;
    long long const span = 786420; // 65535 years
    for (unsigned m0 = 1; m0 <= 12; ++m0) {
        ec::year_month const e0{ec::year{y0}, ec::month{m0}};
        sc::year_month const s0{sc::year{y0}, sc::month{m0}};
        for (long long k = -span; k <= span; ++k) {
            long long const idx = (long long)m0 - 1 + k;
            long long const ry  = (long long)y0 + floor_div(idx, 12);
            if (ry < -32767 || ry > 32767) { continue; }
            auto const dk = static_cast<int>(k);
            auto const ea = e0 + ec::months{dk};
            auto const sa = s0 + sc::months{dk};
            auto const eb = e0 - ec::months{-dk};
            ev += 2;
            if (idx < 0 || idx > 11) { ++nt; }
            bool const ok_a = int(ea.year()) == int(sa.year()) && unsigned(ea.month()) == unsigned(sa.month());
            bool const ok_b = int(eb.year()) == int(sa.year()) && unsigned(eb.month()) == unsigned(sa.month());
            if (!ok_a || !ok_b) {
                std::string const cls = cat(k > 100000 || k < -100000 ? "delta_huge+" : "", idx < 0 ? "month_borrow" : (idx > 11 ? "month_carry" : "general"), unsigned(sa.month()) == 12 ? "+result_december" : "");
                r.violation("C11", !ok_a ? "year_month::operator+(months)" : "year_month::operator-(months)", cls, cat("year_month{", y0, ",", m0, "} ", !ok_a ? "+ months{" : "- months{", !ok_a ? k : -k, "}"),
                    cat("tetl ", int((!ok_a ? ea : eb).year()), "/", unsigned((!ok_a ? ea : eb).month()), " std ", int(sa.year()), "/", unsigned(sa.month())));
            }
        }
        r.outcome(mc::hash_str(cat(y0, "/", m0)));
    }
    r.sample(cat("year_month{", y0, ", 1..12} +/- months{k} for EVERY k in [-786420, 786420] with a representable result year"));
    r.count("evaluations", ev);
    r.count("distinct_nontrivial", nt);
}

void job_year_month(mc::Reporter& r)
{
    Ctx c(r);
    auto const sp = comp_space(r.thorough());
    comp_sweep<true>(
        r, c, "year_month", sp, "", [](auto L, int y, unsigned m) { return typename decltype(L)::year_month{typename decltype(L)::year{y}, typename decltype(L)::month{m}}; },
        [](auto const& x) { return f_ym(x); }, false);
    // equality
    for (int y : {1970, 1971}) {
        for (unsigned m = 1; m <= 3; ++m) {
            for (int y2 : {1970, 1971}) {
                for (unsigned m2 = 1; m2 <= 3; ++m2) {
                    ec::year_month const a{ec::year{y}, ec::month{m}}, b{ec::year{y2}, ec::month{m2}};
                    sc::year_month const sa{sc::year{y}, sc::month{m}}, sb{sc::year{y2}, sc::month{m2}};
                    c.check("year_month::operator==", V{a == b, a != b}, V{sa == sb, sa != sb}, [] { return std::string("general"); }, [&] { return cat(y, "/", m, " == ", y2, "/", m2); });
                }
            }
        }
    }
    r.sample(cat("year_month: ", sp.years.size(), " years x 12 months x ", sp.dm.size(), " month deltas / ", sp.dy.size(), " year deltas x 10 ops"));
    r.count("evaluations", c.evals);
}

/// thorough only: the year carry of year_month +/- months at EVERY year (the lattice jobs above use 9-23 years)
void job_year_month_allyears(mc::Reporter& r, int y0, int y1 /*exclusive*/)
{
    Ctx c(r);
    CompSpace sp;
    for (int y = y0; y < y1; ++y) { sp.years.push_back(y); }
    for (int k = 0; k <= 14; ++k) {
        sp.dm.push_back(k);
        if (k) { sp.dm.push_back(-k); }
    }
    sp.dy = {1, -1};
    comp_sweep<true>(
        r, c, "year_month", sp, "", [](auto L, int y, unsigned m) { return typename decltype(L)::year_month{typename decltype(L)::year{y}, typename decltype(L)::month{m}}; },
        [](auto const& x) { return f_ym(x); }, false);
    r.sample(cat("year_month: every year in [", y0, ",", y1, ") x 12 months x month deltas [-14,14] / year deltas +-1 x 10 ops"));
    r.count("evaluations", c.evals);
}

void job_ymd(mc::Reporter& r)
{
    Ctx c(r);
    auto const sp = comp_space(r.thorough());
    std::vector<unsigned> ds{1U, 28U, 29U, 30U, 31U, 15U};
    if (r.thorough()) {
        for (unsigned d : {0U, 32U, 255U}) { ds.push_back(d); } // round 2: the day is carried unchanged whatever it holds
    }
    for (unsigned d : ds) {
        comp_sweep<true>(
            r, c, "year_month_day", sp, cat(",", d),
            [d](auto L, int y, unsigned m) { return typename decltype(L)::year_month_day{typename decltype(L)::year{y}, typename decltype(L)::month{m}, typename decltype(L)::day{d}}; },
            [](auto const& x) { return f_ymd(x); }, d == 29);
        if (r.deadline_passed()) {
            r.not_exhaustive("deadline");
            break;
        }
    }
    for (int y : {1970, 1971}) {
        for (unsigned m = 1; m <= 2; ++m) {
            for (unsigned d = 1; d <= 2; ++d) {
                for (int y2 : {1970, 1971}) {
                    for (unsigned m2 = 1; m2 <= 2; ++m2) {
                        for (unsigned d2 = 1; d2 <= 2; ++d2) {
                            ec::year_month_day const a{ec::year{y}, ec::month{m}, ec::day{d}}, b{ec::year{y2}, ec::month{m2}, ec::day{d2}};
                            sc::year_month_day const sa{sc::year{y}, sc::month{m}, sc::day{d}}, sb{sc::year{y2}, sc::month{m2}, sc::day{d2}};
                            c.check("year_month_day::operator==", V{a == b, a != b}, V{sa == sb, sa != sb}, [] { return std::string("general"); }, [&] { return cat(y, "/", m, "/", d, " == ", y2, "/", m2, "/", d2); });
                        }
                    }
                }
            }
        }
    }
    r.sample(cat("year_month_day: days {1,28,29,30,31,15", (r.thorough() ? ",0,32,255" : ""), "} x ", sp.years.size(), " years x 12 months x ", sp.dm.size(), " month deltas / ", sp.dy.size(), " year deltas x 10 ops"));
    r.count("evaluations", c.evals);
}

void job_ymdl(mc::Reporter& r)
{
    Ctx c(r);
    auto const sp = comp_space(r.thorough());
    comp_sweep<true>(
        r, c, "year_month_day_last", sp, "/last",
        [](auto L, int y, unsigned m) {
            using LL = decltype(L);
            return typename LL::year_month_day_last{typename LL::year{y}, typename LL::month_day_last{typename LL::month{m}}};
        },
        [](auto const& x) { return f_ymdl(x); }, false);
    r.sample(cat("year_month_day_last: ", sp.years.size(), " years x 12 months x ", sp.dm.size(), " month deltas / ", sp.dy.size(), " year deltas x 10 ops"));
    r.count("evaluations", c.evals);
}

void job_ymw(mc::Reporter& r)
{
    Ctx c(r);
    auto const sp = comp_space(r.thorough());
    for (unsigned wd = 0; wd <= 6; ++wd) {
        for (unsigned idx = 0; idx <= 5; ++idx) {
            // quick: weekday {0,3,6} x index {1,5}; thorough (round 2): every weekday x {1,5} and Wednesday x every index 0..5
            bool const in_quick = (wd == 0 || wd == 3 || wd == 6) && (idx == 1 || idx == 5);
            if (!in_quick && !(r.thorough() && (idx == 1 || idx == 5 || wd == 3))) { continue; }
            // compound assignment of year_month_weekday is declared but not defined in tetl (API gap)
            comp_sweep<false>(
                r, c, "year_month_weekday", sp, cat(",weekday{", wd, "}[", idx, "]"),
                [wd, idx](auto L, int y, unsigned m) {
                    using LL = decltype(L);
                    return typename LL::year_month_weekday{typename LL::year{y}, typename LL::month{m}, typename LL::weekday_indexed{typename LL::weekday{wd}, idx}};
                },
                [](auto const& x) { return f_ymw(x); }, false);
        }
    }
    r.sample(cat("year_month_weekday: ", (r.thorough() ? "weekday 0..6 x index {1,5} + Wednesday x index 0..5" : "weekday {0,3,6} x index {1,5}"), " x ", sp.years.size(), " years x 12 months x ", sp.dm.size(), " month deltas / ", sp.dy.size(), " year deltas x 6 ops"));
    r.count("evaluations", c.evals);
}

// ---------------------------------------------------------------------------------------------
// conventional syntax: every operator/ spelling tetl provides builds what std builds
// ---------------------------------------------------------------------------------------------
template <typename L>
V syntax(int form, int yi, unsigned mi, unsigned di, unsigned wi, unsigned idx)
{
    typename L::year const y{yi};
    typename L::month const m{mi};
    typename L::day const d{di};
    typename L::weekday const w{wi};
    int const im = int(mi);
    int const id = int(di);
    switch (form) {
    case 0: return f_ym(y / m);
    case 1: return f_ym(y / im);
    case 2: return f_ymd(y / m / d);
    case 3: return f_ymd(y / m / id);
    case 4: return f_ymd(y / (m / d));
    case 5: return f_ymd(yi / (m / d));
    case 6: return f_ymd((m / d) / y);
    case 7: return f_ymd((m / d) / yi);
    case 8: return f_ymd((m / id) / y);
    case 9: return f_ymd((im / d) / y);
    case 10: return f_ymd((d / m) / y);
    case 11: return f_ymd((d / im) / y);
    case 12: return f_ymdl(y / m / L::last);
    case 13: return f_ymdl(y / (m / L::last));
    case 14: return f_ymdl(yi / (m / L::last));
    case 15: return f_ymdl((m / L::last) / y);
    case 16: return f_ymdl((m / L::last) / yi);
    case 17: return f_ymdl((im / L::last) / y);
    case 18: return f_ymdl((L::last / m) / y);
    case 19: return f_ymdl((L::last / im) / y);
    case 20: {
        auto const x = m / w[idx];
        return V{(long long)unsigned(x.month()), (long long)x.weekday_indexed().weekday().c_encoding(), (long long)x.weekday_indexed().index(), x.ok()};
    }
    case 21: {
        auto const x = im / w[idx];
        return V{(long long)unsigned(x.month()), (long long)x.weekday_indexed().index(), x.ok()};
    }
    case 22: {
        auto const x = w[idx] / m;
        return V{(long long)unsigned(x.month()), (long long)x.weekday_indexed().index(), x.ok()};
    }
    case 23: {
        auto const x = w[idx] / im;
        return V{(long long)unsigned(x.month()), (long long)x.weekday_indexed().index(), x.ok()};
    }
    case 24: {
        auto const x = m / w[L::last];
        return V{(long long)unsigned(x.month()), (long long)x.weekday_last().weekday().c_encoding(), x.ok()};
    }
    case 25: {
        auto const x = im / w[L::last];
        return V{(long long)unsigned(x.month()), (long long)x.weekday_last().weekday().c_encoding(), x.ok()};
    }
    case 26: {
        auto const x = w[L::last] / m;
        return V{(long long)unsigned(x.month()), (long long)x.weekday_last().weekday().c_encoding(), x.ok()};
    }
    default: {
        auto const x = w[L::last] / im;
        return V{(long long)unsigned(x.month()), (long long)x.weekday_last().weekday().c_encoding(), x.ok()};
    }
    }
}

void job_syntax(mc::Reporter& r)
{
    Ctx c(r);
    int y = 0, form = 0;
    unsigned m = 0, d = 0;
    mc::Trap t = mc::guarded([&] {
        for (int yy : {1970, 2024, 2023, -1, 0, 32767, -32767}) {
            y = yy;
            for (m = 1; m <= 12; ++m) {
                for (unsigned dd : {1U, 15U, 28U, 29U, 30U, 31U}) {
                    d = dd;
                    for (form = 0; form < 28; ++form) {
                        c.subject = "operator/ (conventional syntax)";
                        unsigned const wd = (m + d) % 7, idx = 1 + d % 5;
                        c.check(
                            c.subject, syntax<E>(form, y, m, d, wd, idx), syntax<S>(form, y, m, d, wd, idx), [&] { return cat("form", form); },
                            [&] { return cat("form ", form, " with y=", y, " m=", m, " d=", d, " weekday=", wd, " index=", idx); });
                    }
                }
            }
        }
    });
    if (t != mc::Trap::none) { c.trapped(t, cat("form", form), cat("form ", form, " with y=", y, " m=", m, " d=", d)); }
    r.sample("28 operator/ spellings x 7 years x 12 months x 6 days");
    r.count("evaluations", c.evals);
    r.count("distinct_nontrivial", 28ULL * 7 * 12 * 6);
}

} // namespace

int main(int argc, char** argv)
{
    mc::Main m(argc, argv);
    std::vector<std::string> const both{"quick", "thorough"};
    m.job("arith/month", both, job_month);
    m.job("arith/weekday", both, job_weekday);
    m.job("arith/day", both, job_day);
    m.job("arith/year", both, job_year);
    m.job("arith/year_month", both, job_year_month);
    for (int y0 : {-32767, 0, 32767}) { m.job(cat("arith/year_month/every-delta/from-", y0), both, [=](mc::Reporter& r) { job_year_month_every_delta(r, y0); }); }
    m.job("arith/year_month_day", both, job_ymd);
    m.job("arith/year_month_day_last", both, job_ymdl);
    m.job("arith/year_month_weekday", both, job_ymw);
    m.job("syntax", both, job_syntax);
    for (int k = 0; k < 4; ++k) {
        int const y0 = -32767 + k * 16384;
        int const y1 = std::min(y0 + 16384, 32768);
        m.job(cat("arith/year/allyears/", y0, "..", y1 - 1), both, [=](mc::Reporter& r) { job_year_all(r, y0, y1); });
    }
    for (int k = 0; k < 8; ++k) {
        int const y0 = -32767 + k * 8192;
        int const y1 = std::min(y0 + 8192, 32768);
        m.job(cat("arith/year_month/allyears/", y0, "..", y1 - 1), {"thorough"}, [=](mc::Reporter& r) { job_year_month_allyears(r, y0, y1); });
    }
    return m.run();
}
